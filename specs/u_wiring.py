"""Unit `wiring`: taskiq/cli/worker/run.py::start_listen and taskiq/receiver/receiver.py::Receiver.__init__ — the hand-over of the worker's configuration to the Receiver it builds
(C02, C03, C04, C05, C08, C12: those statements are phrased over "max_async_tasks = A", "max_prefetch = P", "the acknowledge type",
"exception propagation enabled", ... - what the user configures is what `taskiq worker` passes on).

Contract: the one call that builds the receiver (role: the call whose keywords include max_async_tasks) passes, for every option the
properties talk about, exactly the corresponding field of the parsed arguments - negated for the two `--no-...` switches - and `**receiver_kwargs`
can only add further options. Each keyword expression of the REAL call is evaluated symbolically over an arbitrary WorkerArgs."""
import ast
from z3 import *
from pyvc.core import *

PROPS = ['C02', 'C03', 'C04', 'C05', 'C08', 'C12', 'C07', 'C11', 'C01', 'C06']
REPLAY = {'driver': 'wiring'}
REL = 'taskiq/cli/worker/run.py'
TRUSTED = ["WorkerArgs.from_cli maps each command-line option to the field of the same meaning (checked natively by replay/wiring.py for the options used here, not deductively)",
           "receiver_kwargs (--receiver_arg) is user-supplied and may override nothing that is passed explicitly (Python raises TypeError on a duplicate keyword)"]

# option of the Receiver -> (field of WorkerArgs, negated?, properties it carries)
WANT = {'max_async_tasks': ('max_async_tasks', False, 'C03/C04'), 'max_prefetch': ('max_prefetch', False, 'C04'), 'propagate_exceptions': ('no_propagate_errors', True, 'C12'),
        'validate_params': ('no_parse', True, 'C08'), 'ack_type': ('ack_type', False, 'C02'), 'max_tasks_to_execute': ('max_tasks_per_child', False, 'C05'),
        'wait_tasks_timeout': ('wait_tasks_timeout', False, 'C05')}


def generate(src):
    fd = src.func(REL, 'start_listen')
    calls = [n for n in ast.walk(fd) if isinstance(n, ast.Call) and any(k.arg == 'max_async_tasks' for k in n.keywords)]
    if len(calls) != 1: raise Unsupported(f"start_listen: expected exactly one call that builds the receiver (a call with a max_async_tasks keyword), found {len(calls)}")
    call = calls[0]
    args_a = Int('args_addr'); st0 = State(); st0.env = {'args': PyObj(args_a)}
    class Ex(Exec):
        def ev_Name(self, e, st, k, K):
            if e.id not in st.env: raise Unsupported("receiver option computed from a local the contract does not know: " + e.id)
            return super().ev_Name(e, st, k, K)
    ex = Ex({}); ex.no_pure_fallback = True
    kws = {k.arg: k.value for k in call.keywords if k.arg is not None}
    for opt, (field, neg, props) in WANT.items():
        if opt not in kws:
            oblige(st0, f"start_listen/receiver option {opt}: passed explicitly from the parsed arguments  [{props}]", BoolVal(False)); continue
        st = st0.fork(); fv = st.heap.field(field)[args_a]
        def got(s, v, opt=opt, field=field, neg=neg, props=props, fv=fv):
            if neg: oblige(s, f"start_listen/receiver option {opt} == not args.{field}  [{props}]", truthy(v) == Not(truthy(fv)), witness={'args.' + field: fv})
            else: oblige(s, f"start_listen/receiver option {opt} == args.{field}  [{props}]", to_val(v) == fv, witness={'args.' + field: fv})
            reach(s, f"start_listen/reach@{opt}")
        ex.ev(kws[opt], st, got, {'exc': lambda s, x: oblige(s, f"start_listen/receiver option {opt}: evaluating it raises nothing  [{props}]", BoolVal(False))})
    # ---------------- the two other places that build a Receiver from options of their own: the programmatic worker and the in-memory broker
    def handover(rel, qual, want, what):
        fd2 = src.func(rel, qual)
        cs = [n for n in ast.walk(fd2) if isinstance(n, ast.Call) and any(k.arg in ('max_async_tasks', 'propagate_exceptions') for k in n.keywords) and any(k.arg == 'broker' for k in n.keywords)]
        if len(cs) != 1: raise Unsupported(f"{qual}: expected exactly one call that builds the receiver, found {len(cs)}")
        kw2 = {k.arg: k.value for k in cs[0].keywords if k.arg is not None}
        params = [a_.arg for a_ in fd2.args.args + fd2.args.kwonlyargs]
        s0 = State(); s0.env = {p_: fresh(p_) for p_ in params}; given = dict(s0.env)
        # the keyword expressions are evaluated in the entry environment: a parameter that the body re-binds before the call no longer holds what the caller gave.
        # Its value at the call is then unknown here (approximation: a refutation is left to the native driver, a proof is not claimed).
        rebound = {n_.id for n_ in ast.walk(fd2) if isinstance(n_, ast.Name) and isinstance(n_.ctx, ast.Store) and n_.id in params}
        for p_ in rebound: s0.env[p_] = fresh(p_ + '_rebound'); approx(s0, f"{qual}: parameter `{p_}` is re-bound in the body before the receiver is built")
        for opt, (par, props) in want.items():
            if par not in params: continue          # the entry point does not offer this option
            if opt not in kw2:
                oblige(s0, f"{what}/receiver option {opt}: the `{par}` given to {qual.split('.')[0]} is passed on  [{props}]", BoolVal(False)); continue
            s1 = s0.fork()
            ex.ev(kw2[opt], s1, lambda s, v, opt=opt, par=par, props=props: (oblige(s, f"{what}/receiver option {opt} == the `{par}` given to {qual.split('.')[0]}  [{props}]", to_val(v) == given[par]), reach(s, f"{what}/reach@{opt}")),
                  {'exc': lambda s, x: None})
    handover('taskiq/api/receiver.py', 'run_receiver_task', {'max_async_tasks': ('max_async_tasks', 'C03/C04'), 'max_prefetch': ('max_prefetch', 'C04'), 'propagate_exceptions': ('propagate_exceptions', 'C12'),
                                                               'validate_params': ('validate_params', 'C08'), 'ack_type': ('ack_time', 'C02')}, 'run_receiver_task')
    handover('taskiq/brokers/inmemory_broker.py', 'InMemoryBroker.__init__', {'max_async_tasks': ('max_async_tasks', 'C03/C04'), 'propagate_exceptions': ('propagate_exceptions', 'C12'), 'validate_params': ('cast_types', 'C08')}, 'InMemoryBroker')
    # the receiver the broker uses is the one __init__ built: a method that assigns self.receiver again replaces it by one whose options this unit has not
    # seen (approximation: left to the native driver, which reads the options of the receiver in use after startup())
    imt = src.tree('taskiq/brokers/inmemory_broker.py')
    for cd_ in [n_ for n_ in imt.body if isinstance(n_, ast.ClassDef) and n_.name == 'InMemoryBroker']:
        for fd_ in [n_ for n_ in cd_.body if isinstance(n_, (ast.FunctionDef, ast.AsyncFunctionDef)) and n_.name != '__init__']:
            if any(isinstance(x, ast.Attribute) and isinstance(x.ctx, ast.Store) and x.attr == 'receiver' for x in ast.walk(fd_)):
                sx = State(); approx(sx, f"InMemoryBroker.{fd_.name} replaces self.receiver")
                oblige(sx, f"InMemoryBroker.{fd_.name}/receiver: the receiver in use keeps the options given to the broker (max_async_tasks, propagate_exceptions, cast_types)  [C03/C04/C12/C08]", BoolVal(False))
    # ---------------- Receiver.__init__: the options are stored as given (callback / run_task / prefetcher / runner read them back from self)
    RREL = 'taskiq/receiver/receiver.py'; init = src.func(RREL, 'Receiver.__init__')
    class ExI(Exec):
        def st_For(self, s, st, k, K): return k(st)          # the task-preparation loop (no option is assigned inside a loop: checked below)
    for lp in [n for n in ast.walk(init) if isinstance(n, (ast.For, ast.While))]:
        if any(isinstance(x, ast.Attribute) and isinstance(x.ctx, ast.Store) and x.attr in ('validate_params', 'propagate_exceptions', 'ack_time', 'max_tasks_to_execute', 'wait_tasks_timeout') for x in ast.walk(lp)):
            raise Unsupported("Receiver.__init__: an option is assigned inside a loop")
    exi = ExI({'logger.*': noop, 'asyncio.Semaphore': opaque('semaphore'), 'set': opaque('set')}); exi.ev_Dict = lambda e, st, k, K: k(st, fresh('dict'))
    sti = State(); self_a = Int('self_a'); sti.env = {'self': PyObj(self_a)}; params = {}
    for a_ in init.args.args[1:]: params[a_.arg] = fresh(a_.arg); sti.env[a_.arg] = params[a_.arg]
    if 'ack_type' in params: sti.pc.append(Or(params['ack_type'] == Val.none, Val.is_ref(params['ack_type'])))          # an enum member (truthy) or None
    if 'max_async_tasks' in params: sti.pc.append(Or(params['max_async_tasks'] == Val.none, Val.is_intv(params['max_async_tasks'])))
    def i_ret(s, v):
        h = s.heap
        for fld, par, props in (('validate_params', 'validate_params', 'C08'), ('propagate_exceptions', 'propagate_exceptions', 'C12'), ('max_tasks_to_execute', 'max_tasks_to_execute', 'C05'), ('wait_tasks_timeout', 'wait_tasks_timeout', 'C05')):
            oblige(s, f"Receiver.__init__/post: self.{fld} is the `{par}` the receiver was built with  [{props}]", h.field(fld)[self_a] == params[par] if par in params else BoolVal(False))
        oblige(s, "Receiver.__init__/post: self.ack_time is the `ack_type` the receiver was built with (when_saved if none was given)  [C02]",
               Implies(params['ack_type'] != Val.none, h.field('ack_time')[self_a] == params['ack_type']) if 'ack_type' in params else BoolVal(False))
        reach(s, "Receiver.__init__/reach@return")
    exi.run(init, sti, i_ret, lambda s, x: None)
    # ---------------- Receiver._prepare_task: what run_task/parse_params later read from the per-task tables is computed from THIS task's function
    prep = src.func(RREL, 'Receiver._prepare_task'); pp = [a_.arg for a_ in prep.args.args]
    if len(pp) != 3: raise Unsupported("Receiver._prepare_task signature: " + ast.unparse(prep.args))
    sigf = Function('inspect_signature', Val, Val); hintsf = Function('typing_get_type_hints', Val, Val); graphf = Function('DependencyGraph', Val, Val)
    exp_ = Exec({'inspect.signature': lambda ex_, st_, e, r, a, kw, k, K: k(st_, sigf(to_val(a[0]))), 'get_type_hints': lambda ex_, st_, e, r, a, kw, k, K: k(st_, hintsf(to_val(a[0]))),
                 'typing.get_type_hints': lambda ex_, st_, e, r, a, kw, k, K: k(st_, hintsf(to_val(a[0]))), 'DependencyGraph': lambda ex_, st_, e, r, a, kw, k, K: k(st_, graphf(to_val(a[0]))),
                 'self.known_tasks.add': lambda ex_, st_, e, r, a, kw, k, K: (setG(st_, known=to_val(a[0])), k(st_, None))[1], 'logger.*': noop},
                attr_kinds={'self.task_signatures': 'dict', 'self.task_hints': 'dict', 'self.dependency_graphs': 'dict'})
    stp = State(); sa = Int('self_a'); nm = fresh('task_name'); hd = fresh('handler'); stp.env = {pp[0]: PyObj(sa), pp[1]: nm, pp[2]: hd}; stp.ghost = {'known': Val.none}
    tabs = {f: Int('table_' + f) for f in ('task_signatures', 'task_hints', 'dependency_graphs')}
    for f, a_ in tabs.items(): stp.heap.fld[f] = Store(stp.heap.field(f), sa, Val.ref(a_))
    stp.pc.append(Distinct(*tabs.values()))
    def p_ret(s, v):
        h = s.heap
        oblige(s, "_prepare_task/post: task_signatures[name] is inspect.signature of the task's own function  [C08]", And(h.dhas[tabs['task_signatures']][nm], h.dval[tabs['task_signatures']][nm] == sigf(hd)))
        oblige(s, "_prepare_task/post: task_hints[name] is typing.get_type_hints of the task's own function (RESOLVED annotations: string / postponed annotations included)  [C08]",
               And(h.dhas[tabs['task_hints']][nm], h.dval[tabs['task_hints']][nm] == hintsf(hd)))
        oblige(s, "_prepare_task/post: dependency_graphs[name] is the dependency graph of the task's own function  [C12/C06]", And(h.dhas[tabs['dependency_graphs']][nm], h.dval[tabs['dependency_graphs']][nm] == graphf(hd)), props=['C12', 'C06', 'C08'])
        oblige(s, "_prepare_task/post: the task is marked as known  [C08]", s.ghost['known'] == nm)
        reach(s, "_prepare_task/reach@return")
    exp_.run(prep, stp, p_ret, lambda s, x: oblige(s, "_prepare_task/raises: nothing of its own  [C08]", BoolVal(False)))
    # ---------------- the in-memory reference broker / result backend (what `InMemoryBroker` users and the test doubles of applications rely on)
    IREL = 'taskiq/brokers/inmemory_broker.py'; kick = src.func(IREL, 'InMemoryBroker.kick')
    cbs = [n for n in ast.walk(kick) if isinstance(n, ast.Call) and ast.unparse(n.func).endswith('receiver.callback')]
    sk = State()
    oblige(sk, "InMemoryBroker.kick: hands the message to the receiver exactly once, as the worker loop does (callback(message=message.message), raise_err left False: a failing result backend stays contained)  [C07/C01]",
           BoolVal(len(cbs) == 1 and {k.arg: ast.unparse(k.value) for k in cbs[0].keywords if not (k.arg == 'raise_err' and ast.unparse(k.value) == 'False')} == {'message': 'message.message'} and not cbs[0].args), props=['C07', 'C01'])
    reach(sk, "InMemoryBroker.kick/reach")
    setr = src.func(IREL, 'InmemoryResultBackend.set_result'); res_a = Int('results_addr'); sb = Int('backend_addr'); tid = fresh('task_id'); resv = fresh('result')
    def h_popitem(ex_, st_, e, r, a, kw, k, K):          # evicts SOME entry (the oldest): afterwards the dict is an arbitrary sub-dict; it happens before the store
        st_.heap = st_.heap.copy(); st_.heap.dhas = Store(st_.heap.dhas, res_a, Const('has_after_eviction', ArraySort(Val, BoolSort()))); return k(st_, fresh('evicted'))
    exs = Exec({'len': lambda ex_, st_, e, r, a, kw, k, K: k(st_, PyInt(fresh('len', IntSort()))), 'dict.popitem': h_popitem, 'logger.*': noop}, attr_kinds={'self.results': 'dict'})
    ss = State(); ss.env = {'self': PyObj(sb), 'task_id': tid, 'result': resv}; ss.heap.fld['results'] = Store(ss.heap.field('results'), sb, Val.ref(res_a)); ss.pc.append(Distinct(sb, res_a))
    ss.pc.append(Val.is_intv(ss.heap.field('max_stored_results')[sb]))
    def s_ret(s, v):
        oblige(s, "InmemoryResultBackend.set_result/post: afterwards results[task_id] IS this result - a later result for the same task id replaces an earlier one  [C07/C11]",
               And(s.heap.dhas[res_a][tid], s.heap.dval[res_a][tid] == resv), props=['C07', 'C11'])
        reach(s, "InmemoryResultBackend.set_result/reach@return")
    exs.run(setr, ss, s_ret, lambda s, x: oblige(s, "InmemoryResultBackend.set_result/raises: nothing  [C07]", BoolVal(False), props=['C07']))
    return {'receiver_call_keywords': sorted(kws)}
