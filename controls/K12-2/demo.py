"""
Demo / check script for property C12 (negative control, works on the original
code and on the code with the "keep" changes applied).

C12: Every generator-, async-generator- or context-manager-style dependency
opened for an execution is finalised exactly once, in reverse order of opening,
after the task function (or the failing dependency) has finished and before the
result is stored or the message is acknowledged after execution - for success,
exception, timeout and dependency-resolution failure alike.  The task's
exception is thrown into the dependency if and only if exception propagation is
enabled.

What is executed
----------------
Everything goes through ``Receiver.callback`` with an ``AckableMessage`` and a
recording result backend, so that "result stored" and "message acknowledged"
are observable.  Many executions run concurrently on the same receiver; the
events of one execution are attributed to it through a context variable (async
code) or through the task id passed as an argument (sync code in threads).

* graphs: all 84 cached chains task -> d1 [-> d2 [-> d3]] over the four
  teardown styles (generator, async generator, @contextmanager,
  @asynccontextmanager), diamonds/trees, graphs with ``use_cache=False`` edges
  (sub-contexts), dependency-free tasks, a Context-only task, a broker with
  ``dependency_overrides``, tasks registered after the receiver was created;
* outcomes: success, exception, BaseException, NoResultError, timeout,
  dependency-resolution failure at every level, invalid ``timeout`` labels;
* both ``propagate_exceptions`` settings; ack types when_received /
  when_executed / when_saved; async and sync (thread pool) task functions.

What is checked per execution
-----------------------------
* every opened dependency is finalised exactly once, nothing else is finalised;
* (graphs of cached dependencies) finalisation order == reverse opening order;
* no finalisation before the task function has finished / the failing
  dependency has failed; all finalisations before the result is stored and
  before the acknowledgement that follows the execution;
* the exception object is thrown into every opened dependency iff the outcome
  is a failure and propagation is enabled, and it is the very error object
  that ends up in the stored result;
* the result is stored exactly once (never for NoResultError), the message is
  acknowledged exactly once, ``is_err`` / error type match the outcome.

Exit code 0 iff no problem was found.
"""
import asyncio
import contextlib
import inspect
import itertools
import logging
import sys
import time
import warnings
from collections import Counter, defaultdict
from concurrent.futures import ThreadPoolExecutor
from contextvars import ContextVar
from typing import Any, Callable, Dict, List, Optional, Sequence, Tuple

from taskiq import AckableMessage, Context, InMemoryBroker, TaskiqDepends
from taskiq.abc.result_backend import AsyncResultBackend
from taskiq.acks import AcknowledgeType
from taskiq.exceptions import NoResultError
from taskiq.message import TaskiqMessage
from taskiq.receiver import Receiver
from taskiq.result import TaskiqResult

STYLES = ("gen", "agen", "cm", "acm")
CUR: "ContextVar[str]" = ContextVar("cur_execution")
FAIL: "ContextVar[Optional[str]]" = ContextVar("failing_dependency", default=None)
LOG: Dict[str, List[Tuple[Any, ...]]] = defaultdict(list)
PROBLEMS: List[str] = []
STATS: Counter = Counter()  # type: ignore[type-arg]


def ev(kind: str, *rest: Any, cid: Optional[str] = None) -> None:
    LOG[cid if cid is not None else CUR.get()].append((kind, *rest))


class Boom(Exception):
    """Ordinary task failure."""


class BaseBoom(BaseException):
    """Task failure that is not an Exception."""


class DepBoom(Exception):
    """Failure of a dependency while it is being opened."""


# --------------------------------------------------------------------------
# dependency / task factories
# --------------------------------------------------------------------------
Sub = Tuple[str, Any, bool]  # (parameter name, dependency function, use_cache)


def _signature(positional: Sequence[str], subs: Sequence[Sub]) -> inspect.Signature:
    params = [
        inspect.Parameter(name, inspect.Parameter.POSITIONAL_OR_KEYWORD)
        for name in positional
    ]
    params += [
        inspect.Parameter(
            pname,
            inspect.Parameter.KEYWORD_ONLY,
            default=TaskiqDepends(func, use_cache=use_cache),
        )
        for pname, func, use_cache in subs
    ]
    return inspect.Signature(params)


def make_dep(style: str, name: str, subs: Sequence[Sub] = ()) -> Any:
    """Dependency `name` with the given teardown style and sub-dependencies."""

    def before_open() -> None:
        if FAIL.get() == name:
            ev("fail", name)
            raise DepBoom(name)
        ev("open", name)

    if style in ("gen", "cm"):

        def dep(**_: Any) -> Any:
            before_open()
            thrown: Optional[BaseException] = None
            try:
                yield name
            except BaseException as exc:
                thrown = exc
                raise
            finally:
                ev("close", name, thrown)

    else:

        async def dep(**_: Any) -> Any:  # type: ignore[misc]
            before_open()
            thrown: Optional[BaseException] = None
            try:
                yield name
            except BaseException as exc:
                thrown = exc
                raise
            finally:
                # Give other executions a chance to run in the middle
                # of the teardown.
                await asyncio.sleep(0.001)
                ev("close", name, thrown)

    dep.__name__ = dep.__qualname__ = name
    dep.__signature__ = _signature((), subs)  # type: ignore[attr-defined]
    if style == "cm":
        return contextlib.contextmanager(dep)
    if style == "acm":
        return contextlib.asynccontextmanager(dep)
    return dep


def make_plain(name: str, subs: Sequence[Sub]) -> Any:
    """Dependency without teardown (plain function)."""

    def dep(**_: Any) -> str:
        return name

    dep.__name__ = dep.__qualname__ = name
    dep.__signature__ = _signature((), subs)  # type: ignore[attr-defined]
    return dep


def make_async_task(subs: Sequence[Sub]) -> Any:
    async def task(cid: str, mode: str, delay: float, **_: Any) -> str:
        ev("task_start", cid=cid)
        try:
            await asyncio.sleep(delay)
            if mode == "raise":
                raise Boom(cid)
            if mode == "raise_base":
                raise BaseBoom(cid)
            if mode == "noresult":
                raise NoResultError
            if mode == "timeout":
                await asyncio.sleep(30)
            return "ret:" + cid
        finally:
            ev("task_end", cid=cid)

    task.__signature__ = _signature(("cid", "mode", "delay"), subs)  # type: ignore[attr-defined]
    return task


def make_sync_task(subs: Sequence[Sub]) -> Any:
    def task(cid: str, mode: str, delay: float, **_: Any) -> str:
        ev("task_start", cid=cid)
        try:
            time.sleep(delay)
            if mode == "raise":
                raise Boom(cid)
            if mode == "noresult":
                raise NoResultError
            return "ret:" + cid
        finally:
            ev("task_end", cid=cid)

    task.__signature__ = _signature(("cid", "mode", "delay"), subs)  # type: ignore[attr-defined]
    return task


class RecordingBackend(AsyncResultBackend[Any]):
    """Result backend that records when a result becomes visible."""

    async def set_result(self, task_id: str, result: TaskiqResult[Any]) -> None:
        await asyncio.sleep(0)
        ev("stored", result, cid=task_id)

    async def is_result_ready(self, task_id: str) -> bool:
        return any(e[0] == "stored" for e in LOG[task_id])

    async def get_result(self, task_id: str, with_logs: bool = False) -> Any:
        return next(e[1] for e in LOG[task_id] if e[0] == "stored")


# --------------------------------------------------------------------------
# running and checking
# --------------------------------------------------------------------------
class Case:
    def __init__(
        self,
        cid: str,
        task_name: str,
        mode: str,
        propagate: bool,
        ack: AcknowledgeType,
        *,
        expect_open: Optional[List[str]] = None,
        expect_names: Optional[List[str]] = None,
        strict_order: bool = True,
        fail: Optional[str] = None,
        labels: Optional[Dict[str, Any]] = None,
        task_must_run: Optional[bool] = None,
        check_task_order: bool = True,
        failing: Optional[bool] = None,
        err_type: Optional[type] = None,
        delay: float = 0.0,
    ) -> None:
        self.cid = cid
        self.task_name = task_name
        self.mode = mode
        self.propagate = propagate
        self.ack = ack
        self.expect_open = expect_open  # exact opening order, if known
        self.expect_names = expect_names  # set of opened names, if order unknown
        self.strict_order = strict_order
        self.fail = fail
        self.labels = dict(labels or {})
        if mode == "timeout":
            self.labels["timeout"] = 0.03
        self.task_must_run = task_must_run
        self.check_task_order = check_task_order
        self.delay = delay
        default_failing = mode != "ok"
        self.failing = default_failing if failing is None else failing
        self.err_type = err_type or {
            "raise": Boom,
            "raise_base": BaseBoom,
            "noresult": NoResultError,
            "timeout": asyncio.TimeoutError,
            "depfail": DepBoom,
        }.get(mode)
        if task_must_run is None:
            self.task_must_run = mode != "depfail"


class Harness:
    def __init__(self, broker: InMemoryBroker, executor: ThreadPoolExecutor) -> None:
        self.broker = broker
        self.executor = executor
        self.receivers: Dict[Tuple[bool, AcknowledgeType], Receiver] = {}

    def receiver(self, propagate: bool, ack: AcknowledgeType) -> Receiver:
        key = (propagate, ack)
        if key not in self.receivers:
            self.receivers[key] = Receiver(
                self.broker,
                executor=self.executor,
                propagate_exceptions=propagate,
                ack_type=ack,
                max_async_tasks=1000,
                run_startup=False,
            )
        return self.receivers[key]

    async def run_one(self, case: Case) -> None:
        CUR.set(case.cid)
        FAIL.set(case.fail)
        msg = TaskiqMessage(
            task_id=case.cid,
            task_name=case.task_name,
            labels=case.labels,
            args=[case.cid, case.mode, case.delay],
            kwargs={},
        )
        data = self.broker.formatter.dumps(msg).message
        cid = case.cid
        if int(cid[1:]) % 2:

            def ack() -> Any:
                ev("ack", cid=cid)

        else:

            async def ack() -> Any:  # type: ignore[misc]
                await asyncio.sleep(0)
                ev("ack", cid=cid)

        try:
            await self.receiver(case.propagate, case.ack).callback(
                AckableMessage(data=data, ack=ack),
            )
        except BaseException as exc:  # the callback must not fail
            PROBLEMS.append(f"{cid}: callback raised {exc!r}")

    async def run_batch(self, cases: Sequence[Case], width: int = 64) -> None:
        for start in range(0, len(cases), width):
            chunk = cases[start : start + width]
            await asyncio.gather(
                *(asyncio.create_task(self.run_one(case)) for case in chunk),
            )
        for case in cases:
            check(case)


def check(case: Case) -> None:  # noqa: C901, PLR0912
    cid = case.cid
    log = LOG[cid]
    STATS["executions"] += 1
    STATS[f"mode:{case.mode}"] += 1

    def bad(text: str) -> None:
        PROBLEMS.append(
            f"{cid} [{case.task_name} mode={case.mode} propagate={case.propagate} "
            f"ack={case.ack.value} fail={case.fail}]: {text}\n      events: "
            + ", ".join(str(e[:2]) for e in log),
        )

    def idx(kind: str) -> List[int]:
        return [i for i, e in enumerate(log) if e[0] == kind]

    opens = [e[1] for e in log if e[0] == "open"]
    closes = [e[1] for e in log if e[0] == "close"]
    close_idx = idx("close")
    STATS["dependencies finalised"] += len(closes)

    # -- exactly once ----------------------------------------------------
    if case.expect_open is not None and opens != case.expect_open:
        bad(f"opened {opens}, expected {case.expect_open}")
    if case.expect_names is not None and sorted(opens) != sorted(case.expect_names):
        bad(f"opened {sorted(opens)}, expected {sorted(case.expect_names)}")
    if Counter(opens) != Counter(closes) or any(n != 1 for n in Counter(closes).values()):
        bad(f"opened {opens} but finalised {closes} (must be exactly once each)")
    # -- reverse order ---------------------------------------------------
    if case.strict_order and closes != list(reversed(opens)):
        bad(f"finalisation order {closes} is not the reverse of opening order {opens}")
    # -- after the task / the failing dependency -------------------------
    starts, ends, fails = idx("task_start"), idx("task_end"), idx("fail")
    if case.task_must_run is True and (len(starts) != 1 or len(ends) != 1):
        bad("the task function did not run exactly once")
    if case.task_must_run is False and starts:
        bad("the task function was started")
    if case.mode == "depfail" and len(fails) != 1:
        bad("the dependency failure did not happen exactly once")
    if case.check_task_order:
        if len(starts) != len(ends):
            bad("the task function has not finished")
        barrier = max(starts + ends + fails + idx("open") + [-1])
        if close_idx and min(close_idx) < barrier:
            bad("a dependency was finalised before the task function / the failing dependency finished")
    # -- before the result is visible / the message is acked -------------
    stored, acks = idx("stored"), idx("ack")
    if len(acks) != 1:
        bad(f"message acknowledged {len(acks)} times")
    expect_stored = 0 if case.mode == "noresult" else 1
    if len(stored) != expect_stored:
        bad(f"result stored {len(stored)} times, expected {expect_stored}")
    last_close = max(close_idx) if close_idx else -1
    if stored and last_close > stored[0]:
        bad("result stored before all dependencies were finalised")
    if case.ack != AcknowledgeType.WHEN_RECEIVED and acks and last_close > acks[0]:
        bad("message acknowledged before all dependencies were finalised")
    if case.ack == AcknowledgeType.WHEN_SAVED and stored and acks and acks[0] < stored[0]:
        bad("when_saved acknowledgement came before the result was stored")
    # -- the result --------------------------------------------------------
    result: Optional[TaskiqResult[Any]] = log[stored[0]][1] if stored else None
    if result is not None:
        if result.is_err != case.failing:
            bad(f"is_err={result.is_err}, expected {case.failing} (error={result.error!r})")
        if case.failing and case.err_type and not isinstance(result.error, case.err_type):
            bad(f"error {result.error!r} is not a {case.err_type}")
        if not case.failing and result.return_value != "ret:" + cid:
            bad(f"return value {result.return_value!r}")
    # -- exception propagation ---------------------------------------------
    for event in log:
        if event[0] != "close":
            continue
        thrown = event[2]
        if case.failing and case.propagate:
            if thrown is None:
                bad(f"propagation enabled, but no exception thrown into {event[1]!r}")
            elif result is not None and thrown is not result.error:
                bad(f"{thrown!r} thrown into {event[1]!r} is not the task's error {result.error!r}")
            elif case.err_type and not isinstance(thrown, case.err_type):
                bad(f"{thrown!r} thrown into {event[1]!r}, expected {case.err_type}")
        elif thrown is not None:
            bad(f"{thrown!r} thrown into {event[1]!r} (failing={case.failing}, propagate={case.propagate})")


# --------------------------------------------------------------------------
# scenarios
# --------------------------------------------------------------------------
ACKS = (
    AcknowledgeType.WHEN_SAVED,
    AcknowledgeType.WHEN_EXECUTED,
    AcknowledgeType.WHEN_RECEIVED,
)
_counter = itertools.count()


def _next() -> Tuple[str, AcknowledgeType, float]:
    number = next(_counter)
    return f"x{number:05d}", ACKS[number % 3], (number % 5) * 0.001


def chain_cases(broker: InMemoryBroker) -> List[Case]:
    """All cached chains of depth 1..3 over the four styles, all outcomes."""
    cases: List[Case] = []
    for depth in (1, 2, 3):
        for styles in itertools.product(STYLES, repeat=depth):
            tag = "_".join(styles)
            names = [f"{tag}.d{level + 1}.{style}" for level, style in enumerate(styles)]
            func: Any = None
            for level in reversed(range(depth)):
                subs = [("sub", func, True)] if func is not None else []
                func = make_dep(styles[level], names[level], subs)
            task_name = f"chain:{tag}"
            broker.register_task(make_async_task([("dep", func, True)]), task_name=task_name)
            open_order = list(reversed(names))  # the leaf is opened first
            for propagate in (True, False):
                for mode in ("ok", "raise", "raise_base", "noresult", "timeout"):
                    cid, ack, delay = _next()
                    cases.append(
                        Case(cid, task_name, mode, propagate, ack, expect_open=open_order, delay=delay),
                    )
                for failing_level in range(depth):
                    cid, ack, delay = _next()
                    cases.append(
                        Case(
                            cid,
                            task_name,
                            "depfail",
                            propagate,
                            ack,
                            fail=names[failing_level],
                            # everything below the failing dependency is open
                            expect_open=list(reversed(names[failing_level + 1 :])),
                            delay=delay,
                        ),
                    )
    return cases


def tree_cases(broker: InMemoryBroker, sync: bool = False) -> List[Case]:
    """Diamonds: task -> (a -> c, b -> c), c shared (cached)."""
    cases: List[Case] = []
    for shift in range(4):
        st = [STYLES[(shift + i) % 4] for i in range(3)]
        tag = f"{'sync' if sync else 'async'}tree{shift}"
        c_dep = make_dep(st[2], f"{tag}.c.{st[2]}")
        a_dep = make_dep(st[0], f"{tag}.a.{st[0]}", [("c", c_dep, True)])
        b_dep = make_dep(st[1], f"{tag}.b.{st[1]}", [("c", c_dep, True)])
        maker = make_sync_task if sync else make_async_task
        task_name = f"tree:{tag}"
        broker.register_task(
            maker([("a", a_dep, True), ("b", b_dep, True)]),
            task_name=task_name,
        )
        all_names = [f"{tag}.a.{st[0]}", f"{tag}.b.{st[1]}", f"{tag}.c.{st[2]}"]
        modes = ("ok", "raise", "noresult") if sync else ("ok", "raise", "raise_base", "timeout", "noresult")
        for propagate in (True, False):
            for mode in modes:
                for _ in range(2):
                    cid, ack, delay = _next()
                    cases.append(
                        Case(cid, task_name, mode, propagate, ack, expect_names=all_names, delay=delay),
                    )
            # the shared leaf fails: nothing was opened
            cid, ack, delay = _next()
            cases.append(
                Case(cid, task_name, "depfail", propagate, ack, fail=all_names[2], expect_open=[], delay=delay),
            )
    return cases


def uncached_cases(broker: InMemoryBroker) -> List[Case]:
    """
    Graphs with use_cache=False edges (resolved by sub-contexts).

    task -(no cache)-> x -> y -(no cache)-> z, plus a plain function
    in the middle: task -> p(plain, no cache) -> q.
    The teardown order between a context and its sub-contexts is a property
    of the resolver library, so only "exactly once" / before / after /
    propagation are checked here.
    """
    cases: List[Case] = []
    for shift in range(4):
        st = [STYLES[(shift + i) % 4] for i in range(4)]
        tag = f"nocache{shift}"
        names = [f"{tag}.{n}.{s}" for n, s in zip("xyzq", st)]
        z_dep = make_dep(st[2], names[2])
        y_dep = make_dep(st[1], names[1], [("z", z_dep, False)])
        x_dep = make_dep(st[0], names[0], [("y", y_dep, True)])
        q_dep = make_dep(st[3], names[3])
        p_dep = make_plain(f"{tag}.p", [("q", q_dep, True)])
        task_name = f"nocache:{tag}"
        broker.register_task(
            make_async_task([("x", x_dep, False), ("p", p_dep, False)]),
            task_name=task_name,
        )
        for propagate in (True, False):
            for mode in ("ok", "raise", "raise_base", "timeout", "noresult"):
                for _ in range(2):
                    cid, ack, delay = _next()
                    cases.append(
                        Case(cid, task_name, mode, propagate, ack, expect_names=names, strict_order=False, delay=delay),
                    )
            cid, ack, delay = _next()
            cases.append(
                Case(cid, task_name, "depfail", propagate, ack, fail=names[0], strict_order=False, delay=delay),
            )
    return cases


def sync_chain_cases(broker: InMemoryBroker) -> List[Case]:
    cases: List[Case] = []
    for shift in range(4):
        st = [STYLES[(shift + i) % 4] for i in range(3)]
        tag = f"syncchain{shift}"
        names = [f"{tag}.d{i + 1}.{s}" for i, s in enumerate(st)]
        d3 = make_dep(st[2], names[2])
        d2 = make_dep(st[1], names[1], [("sub", d3, True)])
        d1 = make_dep(st[0], names[0], [("sub", d2, True)])
        task_name = f"sync:{tag}"
        broker.register_task(make_sync_task([("dep", d1, True)]), task_name=task_name)
        for propagate in (True, False):
            for mode in ("ok", "raise", "noresult"):
                for _ in range(3):
                    cid, ack, delay = _next()
                    cases.append(
                        Case(cid, task_name, mode, propagate, ack, expect_open=list(reversed(names)), delay=delay),
                    )
            cid, ack, delay = _next()
            cases.append(
                Case(cid, task_name, "depfail", propagate, ack, fail=names[1], expect_open=[names[2]], delay=delay),
            )
    return cases


def no_dependency_cases(broker: InMemoryBroker) -> List[Case]:
    """Tasks without dependencies and a task that only wants the Context."""
    cases: List[Case] = []
    broker.register_task(make_async_task([]), task_name="nodeps:async")
    broker.register_task(make_sync_task([]), task_name="nodeps:sync")

    async def ctx_task(cid: str, mode: str, delay: float, ctx: Context = TaskiqDepends()) -> str:
        ev("task_start", cid=cid)
        try:
            await asyncio.sleep(delay)
            if ctx.message.task_id != cid:
                raise RuntimeError("foreign context injected")
            if mode == "raise":
                raise Boom(cid)
            if mode == "timeout":
                await asyncio.sleep(30)
            return "ret:" + cid
        finally:
            ev("task_end", cid=cid)

    broker.register_task(ctx_task, task_name="nodeps:context")
    for propagate in (True, False):
        for task_name, modes in (
            ("nodeps:async", ("ok", "raise", "raise_base", "timeout", "noresult")),
            ("nodeps:sync", ("ok", "raise", "noresult")),
            ("nodeps:context", ("ok", "raise", "timeout")),
        ):
            for mode in modes:
                for _ in range(3):
                    cid, ack, delay = _next()
                    cases.append(Case(cid, task_name, mode, propagate, ack, expect_open=[], delay=delay))
    return cases


def timeout_label_cases(broker: InMemoryBroker) -> List[Case]:
    """Spellings of the timeout label: valid ones and malformed ones."""
    cases: List[Case] = []
    d2 = make_dep("agen", "tl.d2.agen")
    d1 = make_dep("cm", "tl.d1.cm", [("sub", d2, True)])
    e2 = make_dep("acm", "tls.d2.acm")
    e1 = make_dep("gen", "tls.d1.gen", [("sub", e2, True)])
    broker.register_task(make_async_task([("dep", d1, True)]), task_name="tl:async")
    broker.register_task(make_sync_task([("dep", e1, True)]), task_name="tl:sync")
    async_open = ["tl.d2.agen", "tl.d1.cm"]
    sync_open = ["tls.d2.acm", "tls.d1.gen"]
    for propagate in (True, False):
        # valid labels that do not fire
        for label in (5, 5.5, "5", "2.5", " 7 ", True):
            cid, ack, delay = _next()
            cases.append(
                Case(cid, "tl:async", "ok", propagate, ack, expect_open=async_open, labels={"timeout": label}, delay=delay),
            )
        cid, ack, delay = _next()
        cases.append(
            Case(cid, "tl:sync", "ok", propagate, ack, expect_open=sync_open, labels={"timeout": "5"}, delay=delay),
        )
        # valid labels that fire (the task sleeps 0.05 s)
        for label in ("0.01", 0.01, 0, -1, "0"):
            cid, ack, _ = _next()
            cases.append(
                Case(
                    cid,
                    "tl:async",
                    "ok",
                    propagate,
                    ack,
                    expect_open=async_open,
                    labels={"timeout": label},
                    delay=0.05,
                    failing=True,
                    err_type=asyncio.TimeoutError,
                    task_must_run=None,
                ),
            )
            cases[-1].task_must_run = None  # with timeout <= 0 the task may never start
        # malformed labels: the execution fails, the dependencies that were
        # opened are finalised (with the error, iff propagation is on)
        for label in ("abc", "", "1,5", [1], {"seconds": 1}):
            cid, ack, delay = _next()
            cases.append(
                Case(
                    cid,
                    "tl:async",
                    "ok",
                    propagate,
                    ack,
                    expect_open=async_open,
                    labels={"timeout": label},
                    delay=delay,
                    failing=True,
                    err_type=(ValueError, TypeError),  # type: ignore[arg-type]
                    task_must_run=False,
                ),
            )
            cid, ack, delay = _next()
            case = Case(
                cid,
                "tl:sync",
                "ok",
                propagate,
                ack,
                expect_open=sync_open,
                labels={"timeout": label},
                delay=delay,
                failing=True,
                err_type=(ValueError, TypeError),  # type: ignore[arg-type]
                # The original code has already submitted the sync function to
                # the executor when it notices the malformed label, so whether
                # (and when) the function runs is not checked here.
                check_task_order=False,
            )
            case.task_must_run = None
            cases.append(case)
    return cases


def late_cases(broker: InMemoryBroker) -> List[Case]:
    """
    Tasks registered after the receivers were created.

    The receivers learn about them lazily, on the first execution
    (and concurrently: the first executions of one task run in parallel).
    """
    cases: List[Case] = []
    d3 = make_dep("cm", "late.d3.cm")
    d2 = make_dep("agen", "late.d2.agen", [("sub", d3, True)])
    d1 = make_dep("gen", "late.d1.gen", [("sub", d2, True)])
    broker.register_task(make_async_task([("dep", d1, True)]), task_name="late:deps")
    broker.register_task(make_async_task([]), task_name="late:nodeps")
    broker.register_task(make_sync_task([]), task_name="late:nodeps_sync")
    order = ["late.d3.cm", "late.d2.agen", "late.d1.gen"]
    for propagate in (True, False):
        for mode in ("ok", "raise", "timeout", "noresult"):
            for _ in range(2):
                cid, ack, delay = _next()
                cases.append(Case(cid, "late:deps", mode, propagate, ack, expect_open=order, delay=delay))
                cid, ack, delay = _next()
                cases.append(Case(cid, "late:nodeps", mode, propagate, ack, expect_open=[], delay=delay))
                if mode != "timeout":
                    cid, ack, delay = _next()
                    cases.append(Case(cid, "late:nodeps_sync", mode, propagate, ack, expect_open=[], delay=delay))
        cid, ack, delay = _next()
        cases.append(
            Case(cid, "late:deps", "depfail", propagate, ack, fail="late.d1.gen", expect_open=order[:2], delay=delay),
        )
    return cases


def override_cases() -> Tuple[InMemoryBroker, List[Case]]:
    """A broker with dependency_overrides: the replacement is what is opened."""
    broker = InMemoryBroker().with_result_backend(RecordingBackend())
    original = make_dep("gen", "ov.original.gen")
    replacement = make_dep("acm", "ov.replacement.acm")
    top = make_dep("agen", "ov.top.agen", [("sub", original, True)])
    broker.dependency_overrides = {original: replacement}
    broker.register_task(make_async_task([("dep", top, True)]), task_name="ov:deps")
    broker.register_task(make_async_task([]), task_name="ov:nodeps")
    cases: List[Case] = []
    for propagate in (True, False):
        for mode in ("ok", "raise", "timeout", "noresult"):
            for _ in range(2):
                cid, ack, delay = _next()
                cases.append(
                    Case(cid, "ov:deps", mode, propagate, ack, expect_open=["ov.replacement.acm", "ov.top.agen"], delay=delay),
                )
                cid, ack, delay = _next()
                cases.append(Case(cid, "ov:nodeps", mode, propagate, ack, expect_open=[], delay=delay))
        cid, ack, delay = _next()
        cases.append(
            Case(cid, "ov:deps", "depfail", propagate, ack, fail="ov.top.agen", expect_open=["ov.replacement.acm"], delay=delay),
        )
    return broker, cases


async def main() -> int:
    logging.disable(logging.CRITICAL)  # the failures are intended
    warnings.simplefilter("ignore")
    started = time.monotonic()
    executor = ThreadPoolExecutor(max_workers=16)

    broker = InMemoryBroker().with_result_backend(RecordingBackend())
    cases: List[Case] = []
    cases += chain_cases(broker)
    cases += tree_cases(broker)
    cases += tree_cases(broker, sync=True)
    cases += uncached_cases(broker)
    cases += sync_chain_cases(broker)
    cases += no_dependency_cases(broker)
    cases += timeout_label_cases(broker)
    # Interleave the scenario families, so that different kinds of
    # executions run concurrently (deterministic shuffle).
    cases.sort(key=lambda case: (int(case.cid[1:]) * 7919) % 10007)
    harness = Harness(broker, executor)
    await harness.run_batch(cases)
    # New tasks appear while the receivers are already in use.
    await harness.run_batch(late_cases(broker))

    ov_broker, ov_cases = override_cases()
    await Harness(ov_broker, executor).run_batch(ov_cases)

    executor.shutdown(wait=True)
    elapsed = time.monotonic() - started
    print(
        f"{STATS['executions']} executions, {STATS['dependencies finalised']} "
        f"dependency finalisations checked in {elapsed:.1f}s",
    )
    print("  by outcome:", {k[5:]: v for k, v in sorted(STATS.items()) if k.startswith("mode:")})
    if PROBLEMS:
        print(f"C12 VIOLATED: {len(PROBLEMS)} problem(s)")
        for problem in PROBLEMS[:25]:
            print("  -", problem)
        return 1
    print("C12 ok")
    return 0


if __name__ == "__main__":
    sys.exit(asyncio.run(main()))
