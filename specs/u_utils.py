"""Unit `utils`: taskiq/utils.py::maybe_awaitable — used by C02, C10, C16 (the units u_callback / u_run_task / u_kiq inline it as "await the value
iff it is awaitable": that inlining is justified here on the real body).

Contract: for an awaitable argument the function awaits it exactly once and returns its result (its exception propagates); any other value is
returned unchanged and nothing is awaited."""
import ast
from z3 import *
from pyvc.core import *

PROPS = ['C01', 'C02', 'C03', 'C05', 'C06', 'C07', 'C10', 'C12', 'C15', 'C16']          # every property whose units inline maybe_awaitable as 'await the value iff it is awaitable'
REL = 'taskiq/utils.py'
TRUSTED = ["inspect.isawaitable(x) is the Python predicate 'x can be awaited' (coroutines, futures, objects with __await__); inspect.iscoroutine(x) / asyncio.iscoroutine(x) hold for native coroutine objects only (a strict subset)"]


def generate(src):
    fd = src.func(REL, 'maybe_awaitable')
    is_aw = Bool('argument_is_awaitable'); res = fresh('awaited_result'); arg = fresh('plain_value')
    def eff(s, k2, K2):
        setG(s, awaits=s.ghost['awaits'] + 1)
        ok = s.fork(); k2(ok, res)
        f = s.fork(); setG(f, inner_raised=BoolVal(True)); K2['exc'](f, raise_any(f, 'BaseException'))
    is_coro = Bool('argument_is_a_native_coroutine_object')          # a Future, a Task, an object with __await__ are awaitable but no coroutine objects
    h_coro = lambda ex_, st_, e, r, a, kw, k, K: k(st_, PyBool(And(is_aw, is_coro)))
    ex = Exec({'inspect.isawaitable': lambda ex_, st_, e, r, a, kw, k, K: k(st_, PyBool(is_aw)), 'inspect.iscoroutine': h_coro, 'asyncio.iscoroutine': h_coro, 'iscoroutine': h_coro})
    st = State(); st.ghost = dict(awaits=IntVal(0), inner_raised=BoolVal(False))
    n = [0]
    def run_case(aw):
        s = st.fork(); s.pc.append(is_aw == BoolVal(aw)); s.env = {'possible_coroutine': Tok(eff) if aw else arg}
        def ret(s2, v):
            n[0] += 1
            if isinstance(v, Tok):
                oblige(s2, "maybe_awaitable/post: an awaitable is awaited exactly once and its result returned  [C01/C02/C03/C05/C06/C07/C10/C12/C15/C16]", BoolVal(False)); return
            if aw: oblige(s2, "maybe_awaitable/post: an awaitable is awaited exactly once and its result returned  [C01/C02/C03/C05/C06/C07/C10/C12/C15/C16]", And(s2.ghost['awaits'] == 1, to_val(v) == res))
            else: oblige(s2, "maybe_awaitable/post: a plain value is returned unchanged, nothing is awaited  [C01/C02/C03/C05/C06/C07/C10/C12/C15/C16]", And(s2.ghost['awaits'] == 0, to_val(v) == arg))
            reach(s2, f"maybe_awaitable/reach@return#{n[0]}")
        def exc(s2, x): oblige(s2, "maybe_awaitable/raises: only what the awaited value raises  [C01/C02/C03/C05/C06/C07/C10/C12/C15/C16]", And(BoolVal(aw), s2.ghost['inner_raised'], s2.ghost['awaits'] == 1))
        ex.run(fd, s, ret, exc)
    run_case(True); run_case(False)
    return {}
