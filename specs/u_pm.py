"""Unit `pm`: taskiq/cli/worker/process_manager.py — ProcessManager.start / prepare_workers / __init__, ReloadOneAction.handle,
ReloadAllAction.handle, get_signal_handler.<locals>._signal_handler, _wait_for_worker_startup — C17, C18.

multiprocessing / os are a trusted model over ghost maps (alive, reaped, started, joined, slot_of); the action queue is a FIFO view
(hist, head, tail); signal handlers may append Shutdown/ReloadAll actions at any statement boundary (all invariants are stable under
appends).  Obligations (DESIGN A.7): one arbitrary iteration of the drain loop from the drain invariant (with the real bodies of both
handle() methods inlined), one full iteration of the outer loop (sleep -> drain loop cut -> end-of-tick scan) for the two-ticks clause,
the loops of ReloadAll.handle / shutdown / scan / prepare_workers with their invariants."""
import ast, itertools
from z3 import *
from pyvc.core import *

PROPS = ['C17', 'C18']
REPLAY = {'driver': 'pm'}
REL = 'taskiq/cli/worker/process_manager.py'
TRUSTED = [
    "multiprocessing.Queue is FIFO and empty() is exact in the manager process; signal handlers run between statements of the main thread and only put one action",
    "Process.start() makes the process alive and may reap other finished children (_cleanup); is_alive() reaps a finished child; join() without timeout returns only after the child ended and reaps it",
    "terminate() may raise ValueError on a closed process; a started process has a truthy pid",
    "os.kill(pid, sig) requires pid to belong to an un-reaped child of the manager, otherwise it raises ProcessLookupError or hits an unrelated process",
    "during sleep(1) any worker may die and signals may arrive; workers never come back to life by themselves",
    "isinstance on action objects follows the class hierarchy ProcessActionBase <- ReloadAllAction | ReloadOneAction | ShutdownAction",
]


def generate(src):
    PM = {n: src.func(REL, 'ProcessManager.' + n) for n in ('start', 'prepare_workers', '__init__')}
    R1 = {'handle': src.func(REL, 'ReloadOneAction.handle')}; RA = {'handle': src.func(REL, 'ReloadAllAction.handle')}
    SIGH = src.func(REL, 'get_signal_handler', nested='_signal_handler'); WAIT = src.func(REL, '_wait_for_worker_startup')
    for n in ('ProcessActionBase', 'ReloadAllAction', 'ReloadOneAction', 'ShutdownAction'): CLS.add(n, 'object' if n == 'ProcessActionBase' else 'ProcessActionBase')
    # ---------- abstract state (ghost + views); kept in st.ghost as z3 exprs
    # queue: hist: Int -> ref (action object), head, tail.   workers list: real heap list.  process ghost maps over addresses.
    p, q, j = Ints('p q j')
    def init_state(tag):
        st = State(); h = st.heap
        st.ghost = dict(hist=Const('hist' + tag, I2I), head=Int('head' + tag), tail=Int('tail' + tag),
                        alive=Const('alive' + tag, I2B), reaped=Const('reaped' + tag, I2B), started=Const('started' + tag, I2B), joined=Const('joined' + tag, I2B),
                        slot_of=Const('slot' + tag, I2I), replaced=Const('replaced' + tag, I2B), killed=Const('killed' + tag, I2I), kills_other=BoolVal(False),
                        deq_fail=Int('deqfail' + tag), nstarts=Int('nstarts' + tag), h0=Int('h0' + tag), t0=Int('t0' + tag))
        return st
    self_a, args_a, wl_a = Ints('self_addr wargs_addr workers_addr')
    NW = Int('NW'); MAXF = Int('max_fails')
    def base_heap(st):
        h = st.heap
        h.fld['workers'] = Store(h.field('workers'), self_a, Val.ref(wl_a)); h.fld['args'] = Store(h.field('args'), self_a, Val.ref(args_a))
        h.fld['max_fails'] = Store(h.field('max_fails'), args_a, Val.intv(MAXF)); h.fld['action_queue'] = Store(h.field('action_queue'), self_a, Val.ref(Int('queue_addr')))
        h.field('worker_num'); h.field('is_reload_all'); h.field('pid'); h.field('name'); h.field('worker_function')
    def action_kind(st, a): return st.heap.cls_of[a]
    RONE, RALL, SHUT = CLS.id('ReloadOneAction'), CLS.id('ReloadAllAction'), CLS.id('ShutdownAction')
    def W(st, i): return Val.a(st.heap.litem[wl_a][i])      # address of workers[i]
    def Inv_outer(st):
        g = st.ghost; h = st.heap
        return dict(
            nslots=h.llen[wl_a] == NW,
            workers_field=h.field('workers')[self_a] == Val.ref(wl_a),
            queue=And(g['head'] >= 0, g['head'] <= g['tail']),
            one_live=ForAll([p], Implies(And(g['started'][p], Not(g['joined'][p])), And(0 <= g['slot_of'][p], g['slot_of'][p] < NW, W(st, g['slot_of'][p]) == p))),
            slots_started=ForAll([j], Implies(And(0 <= j, j < NW), And(g['started'][W(st, j)], g['slot_of'][W(st, j)] == j, Val.is_ref(h.litem[wl_a][j])))),
            budget=Implies(MAXF >= 1, And(st.env_restarts() == g['deq_fail'], g['deq_fail'] < MAXF)),
            reaped_dead=ForAll([p], Implies(g['reaped'][p], Not(g['alive'][p]))),
            pids=ForAll([j], Implies(And(0 <= j, j < NW), truthy(h.field('pid')[W(st, j)]))),
        )
    # role binding: the failure counter is the local compared with self.args.max_fails
    cmp_ = [n_ for n_ in ast.walk(PM['start']) if isinstance(n_, ast.Compare) and isinstance(n_.left, ast.Name) and len(n_.comparators) == 1 and ast.unparse(n_.comparators[0]) == 'self.args.max_fails']
    if len({n_.left.id for n_ in cmp_}) != 1: raise Unsupported("ProcessManager.start: expected one local compared with self.args.max_fails (the failure counter)")
    RESTARTS = cmp_[0].left.id
    # the counter's current value is mirrored in the ghost state (so that invariants can be evaluated inside inlined helpers, whose environment holds only their parameters)
    def _as_int(v): return v.e if isinstance(v, PyInt) else (IntVal(v) if isinstance(v, int) else Val.i(to_val(v)))
    State.env_restarts = lambda s: _as_int(s.env[RESTARTS]) if RESTARTS in s.env else s.ghost['restarts_mirror']
    def Inv_drain(st):
        g = st.ghost; d = Inv_outer(st)
        d['drain_bounds'] = And(g['h0'] <= g['head'], g['h0'] <= g['t0'], g['t0'] <= g['tail'])
        d['handled'] = ForAll([p], Implies(And(g['h0'] <= p, p < g['head'], st.heap.cls_of[g['hist'][p]] == RONE,
                                              Val.is_intv(st.heap.field('worker_num')[g['hist'][p]]),
                                              0 <= Val.i(st.heap.field('worker_num')[g['hist'][p]]), Val.i(st.heap.field('worker_num')[g['hist'][p]]) < NW),
                                          g['replaced'][Val.i(st.heap.field('worker_num')[g['hist'][p]])]))
        d['reloaded_sub'] = ForAll([j], Implies(And(0 <= j, j < NW, st.ghost['reloaded'][j]), g['replaced'][j]))
        d['replaced_sub'] = ForAll([j], Implies(And(0 <= j, j < NW, g['replaced'][j]), st.ghost['reloaded'][j]))
        return d
    # ---------- handlers (trusted multiprocessing / os model)
    def addr_of(v): return v.addr if isinstance(v, (PyObj, PyList, PyDict)) else Val.a(to_val(v))
    def env_signals(st):
        """signal handlers may append Shutdown/ReloadAll actions at any statement boundary: tail may grow, hist below tail unchanged."""
        nt = fresh('tail', IntSort()); nh = fresh('hist', I2I); g = st.ghost
        st.pc.append(nt >= g['tail']); st.facts.append(ForAll([p], Implies(p < g['tail'], nh[p] == g['hist'][p])))
        st.facts.append(ForAll([p], Implies(And(g['tail'] <= p, p < nt), Or(st.heap.cls_of[nh[p]] == SHUT, st.heap.cls_of[nh[p]] == RALL))))
        setG(st, tail=nt, hist=nh)
    def h_q_empty(ex, st, e, recv, args, kw, k, K):
        env_signals(st); g = st.ghost; return k(st, PyBool(g['head'] == g['tail']))
    def h_q_get(ex, st, e, recv, args, kw, k, K):
        g = st.ghost; oblige(st, "start/pre@queue.get: only after empty() returned False (never blocks)  [C17/C18]", g['head'] < g['tail'])
        a = g['hist'][g['head']]; hh = st.heap
        counts = And(hh.cls_of[a] == RONE, hh.field('is_reload_all')[a] == Val.boolv(False), MAXF >= 1)      # an unexpected worker exit being handled
        setG(st, head=g['head'] + 1, deq_fail=g['deq_fail'] + b2i(counts), nstarts_at_get=g['nstarts'])
        st.pc.append(Or(hh.cls_of[a] == RONE, hh.cls_of[a] == RALL, hh.cls_of[a] == SHUT))
        st.pc.append(Implies(hh.cls_of[a] == RONE, Val.is_boolv(hh.field('is_reload_all')[a])))
        setG(st, last_action=a)
        return k(st, PyObj(a, 'action'))
    def h_q_put(ex, st, e, recv, args, kw, k, K):
        g = st.ghost; a = Val.a(to_val(args[0])); setG(st, hist=Store(g['hist'], g['tail'], a), tail=g['tail'] + 1)
        if '__scan_i' in st.env:      # ghost bookkeeping for the "two ticks" argument: slot i now has a pending reload at queue index tail
            i = st.env['__scan_i']; nq = Function(f'qpos_p{next(_c)}', IntSort(), IntSort()); st.facts.append(ForAll([j], nq(j) == If(j == i, g['tail'], g['qpos'](j))))
            setG(st, needs=Store(st.ghost['needs'], i, True), qpos=nq)
        return k(st, None)
    def h_isinstance(ex, st, e, recv, args, kw, k, K):
        a = Val.a(to_val(args[0])); cname = ast.unparse(e.args[1]); return k(st, PyBool(CLS.sub_expr(st.heap.cls_of[a], cname)))
    FALSE_ARR = K(IntSort(), False)
    def h_set(ex, st, e, recv, args, kw, k, K): setG(st, reloaded=FALSE_ARR); return k(st, 'SET:reloaded')          # a fresh, empty per-tick de-duplication set (program state)
    def h_set_add(ex, st, e, recv, args, kw, k, K):
        i = ex.as_int(args[0]); setG(st, reloaded=Store(st.ghost['reloaded'], i, True)); return k(st, None)
    def h_len(ex, st, e, recv, args, kw, k, K): return k(st, PyInt(st.heap.llen[args[0].addr]))
    # dataclass fields of ReloadOneAction (order and defaults) are read from the class body in the AST
    R1_CLS = next(n for n in src.tree(REL).body if isinstance(n, ast.ClassDef) and n.name == 'ReloadOneAction')
    R1_FIELDS = [(s_.target.id, s_.value) for s_ in R1_CLS.body if isinstance(s_, ast.AnnAssign) and isinstance(s_.target, ast.Name)]
    def h_ReloadOneAction(ex, st, e, recv, args, kw, k, K):
        kw = dict(kw)
        for (fname, default), val in zip(R1_FIELDS, args): kw.setdefault(fname, val)
        for fname, default in R1_FIELDS:
            if fname not in kw:
                if default is None or not isinstance(default, ast.Constant): raise Unsupported(f"ReloadOneAction(...) without {fname} and no constant default")
                kw[fname] = default.value
        if set(kw) != {'worker_num', 'is_reload_all'}: raise Unsupported("ReloadOneAction fields changed: " + ", ".join(sorted(kw)))
        st.heap = st.heap.copy(); a = fresh('act', IntSort()); h = st.heap
        st.pc.append(h.cls_of[a] == RONE); st.facts.append(ForAll([p], Implies(p < st.ghost['tail'], st.ghost['hist'][p] != a)))      # freshly allocated
        h.fld['worker_num'] = Store(h.field('worker_num'), a, to_val(kw['worker_num'])); h.fld['is_reload_all'] = Store(h.field('is_reload_all'), a, to_val(kw['is_reload_all']))
        return k(st, PyObj(a, 'action'))
    kill_sites_seen = set()
    def h_os_kill(ex, st, e, recv, args, kw, k, K):
        kill_sites_seen.add((getattr(e, 'lineno', None), getattr(e, 'col_offset', None)))
        pid = to_val(args[0]); g = st.ghost; h = st.heap; i = st.env.get('__i')
        if i is None:
            oblige(st, "start/os.kill: only inside the shutdown loop over the manager's own workers  [C18]", BoolVal(False)); return k(st, None)
        w = {'slot': i, 'reaped': g['reaped'][W(st, i)], 'alive': g['alive'][W(st, i)]}
        oblige(st, "start/shutdown/os.kill: the target is the pid of the manager's own current worker of this slot  [C18]", pid == h.field('pid')[W(st, i)], witness=w)
        oblige(st, "start/shutdown/os.kill: SIGINT  [C18]", BoolVal(len(e.args) == 2 and ast.unparse(e.args[1]) == 'signal.SIGINT'))
        oblige(st, "start/shutdown/os.kill: at most once per worker  [C18]", g['killed'][i] == 0, witness=w)
        oblige(st, "start/pre@os.kill: the target has not been reaped (a reaped pid makes os.kill raise ProcessLookupError or hit an unrelated process)  [C18]", Not(g['reaped'][W(st, i)]), witness=w)
        setG(st, killed=Store(g['killed'], i, g['killed'][i] + 1)); return k(st, None)
    def h_getpid(ex, st, e, recv, args, kw, k, K): return k(st, fresh('own_pid'))
    def h_is_alive(ex, st, e, recv, args, kw, k, K):
        a = addr_of(recv); g = st.ghost
        # the process may have died since we last looked; is_alive() reaps a dead child
        dead = fresh('died', BoolSort()); al = And(g['alive'][a], Not(dead))
        setG(st, alive=Store(g['alive'], a, al), reaped=Store(g['reaped'], a, Or(g['reaped'][a], Not(al))))
        if '__scan_i' in st.env: setG(st, seen_dead=Store(st.ghost['seen_dead'], st.env['__scan_i'], Not(al)))
        return k(st, PyBool(al))
    def h_terminate(ex, st, e, recv, args, kw, k, K):
        setG(st, terminated=addr_of(recv))
        ok = st.fork(); k(ok, None)
        f = st.fork(); K['exc'](f, new_exc(f, 'ValueError'))
    def h_join(ex, st, e, recv, args, kw, k, K):
        a = addr_of(recv); g = st.ghost
        oblige(st, "handle/join after terminate  [C17]", st.ghost.get('terminated') == a if 'terminated' in st.ghost else BoolVal(False))
        assert not e.args and not e.keywords, "join with timeout does not guarantee death"
        setG(st, alive=Store(g['alive'], a, False), reaped=Store(g['reaped'], a, True), joined=Store(g['joined'], a, True)); return k(st, None)

    def daemon_ok(st_, kw, where):
        # multiprocessing's exit handler of the MANAGER process terminates (SIGTERM) every live daemonic child: a worker that was already sent SIGINT on
        # shutdown and is finishing its tasks would get a second signal. Workers are therefore created non-daemonic.
        d = kw.get('daemon')
        oblige(st_, f"{where}/Process(daemon=False): workers are not daemonic (a daemonic child is terminated again by the manager's exit handler: two signals on shutdown)  [C18]",
               Not(truthy(d, st_)) if d is not None else BoolVal(True), props=['C18'])
    def h_Process(ex, st, e, recv, args, kw, k, K):
        daemon_ok(st, kw, 'handle'); a = fresh('proc', IntSort()); g = st.ghost
        st.pc += [Not(g['started'][a]), Not(g['alive'][a]), Not(g['joined'][a]), Not(g['reaped'][a])]; return k(st, PyObj(a, 'Process'))
    def h_start(ex, st, e, recv, args, kw, k, K):
        a = addr_of(recv); g = st.ghost; slot = st.env['__slot']
        old = W(st, slot)
        oblige(st, "handle/start: previous process of the slot was joined  [C17]", g['joined'][old])
        # Process.start() runs _cleanup(): any finished child may get reaped
        nr = fresh('reaped', I2B); st.facts.append(ForAll([p], And(Implies(g['reaped'][p], nr[p]), Implies(nr[p], Not(g['alive'][p])))))
        setG(st, started=Store(g['started'], a, True), alive=Store(g['alive'], a, True), slot_of=Store(g['slot_of'], a, slot), reaped=Store(nr, a, False), nstarts=g['nstarts'] + 1)
        st.pc.append(truthy(st.heap.field('pid')[a])); return k(st, None)
    def h_list_append(ex, st, e, l, args, kw, k, K):
        st.heap = st.heap.copy(); hh = st.heap; m = hh.llen[l.addr]
        hh.litem = Store(hh.litem, l.addr, Store(hh.litem[l.addr], m, to_val(args[0]))); hh.llen = Store(hh.llen, l.addr, m + 1); return k(st, None)
    def h_event(ex, st, e, recv, args, kw, k, K): return k(st, fresh('event'))
    def h_sleep(ex, st, e, recv, args, kw, k, K):
        # during the sleep any worker may die (environment)
        g = st.ghost; na = fresh('alive', I2B); st.facts.append(ForAll([p], Implies(na[p], g['alive'][p]))); setG(st, alive=na, replaced=FALSE_ARR); env_signals(st); return k(st, None)          # a new supervision tick starts: nothing has been replaced in it yet (ghost)
    def inline(ex, st, fdef, self_val, args, kwargs, k, K, extra_env=None):
        params = [a.arg for a in fdef.args.args]; env = {params[0]: self_val}
        for pn, v in zip(params[1:], args): env[pn] = v
        env.update(kwargs); env.update(extra_env or {})
        saved = st.env; st.env = env
        def ret(st2, v): st2.env = saved; return k(st2, v)
        K2 = dict(K); K2['ret'] = ret
        return ex.block(fdef.body, st, lambda st2: ret(st2, None), K2)
    def h_action_handle(ex, st, e, recv, args, kw, k, K):
        a = addr_of(recv); kind = st.heap.cls_of[a]
        def one(s):
            wn = s.heap.field('worker_num')[a]; s.pc.append(Val.is_intv(wn)); slot = Val.i(wn)
            g0 = s.ghost; W0 = s.heap.litem[wl_a]
            oblige(s, "start/handle(ReloadOne): a slot is restarted at most once per tick  [C18]", Implies(And(slot >= 0, slot < NW), Not(g0['replaced'][slot])), witness={'slot': slot})
            def after(s2, v):
                inr = And(slot >= 0, slot < NW); hh = s2.heap
                oblige(s2, "handle/post: only slot worker_num changes  [C17]", ForAll([j], Implies(j != slot, hh.litem[wl_a][j] == W0[j])))
                oblige(s2, "handle/post: len(workers) unchanged  [C17]", hh.llen[wl_a] == NW)
                oblige(s2, "handle/post: in-range => slot holds a newly started live process  [C17]", Implies(inr, And(s2.ghost['started'][W(s2, slot)], W(s2, slot) != Val.a(W0[slot]), s2.ghost['joined'][Val.a(W0[slot])])))
                oblige(s2, "handle/post: out-of-range => nothing changes  [C17]", Implies(Not(inr), And(hh.litem[wl_a] == W0, s2.ghost['started'] == g0['started'])))
                setG(s2, replaced=If(inr, Store(s2.ghost['replaced'], slot, True), s2.ghost['replaced'])); return k(s2, None)
            return inline(ex, s, R1['handle'], recv, [], {'workers': PyList(wl_a), 'args': fresh('wargs'), 'worker_func': fresh('wf')}, after, K, {'__slot': slot})
        def all_(s):
            oblige(s, "start/reload-all: the reload covers every worker slot (workers_num == number of slots), so every worker is restarted in the tick the request is handled  [C18]",
                   ex.as_int(kw['workers_num']) == s.heap.llen[wl_a])
            return inline(ex, s, RA['handle'], recv, [], {'workers_num': kw['workers_num'], 'action_queue': PyObj(Int('queue_addr'))}, k, K)
        ex.branch(st, kind == RONE, one, all_)
    def h_wait_startup(ex, st, e, recv, args, kw, k, K): return k(st, None)     # only calls is_alive()/event.wait: may reap the new process; irrelevant here
    import itertools; _c = itertools.count()
    def havoc_loop(st, names_env, ghost_names):
        st.heap = st.heap.copy(); t = next(_c); h = st.heap
        h.litem = Const(f'litem_h{t}', h.litem.sort()); h.llen = Const(f'llen_h{t}', h.llen.sort()); h.cls_of = h.cls_of
        st.env = dict(st.env)
        for n in names_env: st.env[n] = fresh(n)
        for gname in ghost_names: st.ghost = dict(st.ghost); st.ghost[gname] = fresh(gname, st.ghost[gname].sort())
    GH_ALL = ['hist', 'head', 'tail', 'alive', 'reaped', 'started', 'joined', 'slot_of', 'replaced', 'killed', 'deq_fail']
    def assume(st, inv):
        for nme, c in inv.items(): (st.facts if is_quantifier(c) else st.pc).append(c)
    CONJ_PROPS = {'budget': ['C18'], 'killed': ['C18'], 'nslots': ['C17'], 'one_live': ['C17'], 'slots_started': ['C17'], 'handled': ['C17'], 'reloaded_sub': ['C17', 'C18'], 'replaced_sub': ['C18'], 'pending_for_dead': ['C17'],
                  'scan_queue': ['C17'], 'scan_needs': ['C17'], 'scan_found': ['C17'], 'appended': ['C18', 'C17'], 'tail': ['C18', 'C17'], 'prefix': ['C18', 'C17']}
    CONJ_TEXT = {'budget': "restarts == number of handled unexpected worker exits, and it is below max_fails while the loop runs", 'nslots': "the number of worker slots never changes",
                 'one_live': "every started, un-joined process is the current process of its slot (never two live processes per slot)", 'slots_started': "every slot holds a started process registered for that slot",
                 'handled': "every in-range ReloadOne dequeued in this drain has had its slot replaced", 'reloaded_sub': "slots marked reloaded this tick have been replaced this tick", 'replaced_sub': "slots replaced this tick are marked, so they are not restarted again in the same tick",
                 'pending_for_dead': "every worker found dead by the scan has a ReloadOne for its slot pending in the queue", 'killed': "shutdown signalling", 'appended': "reload-all enqueues ReloadOne(i, is_reload_all=True) for every slot in order (such restarts never consume the failure budget)", 'tail': "reload-all appends exactly one action per slot", 'prefix': "already queued actions are not rewritten", 'queue': "queue view well-formed",
                 'reaped_dead': "a reaped process is dead", 'pids': "current workers have a pid", 'workers_field': "self.workers is the same list"}
    def check(st, inv, label):
        tag = label if '[' in label else None
        for nme, c in inv.items(): oblige(st, f"{label.split('  [')[0]}/{nme}: {CONJ_TEXT.get(nme, nme)}", c, props=CONJ_PROPS.get(nme, PROPS))
    def h_for(ex, s, st, k, K):
        itx = ast.unparse(s.iter)
        if itx == 'range(workers_num)':     # ReloadAllAction.handle
            n = ex.as_int(st.env['workers_num']); g0 = st.ghost
            it = st.fork(); i = fresh('i', IntSort()); nt = fresh('tail', IntSort()); nh = fresh('hist', I2I)
            def inv(sx, ix):
                gx = sx.ghost
                return dict(tail=gx['tail'] == g0['tail'] + ix, prefix=ForAll([p], Implies(p < g0['tail'], gx['hist'][p] == g0['hist'][p])),
                            appended=ForAll([j], Implies(And(0 <= j, j < ix), And(sx.heap.cls_of[gx['hist'][g0['tail'] + j]] == RONE, sx.heap.field('worker_num')[gx['hist'][g0['tail'] + j]] == Val.intv(j),
                                                                                 sx.heap.field('is_reload_all')[gx['hist'][g0['tail'] + j]] == Val.boolv(True)))))
            check(st, inv(st, IntVal(0)), "ReloadAll.handle/loop/inv-entry")
            setG(it, tail=nt, hist=nh); it.heap = it.heap.copy(); it.heap.fld = dict(it.heap.fld); it.heap.fld['worker_num'] = fresh('fld_wn', VArr); it.heap.fld['is_reload_all'] = fresh('fld_ira', VArr)
            it.pc += [i >= 0, i < n]; assume(it, inv(it, i)); it.env = dict(it.env); it.env['worker_id'] = PyInt(i)
            ex.block(s.body, it, lambda s3: check(s3, inv(s3, i + 1), "ReloadAll.handle/loop/inv-preserved"), K)
            out = st.fork(); setG(out, tail=fresh('tail', IntSort()), hist=fresh('hist', I2I)); out.heap = out.heap.copy(); out.heap.fld = dict(out.heap.fld); out.heap.fld['worker_num'] = fresh('fld_wn', VArr); out.heap.fld['is_reload_all'] = fresh('fld_ira', VArr)
            out.pc.append(n >= 0); assume(out, inv(out, n))
            # frame: action objects that existed before keep their fields (needed by the caller's invariant) -- stated as part of this loop's contract
            out.facts.append(ForAll([p], Implies(p < g0['tail'], And(out.heap.field('worker_num')[g0['hist'][p]] == st.heap.field('worker_num')[g0['hist'][p]], out.heap.field('is_reload_all')[g0['hist'][p]] == st.heap.field('is_reload_all')[g0['hist'][p]]))))
            return k(out)
        if itx == 'self.workers':           # shutdown: signal every live worker exactly once
            g0 = st.ghost
            def inv(sx, ix):
                gx = sx.ghost
                return dict(killed=ForAll([j], And(gx['killed'][j] >= 0, gx['killed'][j] <= 1, Implies(Or(j < 0, j >= ix), gx['killed'][j] == 0),
                                                 Implies(And(0 <= j, j < ix, gx['alive'][W(sx, j)]), gx['killed'][j] == 1))),
                            frame=And(sx.heap.litem[wl_a] == st.heap.litem[wl_a], sx.heap.llen[wl_a] == NW, gx['nstarts'] == g0['nstarts'], gx['started'] == g0['started']),
                            pids=ForAll([j], Implies(And(0 <= j, j < NW), Implies(gx['alive'][W(sx, j)], truthy(sx.heap.field('pid')[W(sx, j)])))),
                            dying=ForAll([p], And(Implies(gx['alive'][p], g0['alive'][p]), Implies(gx['reaped'][p], Not(gx['alive'][p])))))
            st.ghost = dict(st.ghost); st.ghost['killed'] = ZERO_ARR
            check(st, inv(st, IntVal(0)), "start/shutdown-loop/inv-entry  [C18]")
            def hv(sx): setG(sx, killed=fresh('killed', I2I), alive=fresh('alive', I2B), reaped=fresh('reaped', I2B))
            it = st.fork(); i = fresh('i', IntSort()); hv(it); it.pc += [i >= 0, i < NW]; assume(it, inv(it, i))
            it.env = dict(it.env); it.env['worker'] = PyObj(W(it, i), 'Process'); it.env['__i'] = i
            ex.block(s.body, it, lambda s3: check(s3, inv(s3, i + 1), "start/shutdown-loop/inv-preserved: every worker that is alive when examined is signalled exactly once, nobody twice  [C18]"), K)
            out = st.fork(); hv(out); assume(out, inv(out, NW)); return k(out)
        if itx == 'enumerate(self.workers)':  # end-of-tick scan
            g0 = st.ghost
            def inv(sx, ix):
                gx = sx.ghost; d = Inv_outer(sx)
                d['scan_queue'] = And(gx['tail'] >= g0['tail'], gx['head'] == g0['head'], ForAll([p], Implies(p < g0['tail'], gx['hist'][p] == g0['hist'][p])))
                d['scan_needs'] = ForAll([j], Implies(And(0 <= j, j < NW, gx['needs'][j]), And(j < ix, gx['head'] <= gx['qpos'](j), gx['qpos'](j) < gx['tail'], sx.heap.cls_of[gx['hist'][gx['qpos'](j)]] == RONE,
                                          sx.heap.field('worker_num')[gx['hist'][gx['qpos'](j)]] == Val.intv(j), sx.heap.field('is_reload_all')[gx['hist'][gx['qpos'](j)]] == Val.boolv(False))))
                d['scan_found'] = ForAll([j], Implies(And(0 <= j, j < ix, gx['seen_dead'][j]), gx['needs'][j]))      # every slot found dead by this scan is marked
                return d
            st.ghost = dict(st.ghost); st.ghost['needs'] = FALSE_ARR; st.ghost['seen_dead'] = FALSE_ARR
            check(st, inv(st, IntVal(0)), "start/scan/inv-entry")
            def havoc_scan(sx):
                sx.ghost = dict(sx.ghost); t_ = next(_c)
                for nm in ('hist', 'tail', 'alive', 'reaped', 'needs', 'seen_dead'): sx.ghost[nm] = fresh(nm, sx.ghost[nm].sort())
                sx.ghost['qpos'] = Function(f'qpos{t_}', IntSort(), IntSort())
                sx.heap = sx.heap.copy(); sx.heap.fld = dict(sx.heap.fld); sx.heap.fld['worker_num'] = fresh('fld_wn', VArr); sx.heap.fld['is_reload_all'] = fresh('fld_ira', VArr)
            it = st.fork(); havoc_scan(it); i = fresh('wi', IntSort()); it.pc += [i >= 0, i < NW]; assume(it, inv(it, i))
            it.env = dict(it.env); it.env['worker_num'] = PyInt(i); it.env['worker'] = PyObj(W(it, i), 'Process'); it.env['__scan_i'] = i
            ex.block(s.body, it, lambda s3: check(s3, inv(s3, i + 1), "start/scan/inv-preserved"), K)
            out = st.fork(); havoc_scan(out); assume(out, inv(out, NW)); return k(out)
        raise Unsupported("for " + itx)
    ZERO_ARR = K(IntSort(), IntVal(0))
    handlers = {'logging.*': noop, 'logger.*': noop, 'sleep': h_sleep, 'set': h_set, '*.action_queue.empty': h_q_empty, '*.action_queue.get': h_q_get, 'action_queue.put': h_q_put, '*.action_queue.put': h_q_put,
                'isinstance': h_isinstance, 'len': h_len, 'ReloadOneAction': h_ReloadOneAction, 'os.kill': h_os_kill, 'os.getpid': h_getpid, '*.is_alive': h_is_alive, '*.terminate': h_terminate, '*.join': h_join,
                'Process': h_Process, '*.start': h_start, 'Event': h_event, 'list.append': h_list_append, '_wait_for_worker_startup': h_wait_startup, 'action.handle': h_action_handle, 'reloaded_workers.add': h_set_add, '@for': h_for}
    class Ex(Exec):
        def assign(self, tgt, v, st, k, K):
            if isinstance(tgt, ast.Name) and tgt.id == RESTARTS: setG(st, restarts_mirror=_as_int(v))
            return super().assign(tgt, v, st, k, K)
        def ev_Compare(self, e, st, k, K):
            if isinstance(e.ops[0], ast.In) and ast.unparse(e.comparators[0]) == 'reloaded_workers':
                return self.ev(e.left, st, lambda s, v: k(s, PyBool(s.ghost['reloaded'][self.as_int(v)])), K)
            return super().ev_Compare(e, st, k, K)
        def ev_Attribute(self, e, st, k, K):
            path = ast.unparse(e)
            if path in ('signal.SIGINT', 'new_process.pid', 'new_process.name', 'worker.name'): return k(st, fresh('x'))
            return super().ev_Attribute(e, st, k, K)
    ex = Ex(handlers, attr_kinds={'self.workers': 'list', 'self.args': 'obj', 'self.action_queue': 'obj'})
    Ex.inline_scope = (src, REL, 'ProcessManager')          # helpers extracted from start()/handle() are executed with their real body

    # ---------- verify one full iteration of the OUTER loop of ProcessManager.start: sleep; drain; scan  -- "two ticks"
    start = PM['start']; outer = [s for s in start.body if isinstance(s, ast.While)][0]
    def OuterInv(st):
        g = st.ghost; d = Inv_outer(st)
        d['pending_for_dead'] = ForAll([j], Implies(And(0 <= j, j < NW, g['needs'][j]), And(g['head'] <= g['qpos'](j), g['qpos'](j) < g['tail'], st.heap.cls_of[g['hist'][g['qpos'](j)]] == RONE,
                                     st.heap.field('worker_num')[g['hist'][g['qpos'](j)]] == Val.intv(j))))
        return d
    st = init_state(""); base_heap(st); st.env = {'self': PyObj(self_a, 'pm'), RESTARTS: PyInt(Int('restarts'))}; st.ghost['restarts_mirror'] = Int('restarts'); bind_prelude_locals(st.env, start.body[:start.body.index(outer)])
    st.ghost['needs'] = Const('needs', I2B); st.ghost['qpos'] = Function('qpos', IntSort(), IntSort()); st.ghost['seen_dead'] = K(IntSort(), False)
    st.ghost['reloaded'] = Const('reloaded_from_previous_tick', I2B)          # whatever the de-duplication set held at the end of the previous tick
    st.pc += [NW >= 0, Distinct(self_a, args_a, wl_a)]; assume(st, OuterInv(st))
    needs0 = st.ghost['needs']
    exits = collections.Counter()
    class Ex2(Ex): pass
    class Ex3(Ex2):
        def st_While(self, s, st, k, K):
            assert 'action_queue.empty' in ast.unparse(s.test)
            # drain loop cut: establish the drain invariant at entry (h0 = head, t0 = tail), assume it at exit with the guard false
            setG(st, h0=st.ghost['head'], t0=st.ghost['tail'])
            check(st, Inv_drain(st), "start/drain/inv-entry")
            # every pending reload for a dead worker lies inside [h0, t0)
            oblige(st, "start/drain-entry: reloads queued by the previous scan are inside the drained range  [C17]", ForAll([j], Implies(And(0 <= j, j < NW, needs0[j]), And(st.ghost['h0'] <= st.ghost['qpos'](j), st.ghost['qpos'](j) < st.ghost['t0']))))
            out = st.fork(); qpos_keep = st.ghost['qpos']; hist0 = st.ghost['hist']; t0 = st.ghost['t0']
            havoc_loop(out, ['action', RESTARTS], GH_ALL + ['reloaded']); r_ = fresh('restarts', IntSort()); out.env[RESTARTS] = PyInt(r_); out.ghost = dict(out.ghost); out.ghost['restarts_mirror'] = r_
            assume(out, Inv_drain(out)); out.pc.append(out.ghost['head'] == out.ghost['tail'])          # the only normal exit: queue empty
            out.facts.append(ForAll([p], Implies(p < t0, out.ghost['hist'][p] == hist0[p])))               # FIFO: entries already queued are not rewritten
            out.facts.append(ForAll([p], Implies(p < t0, And(out.heap.field('worker_num')[hist0[p]] == st.heap.field('worker_num')[hist0[p]], out.heap.cls_of[hist0[p]] == st.heap.cls_of[hist0[p]]))))
            oblige(out, "start/two-ticks: every worker found dead by the previous scan has been replaced when the drain ends normally  [C17]",
                   ForAll([j], Implies(And(0 <= j, j < NW, needs0[j]), out.ghost['replaced'][j])))
            return k(out)
    ex.__class__ = Ex3
    def end_outer(s):
        exits['iteration-end'] += 1
        check(s, OuterInv(s), "start/outer/inv-preserved")
    GH_ALL = GH_ALL + ['needs', 'seen_dead']
    ex.block(outer.body, st, end_outer, {'ret': lambda s, v: exits.update(['return']), 'exc': lambda s, x: exits.update(['raise'])})

    # =====================================================================  DRAIN ITERATION
    # ---------- verify one arbitrary iteration of the DRAIN loop body (inner while), from the drain invariant
    start = PM['start']; outer = [s for s in start.body if isinstance(s, ast.While)][0]; drain = [s for s in outer.body if isinstance(s, ast.While)][0]
    st = init_state(""); base_heap(st); st.env = {'self': PyObj(self_a, 'pm'), RESTARTS: PyInt(Int('restarts'))}; st.ghost['restarts_mirror'] = Int('restarts'); bind_prelude_locals(st.env, start.body[:start.body.index(outer)])
    st.ghost['reloaded'] = Const('reloaded', I2B)
    st.pc += [NW >= 0, Distinct(self_a, args_a, wl_a)]; assume(st, Inv_drain(st))
    exits = collections.Counter()
    def back(s):          # end of one drain iteration: invariant re-established
        exits['iter'] += 1; check(s, Inv_drain(s), "start/drain/inv-preserved")
        oblige(s, "start/drain: a Shutdown action ends the manager (the loop does not go on handling actions)  [C18]", s.heap.cls_of[s.ghost['last_action']] != SHUT)
    def on_ret(s, v):
        exits['return'] += 1; vv = to_val(v); g = s.ghost
        w = {'max_fails': MAXF, 'handled_unexpected_exits': g['deq_fail'], 'n_workers': NW}
        oblige(s, "start/return: the status is -1 (failure) or None (success)  [C18]", Or(vv == Val.intv(-1), vv == Val.none), witness=w)
        oblige(s, "start/return -1: exactly when the number of handled unexpected worker exits reaches max_fails (never if max_fails < 1)  [C18]", Implies(vv == Val.intv(-1), And(MAXF >= 1, g['deq_fail'] == MAXF)), witness=w)
        oblige(s, "start/return None: only on a Shutdown action, never while the budget is exhausted  [C18]", Implies(vv == Val.none, And(s.heap.cls_of[g['last_action']] == SHUT, Implies(MAXF >= 1, g['deq_fail'] < MAXF))), witness=w)
        oblige(s, "start/return None: every worker that was alive was signalled exactly once, nobody twice  [C18]",
               Implies(vv == Val.none, ForAll([j], And(g['killed'][j] <= 1, Implies(Or(j < 0, j >= NW), g['killed'][j] == 0), Implies(And(0 <= j, j < NW, g['alive'][W(s, j)]), g['killed'][j] == 1)))), witness=w)
        oblige(s, "start/return None: no process is started while shutting down  [C18]", Implies(vv == Val.none, g['nstarts'] == g['nstarts_at_get']), witness=w)
        reach(s, f"start/reach@return#{exits['return']}")
    # ghost instrumentation of `restarts += 1` is by role: deq_fail counts dequeued non-reload-all ReloadOne actions
    class Ex2(Ex): pass
    ex.__class__ = Ex2
    # one iteration: guard `not self.action_queue.empty()` true
    def body(s): ex.block(drain.body, s, back, {'ret': on_ret, 'exc': lambda s2, x: exits.update(['raise']), 'cont': back, 'brk': lambda s2: None})
    ex.ev(drain.test, st, lambda s, v: ex.branch(s, truthy(v), body, lambda s2: exits.update(['exit'])), {})
    src.note_paths('::ProcessManager.start', sum(exits.values()))

    # =====================================================================  prepare_workers: one started process per slot, named worker-i  [C17]
    def run_prepare():
        stp = init_state("_pw"); base_heap(stp); stp.env = {'self': PyObj(self_a, 'pm')}
        NWK = Int('args_workers'); g = stp.ghost; h = stp.heap
        h.fld['workers_count'] = Store(h.field('workers_count'), args_a, Val.intv(NWK))
        stp.pc += [NWK >= 0, Distinct(self_a, args_a, wl_a), h.llen[wl_a] == 0, g['nstarts'] == 0] + [And(x >= 0, x < h.next) for x in (self_a, args_a, wl_a)]      # pre-existing objects lie below the allocation pointer
        assume(stp, dict(none_started=ForAll([p], And(Not(g['started'][p]), Not(g['alive'][p]), Not(g['joined'][p]), Not(g['reaped'][p])))))
        def invp(sx, ix):
            gx = sx.ghost; hh = sx.heap
            return dict(length=hh.llen[wl_a] == ix,
                        slots=ForAll([j], Implies(And(0 <= j, j < ix), And(Val.is_ref(hh.litem[wl_a][j]), gx['started'][W(sx, j)], gx['slot_of'][W(sx, j)] == j, sx.ghost['pname'][W(sx, j)] == j))),
                        only=ForAll([p], Implies(gx['started'][p], And(0 <= gx['slot_of'][p], gx['slot_of'][p] < ix, W(sx, gx['slot_of'][p]) == p))),
                        count=gx['nstarts'] == ix, field=hh.field('workers')[self_a] == Val.ref(wl_a))
        stp.ghost['pname'] = K(IntSort(), IntVal(-1))
        def h_Process2(ex_, st_, e, recv, args, kw, k, K):
            daemon_ok(st_, kw, 'prepare_workers'); a = fresh('proc', IntSort()); gx = st_.ghost
            st_.pc += [Not(gx['started'][a]), Not(gx['alive'][a]), Not(gx['joined'][a]), Not(gx['reaped'][a]), a != wl_a, a != self_a, a != args_a]
            nm = kw.get('name'); idx = st_.env.get('__slot')
            oblige(st_, "prepare_workers/Process: named worker-<slot> and not a daemon  [C17]", BoolVal(isinstance(nm, tuple) and nm[0] == 'worker-name' and kw.get('daemon') is False))
            setG(st_, pname=Store(gx['pname'], a, nm[1] if isinstance(nm, tuple) else IntVal(-2))); return k(st_, PyObj(a, 'Process'))
        def h_forp(ex_, s, st_, k, K):
            itx = ast.unparse(s.iter)
            if itx == 'range(self.args.workers)':
                check(st_, invp(st_, IntVal(0)), "prepare_workers/loop/inv-entry  [C17]")
                def hv(sx):
                    sx.heap = sx.heap.copy(); sx.heap.litem = fresh('litem_h', sx.heap.litem.sort()); sx.heap.llen = fresh('llen_h', sx.heap.llen.sort())
                    for nm in ('alive', 'reaped', 'started', 'slot_of', 'nstarts', 'pname'): setG(sx, **{nm: fresh(nm, sx.ghost[nm].sort())})
                it = st_.fork(); hv(it); i = fresh('i', IntSort()); it.pc += [i >= 0, i < NWK]; assume(it, invp(it, i)); it.env = dict(it.env); it.env[s.target.id] = PyInt(i); it.env['__slot'] = i
                ex_.block(s.body, it, lambda s3: check(s3, invp(s3, i + 1), "prepare_workers/loop/inv-preserved  [C17]"), K)
                out = st_.fork(); hv(out); assume(out, invp(out, NWK)); return k(out)
            if itx.startswith('zip(self.workers'):       # waiting for startup: only is_alive()/event.wait - may reap, never rebinds a slot
                return k(st_)
            raise Unsupported("prepare_workers: loop over " + itx)
        def h_startp(ex_, st_, e, recv, args, kw, k, K):
            a = addr_of(recv); gx = st_.ghost; slot = st_.env['__slot']
            setG(st_, started=Store(gx['started'], a, True), alive=Store(gx['alive'], a, True), slot_of=Store(gx['slot_of'], a, slot), nstarts=gx['nstarts'] + 1); return k(st_, None)
        class ExP(Exec):
            def ev_JoinedStr(self, e, st_, k, K):
                parts = [v for v in e.values]
                if len(parts) == 2 and isinstance(parts[0], ast.Constant) and parts[0].value == 'worker-' and isinstance(parts[1], ast.FormattedValue):
                    return self.ev(parts[1].value, st_, lambda s2, v: k(s2, ('worker-name', self.as_int(v))), K)
                return k(st_, fresh('fstr'))
            def ev_List(self, e, st_, k, K): a = alloc(st_); st_.pc.append(st_.heap.llen[a] == 0); return k(st_, PyList(a))
            def ev_Attribute(self, e, st_, k, K):
                pth = ast.unparse(e)
                if pth == 'self.args.workers': return k(st_, PyInt(NWK))
                if pth in ('self.worker_function', 'self.args', 'work_proc.pid'): return k(st_, fresh('x'))
                return super().ev_Attribute(e, st_, k, K)
        ExP.inline_scope = (src, REL, 'ProcessManager')
        exp = ExP({'logger.*': noop, 'Event': h_event, 'Process': h_Process2, '*.start': h_startp, 'list.append': h_list_append, '@for': h_forp, '_wait_for_worker_startup': noop}, attr_kinds={'self.workers': 'list'})
        def p_ret(s, v):
            gx = s.ghost; hh = s.heap
            oblige(s, "prepare_workers/post: exactly args.workers slots, slot i holds a started process named worker-i, nothing else started  [C17]",
                   And(hh.llen[wl_a] == NWK, gx['nstarts'] == NWK, ForAll([j], Implies(And(0 <= j, j < NWK), And(gx['started'][W(s, j)], gx['slot_of'][W(s, j)] == j, gx['pname'][W(s, j)] == j)))))
            reach(s, "prepare_workers/reach@return")
        exp.run(PM['prepare_workers'], stp, p_ret, lambda s, x: oblige(s, "prepare_workers/raises: nothing  [C17]", BoolVal(False)))
    run_prepare()

    # =====================================================================  signal handler: puts exactly the configured action, nothing else  [C17/C18]
    # the handler is inherited by forked workers until they install their own: whether the CURRENT process is a worker must be asked when the signal
    # arrives (inside the handler), not when the handler was built (in the manager, where the answer is always "no")
    GSH = src.func(REL, 'get_signal_handler')
    outer_calls = [ast.unparse(n_.func) for st_ in GSH.body if not isinstance(st_, (ast.FunctionDef, ast.AsyncFunctionDef)) for n_ in ast.walk(st_) if isinstance(n_, ast.Call)]
    oblige(State(), "get_signal_handler/closure: the process identity is read when the signal arrives, not captured when the handler is built (a forked worker inherits the handler)  [C18]",
           BoolVal(not any('current_process' in c or 'getpid' in c for c in outer_calls)), props=['C18'])
    def run_sighandler():
        sts = State(); sts.env = {'signum': fresh('signum'), '_frame': fresh('frame'), 'action_queue': PyObj(Int('queue_addr')), 'action_to_send': fresh('action_to_send')}
        sts.ghost = dict(puts=IntVal(0), put_what=Val.none); in_worker = Bool('current_process_is_worker')
        CLS.add('KeyboardInterrupt', 'BaseException')
        def h_put(ex_, st_, e, recv, args, kw, k, K): setG(st_, puts=st_.ghost['puts'] + 1, put_what=to_val(args[0])); return k(st_, None)
        class ExS(Exec):
            def st_Raise(self, s_, st_, k, K):
                if s_.exc is not None and ast.unparse(s_.exc) == 'KeyboardInterrupt': return K['exc'](st_, new_exc(st_, 'KeyboardInterrupt'))
                return super().st_Raise(s_, st_, k, K)
        exs = ExS({'logger.*': noop, 'action_queue.put': h_put, 'current_process().name.startswith': lambda ex_, st_, e, r, a, kw, k, K: k(st_, PyBool(in_worker)), 'current_process': lambda ex_, st_, e, r, a, kw, k, K: k(st_, PyObj(Int('cp')))})
        def s_ret(s, v):
            oblige(s, "_signal_handler/post: in the manager it enqueues exactly the configured action, once  [C17/C18]", And(Not(in_worker), s.ghost['puts'] == 1, s.ghost['put_what'] == to_val(sts.env['action_to_send'])))
            reach(s, "_signal_handler/reach@return")
        exs.run(SIGH, sts, s_ret, lambda s, x: oblige(s, "_signal_handler/raises: KeyboardInterrupt only inside a worker process, enqueuing nothing  [C18]", And(in_worker, s.ghost['puts'] == 0)))
    try: run_sighandler()
    except Unsupported:
        # a handler whose decision was hoisted into the factory cannot be executed on its own; the closure obligation above already reports that shape
        if not any('current_process' in c or 'getpid' in c for c in outer_calls): raise
    # =====================================================================  __init__ wiring: SIGINT/SIGTERM -> Shutdown, SIGHUP -> ReloadAll, workers starts empty  [C18]
    def run_init():
        regs = {}
        def h_gsh(ex_, st_, e, recv, args, kw, k, K): return k(st_, ('handler', ast.unparse(e.args[0]), ast.unparse(e.args[1])))
        def h_signal(ex_, st_, e, recv, args, kw, k, K): regs[ast.unparse(e.args[0])] = args[1]; return k(st_, None)
        class ExI(Exec):
            def ev_List(self, e, st_, k, K): return k(st_, 'EMPTY' if not e.elts else fresh('list'))
            def ev_Compare(self, e, st_, k, K):
                if ast.unparse(e) == "sys.platform != 'win32'": return k(st_, PyBool(BoolVal(True)))
                return super().ev_Compare(e, st_, k, K)
            def ev_BoolOp(self, e, st_, k, K): return k(st_, PyBool(fresh('cond', BoolSort())))
        def h_Queue(ex_, st_, e, r, a, kw, k, K):
            # the manager loop is the ONLY consumer of the action queue and is itself a producer (ReloadAllAction.handle, the liveness scan, the signal handlers run
            # in its thread): with a capacity, put() blocks the loop in its own put once the queue is full - nothing is restarted or shut down any more.
            cap = a[0] if a else kw.get('maxsize', 0)
            if isinstance(cap, int): cap = PyInt(IntVal(cap))
            if not isinstance(cap, PyInt):
                mc = [n_.value for n_ in src.tree(REL).body if isinstance(n_, ast.Assign) and e.args and isinstance(e.args[0], ast.Name) and any(isinstance(t_, ast.Name) and t_.id == e.args[0].id for t_ in n_.targets)]
                cap = PyInt(IntVal(mc[0].value)) if len(mc) == 1 and isinstance(mc[0], ast.Constant) and isinstance(mc[0].value, int) else None
            if cap is None: sx = st_.fork(); approx(sx, "capacity of the action queue: " + ast.unparse(e)); oblige(sx, "__init__/action queue: unbounded (maxsize <= 0): the manager loop never blocks in its own put  [C17/C18]", BoolVal(False), props=['C17', 'C18'])
            else: oblige(st_, "__init__/action queue: unbounded (maxsize <= 0): the manager loop never blocks in its own put  [C17/C18]", cap.e <= 0, props=['C17', 'C18'])
            return k(st_, 'QUEUE')
        exi = ExI({'logger.*': noop, 'Queue': h_Queue, 'get_signal_handler': h_gsh, 'signal.signal': h_signal, 'observer.schedule': noop, 'FileWatcher': noop,
                   'ShutdownAction': lambda ex_, st_, e, r, a, kw, k, K: k(st_, 'SHUTDOWN'), 'ReloadAllAction': lambda ex_, st_, e, r, a, kw, k, K: k(st_, 'RELOADALL')})
        sti = State(); sti.env = {'self': PyObj(Int('self_i')), 'args': PyObj(Int('args_i')), 'worker_function': fresh('wf'), 'observer': fresh('obs')}
        wrote = {}
        orig_assign = exi.assign
        def assign(tgt, v, st_, k, K):
            if isinstance(tgt, ast.Attribute) and ast.unparse(tgt.value) == 'self': wrote[tgt.attr] = v; return k(st_)
            return orig_assign(tgt, v, st_, k, K)
        exi.assign = assign
        def i_ret(s, v):
            ok = (regs.get('signal.SIGINT') == ('handler', 'self.action_queue', 'ShutdownAction()') and regs.get('signal.SIGTERM') == ('handler', 'self.action_queue', 'ShutdownAction()')
                  and regs.get('signal.SIGHUP') == ('handler', 'self.action_queue', 'ReloadAllAction()'))
            oblige(s, "__init__/post: SIGINT and SIGTERM enqueue a ShutdownAction, SIGHUP a ReloadAllAction, on the manager's own queue  [C18]", BoolVal(bool(ok)))
            oblige(s, "__init__/post: the manager starts with no workers and an unbounded action queue  [C17]", BoolVal(wrote.get('workers') == 'EMPTY' and wrote.get('action_queue') == 'QUEUE'))
        done = []
        exi.run(PM['__init__'], sti, lambda s, v: done.append(s), lambda s, x: None)
        if done: i_ret(done[-1], None); reach(done[-1], "__init__/reach@return")
    run_init()
    # =====================================================================  _wait_for_worker_startup: frame (touches no slot, starts/kills nothing)  [C17]
    calls = sorted({ast.unparse(n.func) for n in ast.walk(WAIT) if isinstance(n, ast.Call)}); stores = [n for n in ast.walk(WAIT) if isinstance(n, (ast.Assign, ast.AugAssign, ast.AnnAssign, ast.Delete))]
    sw = State(); oblige(sw, "_wait_for_worker_startup/frame: only polls is_alive()/event.wait - no slot is rebound, nothing is started or signalled  [C17]",
                         BoolVal(set(calls) <= {'process.is_alive', 'event.wait', 'suppress'} and not stores), props=['C17'])
    # os.kill appears nowhere else in the file (syntactic frame)  [C18]
    tree = src.tree(REL); kills = [n for n in ast.walk(tree) if isinstance(n, ast.Call) and ast.unparse(n.func) in ('os.kill', 'os.killpg', 'signal.pthread_kill')]
    unseen = [f"line {n.lineno}" for n in kills if (n.lineno, n.col_offset) not in kill_sites_seen]
    oblige(sw, "process_manager/frame: every os.kill call site of the file is one the manager reaches only through the shutdown branch of start() (where its target, multiplicity and liveness are obligations)  [C18]", BoolVal(not unseen), props=['C18'])
    # =====================================================================  run_worker: the only caller of start() - it builds ONE manager, starts it ONCE and hands its status on  [C17/C18]
    RW = src.func('taskiq/cli/worker/run.py', 'run_worker')
    idx = [i for i, s_ in enumerate(RW.body) if isinstance(s_, ast.Assign) and isinstance(s_.value, ast.Call) and ast.unparse(s_.value.func) == 'ProcessManager']
    if len(idx) != 1: raise Unsupported("run_worker: expected exactly one `<name> = ProcessManager(...)` statement at the top level of the function")
    STATUS = fresh('status_of_start'); seenw = {'built': 0}
    def h_PM(ex_, st_, e, r, a, kw, k, K):
        seenw['built'] += 1
        kwt = {x.arg: ast.unparse(x.value) for x in e.keywords}
        oblige(st_, "run_worker/manager: built with the parsed arguments and start_listen as the worker function  [C17/C18]", BoolVal(bool(not e.args and kwt.get('args') == 'args' and kwt.get('worker_function') == 'start_listen')))
        return k(st_, 'MANAGER')
    class ExW(Exec):
        def find_handler(self, name, recv=None):
            if isinstance(recv, str) and recv == 'MANAGER':
                meth = name.split('.')[-1]
                if meth == 'start':
                    def h(ex_, st_, e, r, a, kw, k, K): setG(st_, starts=st_.ghost['starts'] + 1); return k(st_, STATUS)
                    return h
                def h2(ex_, st_, e, r, a, kw, k, K):
                    oblige(st_, f"run_worker/manager: nothing but start() is called on the manager (start() prepares the workers itself; `{name}` here would do it twice)  [C17/C18]", BoolVal(False)); return k(st_, fresh('x'))
                return h2
            return super().find_handler(name, recv)
        def ev_Attribute(self, e, st_, k, K):
            if ast.unparse(e).startswith(('args.', 'observer.')): return k(st_, fresh(ast.unparse(e).replace('.', '_')))
            return super().ev_Attribute(e, st_, k, K)
    exw = ExW({'ProcessManager': h_PM, 'logger.*': noop, 'logging.*': noop, 'observer.is_alive': opaque('alive'), 'observer.stop': noop, 'observer.join': noop, 'observer.start': noop})
    sw = State(); sw.env = {'args': fresh('args'), 'observer': fresh('observer'), 'start_listen': fresh('start_listen')}; sw.ghost = {'starts': IntVal(0)}
    def w_ret(s, v):
        oblige(s, "run_worker/post: start() ran exactly once and ITS status (None on shutdown, -1 when the failure budget is exhausted) is what run_worker returns, on every path  [C18]", And(s.ghost['starts'] == 1, to_val(v) == STATUS), props=['C18'])
        reach(s, "run_worker/reach@return")
    def w_end(s): oblige(s, "run_worker/post: start() ran exactly once and ITS status (None on shutdown, -1 when the failure budget is exhausted) is what run_worker returns, on every path  [C18]", BoolVal(False), props=['C18'])
    exw.block(RW.body[idx[0]:], sw, w_end, {'ret': w_ret, 'exc': lambda s, x: None})
    oblige(State(), "run_worker/manager: exactly one manager is built  [C17/C18]", BoolVal(seenw['built'] == 1))
    return {'exits': dict(exits)}
