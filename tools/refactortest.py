#!/usr/bin/env python3
"""tools/refactortest.py <patch.diff> [Cxx ...]: apply a BEHAVIOUR-PRESERVING patch to the clean dev worktree (/tmp/wt/dev), run the checks against it
(PYVC_REPO), undo it. A correct machinery must never print VIOLATION here (exit 0, or 2 = undecided, are both acceptable)."""
import sys, os, subprocess, json, tempfile, shutil, concurrent.futures as cf
ROOT = os.path.dirname(os.path.dirname(os.path.abspath(__file__))); DEV = os.environ.get('DEVTREE', '/tmp/wt/dev')
patch = os.path.abspath(sys.argv[1]); props = sys.argv[2:] or [json.loads(l)['id'] for l in open(os.path.join(ROOT, 'properties.jsonl'))]
subprocess.run(['git', '-C', DEV, 'checkout', '-q', '--', '.'])
r = subprocess.run(['git', '-C', DEV, 'apply', patch], capture_output=True, text=True)
if r.returncode: print("patch does not apply:", r.stderr); sys.exit(2)
out = tempfile.mkdtemp(prefix='pyvc-refactor-'); res = {}
try:
    env = dict(os.environ, PYVC_OUT=out, PYVC_PROCS='6', PYVC_CACHE=os.path.join(out, 'unit-cache'), PYVC_REPO=DEV, PYVC_TIMEOUT_MS='8000')
    def one(p):
        r = subprocess.run([os.path.join(ROOT, 'check'), p], capture_output=True, text=True, env=env, cwd=ROOT)
        return p, r.returncode, [l for l in r.stdout.splitlines() if l.startswith(('VIOLATION', 'UNDECIDED', 'BROKEN'))]
    with cf.ThreadPoolExecutor(5) as ex:
        for p, rc, lines in ex.map(one, props): res[p] = (rc, lines)
    for p in props:
        rc, lines = res[p]
        if rc: print(p, 'exit', rc); [print('    ' + l[:260]) for l in lines[:4]]
    print("FALSE ALARMS:", [p for p in props if res[p][0] == 1] or 'none', "| undecided:", [p for p in props if res[p][0] == 2], "| broken:", [p for p in props if res[p][0] == 3])
finally:
    subprocess.run(['git', '-C', DEV, 'checkout', '-q', '--', '.']); shutil.rmtree(out, ignore_errors=True)
