"""
Demo for property C14 (negative control, behaviour-changing but property-keeping
maintenance change).

C14: a one-shot schedule is never sent early and at most one second late.
For a schedule with target time T (naive = UTC, aware = compared as an instant)
evaluated at instant `now`:
  * T <= now                                   -> due immediately (delay 0);
  * T  > next minute boundary + 1 s            -> left for a later poll (None);
  * otherwise the delay d is a whole number of seconds, T <= now + d < T + 1 s.

The script checks this with an oracle written in integer microseconds:

  1. SWEEP      frozen clock, many `now` (all interesting seconds / microseconds of
                the minute, DST switches, year end, leap day, seeded random ones) x
                many T (-2 d .. +2 d, all boundary cases, seeded random ones) x
                naive / UTC / fixed-offset / IANA (pytz and zoneinfo) / sub-minute
                offset zones, on hosts whose local zone is UTC, UTC+9 and UTC-3:30;
  2. EXOTIC     values that python itself calls naive although tzinfo is set
                (utcoffset() is None), values next to datetime.min / datetime.max,
                an explicit `now` argument (naive / any zone) if get_task_delay()
                has one, and the get_time_delay() helper if the module has one.
                Here a TypeError/OverflowError is tolerated (the property does not
                quantify over such values), a *wrong answer* is not;
  3. END-TO-END run_scheduler_loop() on a deterministic virtual clock with a normal
                source, a slow source (listing takes 0.734567 s, so schedules are
                evaluated at odd microseconds) and a source whose first listing
                raises (fault): every send must happen at an instant s with
                T <= s, and s < T + 1 s whenever T was still in the future when the
                schedule was evaluated.

Exit 0: property holds.  Exit 1: violated (explanation printed).
Run:  cd /tmp/wt/C14 && PYTHONPATH=/tmp/wt/C14 /venv/bin/python <this file>
"""
import asyncio
import heapq
import inspect
import os
import random
import sys
import time as _time
from datetime import datetime, timedelta, timezone, tzinfo
from typing import Any, List, Optional
from zoneinfo import ZoneInfo

import pytz

import taskiq.cli.scheduler.run as run
from taskiq.abc.schedule_source import ScheduleSource
from taskiq.scheduler.scheduled_task import ScheduledTask
from taskiq.scheduler.scheduler import TaskiqScheduler

UTC = timezone.utc
EPOCH = datetime(1970, 1, 1, tzinfo=UTC)
US = timedelta(microseconds=1)
SEC = 1_000_000
MINUTE = 60 * SEC
DAY = 86400 * SEC

_real_datetime = datetime
_CLOCK: List[Any] = [None]  # current instant, aware, UTC


class FrozenDatetime(_real_datetime):
    """datetime whose now()/utcnow() read the demo's clock."""

    @classmethod
    def now(cls, tz=None):  # type: ignore[override]
        inst = _CLOCK[0]
        if tz is None:
            return inst.astimezone().replace(tzinfo=None)
        return inst.astimezone(tz)

    @classmethod
    def utcnow(cls):  # type: ignore[override]
        return _CLOCK[0].astimezone(UTC).replace(tzinfo=None)


run.datetime = FrozenDatetime  # type: ignore[attr-defined]

FAILURES: List[str] = []


def fail(msg: str) -> None:
    if len(FAILURES) < 25:
        print("VIOLATION:", msg)
    FAILURES.append(msg)


def set_host_tz(name: str) -> None:
    os.environ["TZ"] = name
    _time.tzset()


# --------------------------------------------------------------------------- oracle
def to_us(value: datetime) -> int:
    """Instant of a datetime in integer microseconds (naive means UTC)."""
    if value.tzinfo is None or value.utcoffset() is None:
        value = value.replace(tzinfo=UTC)
    return (value - EPOCH) // US


def from_us(us: int) -> datetime:
    return EPOCH + us * US


def verdict(now_us: int, t_us: int, got: Any) -> Optional[str]:
    """None if `got` is what C14 allows for (now, T), else an explanation."""
    if t_us <= now_us:
        if got == 0 and isinstance(got, int) and not isinstance(got, bool):
            return None
        return f"T <= now, must be due immediately (0), got {got!r}"
    boundary = (now_us // MINUTE + 1) * MINUTE
    if t_us > boundary + SEC:
        if got is None:
            return None
        return (
            f"T is more than 1 s past the next minute boundary, must be left "
            f"for a later poll (None), got {got!r}"
        )
    if not isinstance(got, int) or isinstance(got, bool):
        return f"delay must be a whole number of seconds (int), got {got!r}"
    send = now_us + got * SEC
    if send < t_us:
        return f"EARLY: delay {got} s sends {(t_us - send) / SEC:.6f} s before T"
    if send >= t_us + SEC:
        return f"LATE: delay {got} s sends {(send - t_us) / SEC:.6f} s after T"
    return None


def mk_task(target: datetime, sid: str = "s") -> ScheduledTask:
    return ScheduledTask(
        task_name="demo:task",
        labels={},
        args=[],
        kwargs={},
        schedule_id=sid,
        time=target,
    )


# ------------------------------------------------------------------ zone renderings
class SubMinute(tzinfo):
    """Fixed zone with an offset that is not a whole number of minutes."""

    def utcoffset(self, dt):  # type: ignore[override]
        return timedelta(hours=2, minutes=30, seconds=17)

    def dst(self, dt):  # type: ignore[override]
        return timedelta(0)

    def tzname(self, dt):  # type: ignore[override]
        return "LMT+2:30:17"


def pytz_lmt(inst: datetime) -> datetime:
    """pytz zone attached with replace(): the (in)famous LMT offset."""
    zone = pytz.timezone("Europe/Moscow")
    naive = inst.astimezone(UTC).replace(tzinfo=None)
    off = naive.replace(tzinfo=zone).utcoffset()
    return (naive + off).replace(tzinfo=zone)


RENDERINGS = [
    ("naive(UTC)", lambda i: i.astimezone(UTC).replace(tzinfo=None)),
    ("timezone.utc", lambda i: i.astimezone(UTC)),
    ("pytz.UTC", lambda i: i.astimezone(pytz.UTC)),
    ("+05:30", lambda i: i.astimezone(timezone(timedelta(hours=5, minutes=30)))),
    ("-08:00", lambda i: i.astimezone(timezone(timedelta(hours=-8)))),
    ("pytz.FixedOffset(240)", lambda i: i.astimezone(pytz.FixedOffset(240))),
    ("pytz Europe/Berlin", lambda i: i.astimezone(pytz.timezone("Europe/Berlin"))),
    ("pytz America/New_York", lambda i: i.astimezone(pytz.timezone("America/New_York"))),
    ("zoneinfo Australia/Lord_Howe", lambda i: i.astimezone(ZoneInfo("Australia/Lord_Howe"))),
    ("zoneinfo Asia/Kathmandu", lambda i: i.astimezone(ZoneInfo("Asia/Kathmandu"))),
    ("zoneinfo Europe/London", lambda i: i.astimezone(ZoneInfo("Europe/London"))),
    ("sub-minute offset", lambda i: i.astimezone(SubMinute())),
    ("pytz LMT via replace()", pytz_lmt),
]


# ------------------------------------------------------------------------ 1. sweep
def nows(rng: random.Random, full: bool) -> List[int]:
    bases = [
        datetime(2024, 3, 10, 6, 59, tzinfo=UTC),  # US DST starts 07:00 UTC
        datetime(2024, 3, 31, 0, 59, tzinfo=UTC),  # EU DST starts 01:00 UTC
        datetime(2024, 10, 27, 0, 59, tzinfo=UTC),  # EU DST ends 01:00 UTC (fold)
        datetime(2023, 12, 31, 23, 59, tzinfo=UTC),  # year end
        datetime(2024, 2, 29, 12, 0, tzinfo=UTC),  # leap day
        datetime(2025, 6, 15, 8, 30, tzinfo=UTC),
    ]
    secs = [
        (0, 0), (0, 1), (0, 999_999), (1, 0), (1, 1), (29, 500_000),
        (58, 999_999), (59, 0), (59, 1), (59, 999_999),
    ]  # fmt: skip
    if not full:
        bases, secs = bases[1:4], secs[::3] + [secs[-1]]
    out = [to_us(b.replace(second=s, microsecond=u)) for b in bases for (s, u) in secs]
    lo, hi = to_us(datetime(2023, 1, 1, tzinfo=UTC)), to_us(datetime(2026, 1, 1, tzinfo=UTC))
    out += [rng.randrange(lo, hi) for _ in range(40 if full else 8)]
    return out


def targets(rng: random.Random, now_us: int, full: bool) -> List[int]:
    boundary = (now_us // MINUTE + 1) * MINUTE
    rel = [
        0, 1, -1, 999_999, -999_999, SEC, -SEC, SEC + 1, -SEC - 1, 15 * SEC,
        15 * SEC + 150_000, 59 * SEC, 60 * SEC, 61 * SEC, 61 * SEC + 1, 62 * SEC,
        3600 * SEC, -3600 * SEC, DAY, -DAY, 2 * DAY, -2 * DAY, 9 * 3600 * SEC,
        -9 * 3600 * SEC, 2 * DAY - 1, -2 * DAY + 1,
    ]  # fmt: skip
    out = [now_us + r for r in rel]
    out += [
        boundary - SEC, boundary - 1, boundary, boundary + 1, boundary + SEC - 1,
        boundary + SEC, boundary + SEC + 1, boundary + 2 * SEC,
    ]  # fmt: skip
    out += [now_us + rng.randrange(-70 * SEC, 70 * SEC) for _ in range(30 if full else 8)]
    out += [now_us + rng.randrange(-2 * DAY, 2 * DAY) for _ in range(12 if full else 4)]
    return out


def sweep(host_tz: str, full: bool) -> int:
    set_host_tz(host_tz)
    rng = random.Random(20240914)
    count = 0
    for now_us in nows(rng, full):
        _CLOCK[0] = from_us(now_us)
        for t_us in targets(rng, now_us, full):
            inst = from_us(t_us)
            for name, render in RENDERINGS:
                target = render(inst)
                if to_us(target) != t_us:  # sanity of the demo itself
                    raise AssertionError(f"rendering {name} changed the instant")
                task = mk_task(target)
                if task.time is not target and task.time != target:
                    raise AssertionError("model changed the value")
                got = run.get_task_delay(task)
                why = verdict(now_us, t_us, got)
                count += 1
                if why:
                    fail(
                        f"[host TZ {host_tz}] now={from_us(now_us).isoformat()} "
                        f"T={target.isoformat()} ({name}): {why}",
                    )
    return count


# ----------------------------------------------------------------------- 2. exotic
class NoOffset(tzinfo):
    """tzinfo that cannot tell its offset: python treats the value as naive."""

    def utcoffset(self, dt):  # type: ignore[override]
        return None

    def dst(self, dt):  # type: ignore[override]
        return None

    def tzname(self, dt):  # type: ignore[override]
        return "unknown"


def exotic() -> None:
    set_host_tz("JST-9")
    now = datetime(2024, 5, 5, 10, 20, 30, 400_000, tzinfo=UTC)
    _CLOCK[0] = now
    now_us = to_us(now)

    # (a) tzinfo set but utcoffset() is None -> naive by python's definition -> UTC.
    for rel in (-5 * SEC, 0, 1, 7 * SEC + 600_000, 29 * SEC + 600_000, 40 * SEC, DAY):
        target = from_us(now_us + rel).replace(tzinfo=NoOffset())
        try:
            got = run.get_task_delay(mk_task(target))
        except TypeError as exc:
            print(f"  offset-less tzinfo, T=now{rel / SEC:+.6f}s: TypeError ({exc})")
            continue
        why = verdict(now_us, now_us + rel, got)
        print(f"  offset-less tzinfo, T=now{rel / SEC:+.6f}s: delay={got!r}")
        if why:
            fail(f"offset-less tzinfo treated neither as error nor as UTC: {why}")

    # (b) extreme values.
    west, east = timezone(timedelta(hours=-12)), timezone(timedelta(hours=14))
    extremes = [
        ("datetime.min naive", _real_datetime.min, 0),
        ("datetime.min UTC+14 (before year 1 in UTC)", _real_datetime.min.replace(tzinfo=east), 0),
        ("datetime.max naive", _real_datetime.max, None),
        ("datetime.max UTC-12 (after year 9999 in UTC)", _real_datetime.max.replace(tzinfo=west), None),
    ]
    for name, target, want in extremes:
        try:
            got = run.get_task_delay(mk_task(target))
        except OverflowError as exc:
            print(f"  {name}: OverflowError ({exc})")
            continue
        print(f"  {name}: delay={got!r}")
        if got != want:
            fail(f"{name}: expected {want!r}, got {got!r}")

    # (c) explicit evaluation instant, if this version of the code has one.
    params = inspect.signature(run.get_task_delay).parameters
    if "now" not in params:
        print("  get_task_delay() has no `now` parameter in this version: skipped")
        return
    _CLOCK[0] = datetime(1999, 1, 1, tzinfo=UTC)  # must NOT be consulted
    helper = getattr(run, "get_time_delay", None)
    rng = random.Random(7)
    checked = 0
    for base in (now, datetime(2024, 3, 31, 0, 59, 59, 999_999, tzinfo=UTC)):
        b_us = to_us(base)
        for now_name, now_render in RENDERINGS:
            given_now = now_render(base)
            for t_us in targets(rng, b_us, False):
                for name, render in RENDERINGS[:4] + RENDERINGS[6:7]:
                    target = render(from_us(t_us))
                    results = [run.get_task_delay(mk_task(target), now=given_now)]
                    if helper is not None:  # new public helper, same contract
                        results.append(helper(target, given_now))
                    for got in results:
                        why = verdict(b_us, t_us, got)
                        checked += 1
                        if why:
                            fail(
                                f"explicit now={given_now.isoformat()} ({now_name}) "
                                f"T={target.isoformat()} ({name}): {why}",
                            )
    print(f"  explicit `now` argument: {checked} evaluations checked")


# ------------------------------------------------------------------- 3. end-to-end
class AsyncioProxy:
    """`asyncio` as seen by the scheduler module: sleep() runs on virtual time."""

    def __init__(self, sleep: Any) -> None:
        self.sleep = sleep

    def __getattr__(self, item: str) -> Any:
        return getattr(asyncio, item)


class Source(ScheduleSource):
    def __init__(self, name: str, tasks: List[ScheduledTask], latency: float = 0.0,
                 failing_polls: Any = ()) -> None:
        self.name = name
        self.tasks = list(tasks)
        self.latency = latency
        self.failing_polls = set(failing_polls)
        self.polls = 0

    async def get_schedules(self) -> List[ScheduledTask]:
        self.polls += 1
        if self.latency:
            await run.asyncio.sleep(self.latency)
        if self.polls in self.failing_polls:
            raise ConnectionError(f"{self.name}: listing failed (injected fault)")
        return list(self.tasks)

    def post_send(self, task: ScheduledTask) -> None:
        self.tasks = [t for t in self.tasks if t.schedule_id != task.schedule_id]

    def __repr__(self) -> str:
        return f"<Source {self.name}>"


async def end_to_end() -> None:
    set_host_tz("JST-9")
    start = datetime(2024, 3, 31, 0, 58, 37, 250_000, tzinfo=UTC)
    _CLOCK[0] = start
    heap: List[Any] = []
    seq = [0]
    loop = asyncio.get_running_loop()
    real_sleep = asyncio.sleep

    async def vsleep(delay: float, result: Any = None) -> Any:
        if delay <= 0:
            await real_sleep(0)
            return result
        fut = loop.create_future()
        seq[0] += 1
        heapq.heappush(heap, (_CLOCK[0] + timedelta(seconds=delay), seq[0], fut))
        await fut
        return result

    run.asyncio = AsyncioProxy(vsleep)  # type: ignore[attr-defined]

    berlin = pytz.timezone("Europe/Berlin")
    s0 = to_us(start)

    def at(us: int) -> datetime:
        return from_us(us)

    wanted = {
        "a-naive+5.4s": at(s0 + 5_400_000).replace(tzinfo=None),
        "a-boundary-berlin": at(to_us(datetime(2024, 3, 31, 0, 59, tzinfo=UTC))).astimezone(berlin),
        "a-kathmandu-00:59:30.000001": at(
            to_us(datetime(2024, 3, 31, 0, 59, 30, 1, tzinfo=UTC)),
        ).astimezone(ZoneInfo("Asia/Kathmandu")),
        "a-berlin-after-dst-01:00:00.5": at(
            to_us(datetime(2024, 3, 31, 1, 0, 0, 500_000, tzinfo=UTC)),
        ).astimezone(berlin),
        "a-past-3s": at(s0 - 3 * SEC).astimezone(timezone(timedelta(hours=-8))),
        "a-minus8-01:01:45": at(
            to_us(datetime(2024, 3, 31, 1, 1, 45, tzinfo=UTC)),
        ).astimezone(timezone(timedelta(hours=-8))),
        "b-slow-00:59:20.3": at(
            to_us(datetime(2024, 3, 31, 0, 59, 20, 300_000, tzinfo=UTC)),
        ).replace(tzinfo=None),
        "b-slow-01:00:59.999999": at(
            to_us(datetime(2024, 3, 31, 1, 0, 59, 999_999, tzinfo=UTC)),
        ).astimezone(pytz.UTC),
        "c-missed-by-failed-poll-00:58:50": at(
            to_us(datetime(2024, 3, 31, 0, 58, 50, tzinfo=UTC)),
        ).astimezone(ZoneInfo("Europe/London")),
        "c-after-failed-poll-00:59:10.000001": at(
            to_us(datetime(2024, 3, 31, 0, 59, 10, 1, tzinfo=UTC)),
        ).replace(tzinfo=None),
    }
    tasks = {sid: mk_task(t, sid) for sid, t in wanted.items()}
    src_a = Source("A", [t for s, t in tasks.items() if s.startswith("a-")])
    src_b = Source("B-slow", [t for s, t in tasks.items() if s.startswith("b-")], latency=0.734567)
    src_c = Source("C-faulty", [t for s, t in tasks.items() if s.startswith("c-")],
                   failing_polls={1})

    evaluations: List[Any] = []  # (sid, eval instant us, delay)
    sends: List[Any] = []  # (sid, send instant us)

    original = run.get_task_delay

    def recording(task: ScheduledTask, *args: Any, **kwargs: Any) -> Optional[int]:
        got = original(task, *args, **kwargs)
        evaluations.append((task.schedule_id, to_us(_CLOCK[0]), got))
        return got

    run.get_task_delay = recording  # type: ignore[assignment]

    class Scheduler(TaskiqScheduler):
        def __init__(self) -> None:
            self.sources = [src_a, src_b, src_c]

        async def on_ready(self, source: Any, task: ScheduledTask) -> None:
            sends.append((task.schedule_id, to_us(_CLOCK[0])))
            source.post_send(task)

    main = loop.create_task(run.run_scheduler_loop(Scheduler()))
    until = datetime(2024, 3, 31, 1, 3, 0, tzinfo=UTC)
    while True:
        for _ in range(60):
            await real_sleep(0)
        if main.done():
            fail(f"scheduler loop died: {main.exception()!r}")
            break
        if not heap or heap[0][0] > until:
            break
        wake, _, fut = heapq.heappop(heap)
        _CLOCK[0] = wake
        if not fut.done():
            fut.set_result(None)
    main.cancel()
    try:
        await main
    except BaseException:  # noqa: BLE001
        pass
    run.get_task_delay = original  # type: ignore[assignment]
    run.asyncio = asyncio  # type: ignore[attr-defined]

    # Every evaluation obeys the case analysis ...
    for sid, at_us, got in evaluations:
        why = verdict(at_us, to_us(wanted[sid]), got)
        if why:
            fail(f"end-to-end: {sid} evaluated at {from_us(at_us).isoformat()}: {why}")
    # ... and every send is the consequence of one evaluation: on time.
    spawned = sorted((sid, at_us + got * SEC) for sid, at_us, got in evaluations if got is not None)
    if sorted(sends) != spawned:
        fail(f"end-to-end: sends {sorted(sends)} differ from evaluations {spawned}")
    sent_ids = {sid for sid, _ in sends}
    for sid, target in wanted.items():
        if sid not in sent_ids:
            fail(f"end-to-end: {sid} was never sent")
    for sid, s_us in sends:
        t_us = to_us(wanted[sid])
        late = (s_us - t_us) / SEC
        future_when_evaluated = any(
            e_sid == sid and got is not None and e_at + got * SEC == s_us and t_us > e_at
            for e_sid, e_at, got in evaluations
        )
        print(
            f"  {sid:40s} T={from_us(t_us).time().isoformat()}  "
            f"sent={from_us(s_us).time().isoformat()}  ({late:+.6f} s)",
        )
        if s_us < t_us:
            fail(f"end-to-end: {sid} sent {-late:.6f} s EARLY")
        if future_when_evaluated and s_us >= t_us + SEC:
            fail(f"end-to-end: {sid} sent {late:.6f} s LATE")
    if src_c.polls < 2 or src_b.polls < 2:
        fail("end-to-end: the scenario did not poll the sources repeatedly")


def main() -> int:
    started = _time.monotonic()
    total = 0
    for host_tz, full in (("UTC", True), ("JST-9", True), ("NST+3:30", True)):
        done = sweep(host_tz, full)
        total += done
        print(f"sweep on host TZ {host_tz:9s}: {done} evaluations checked")
    print("exotic values:")
    exotic()
    print("end-to-end on a virtual clock (host TZ JST-9):")
    asyncio.run(end_to_end())
    print(f"{total} sweep evaluations, {_time.monotonic() - started:.1f} s")
    if FAILURES:
        print(f"C14 VIOLATED: {len(FAILURES)} failure(s)")
        return 1
    print("C14 holds in all scenarios")
    return 0


if __name__ == "__main__":
    sys.exit(main())
