"""
Demo / property check for C05 (graceful shutdown drains accepted work and terminates).

Runs the real Receiver.listen() against an instrumented in-process broker in a
number of scenarios and checks, for each of them, the clauses of C05:

  (a) after the stop event is set the worker takes at most ONE further message
      from the broker;
  (b) every message it has taken is run to completion INCLUDING its
      acknowledgement, and only then listen() returns ...
  (c) ... unless wait_tasks_timeout has elapsed (then it may return with tasks
      still running, but not earlier than the timeout);
  (d) once everything has finished, or the timeout has elapsed, listen()
      returns promptly;
  (e) with max_tasks_to_execute=N exactly N messages are taken, then the same
      shutdown happens without any stop event.

Groups 1, 2, 7, 7b and 8 concentrate on Receiver.prefetcher (the place changed by
keep2): the instant of the stop request is swept over a steady stream of
arrivals for several (max_async_tasks, max_prefetch) configurations, messages
arrive at the same moment as / just after the stop request, the broker closes
its stream or fails while the look-ahead fetch is pending, and no helper task
may be left behind.  Groups 3-6 cover the drain step (faults, never-ending tasks,
wait_tasks_timeout, max_tasks_to_execute).

Exit code 0 -> all scenarios satisfy C05.  Exit code 1 -> a violation (printed).
Must exit 0 on the original code and on the changed code.
"""

import asyncio
import logging
import sys
import time
from typing import Any, AsyncGenerator, Dict, List, Optional, Sequence, Set, Tuple

from taskiq import AsyncBroker, BrokerMessage
from taskiq.acks import AckableMessage, AcknowledgeType
from taskiq.receiver import Receiver

# Granularity with which the prefetcher is allowed to notice the stop event
# (the implementation polls with a 0.3s timeout) and scheduling slack.
POLL = 0.3
SLACK = 0.45
EPS = 0.02
HARD_DEADLINE = 12.0

FAILURES: List[str] = []


class CountingHandler(logging.Handler):
    """Collects log records of the receiver (informational only)."""

    def __init__(self) -> None:
        super().__init__()
        self.records: List[logging.LogRecord] = []

    def emit(self, record: logging.LogRecord) -> None:
        self.records.append(record)


class DemoBroker(AsyncBroker):
    """Broker over asyncio.Queue that records takes and acknowledgements."""

    def __init__(
        self,
        fail_ack_for: Sequence[int] = (),
        end_after: Optional[int] = None,
        raise_after: Optional[int] = None,
    ) -> None:
        super().__init__()
        self.end_after = end_after
        self.raise_after = raise_after
        self.stream_end_time: Optional[float] = None
        self.queue: "asyncio.Queue[Tuple[int, bytes]]" = asyncio.Queue()
        self.stop_event = asyncio.Event()
        self.seq = 0
        self.taken: List[Tuple[int, float, bool]] = []  # (num, time, after_stop)
        self.acked: Dict[int, float] = {}
        self.ack_attempts: Dict[int, float] = {}
        self.fail_ack_for = set(fail_ack_for)
        self.started: Dict[int, float] = {}
        self.finished: Dict[int, float] = {}

    async def kick(self, message: BrokerMessage) -> None:
        self.seq += 1
        await self.queue.put((self.seq, message.message))

    def _make_ack(self, num: int) -> Any:
        async def _ack() -> None:
            self.ack_attempts[num] = time.monotonic()
            if num in self.fail_ack_for:
                raise ConnectionError(f"broker connection lost while acking {num}")
            self.acked[num] = time.monotonic()

        return _ack

    async def listen(self) -> AsyncGenerator[AckableMessage, None]:
        while True:
            if self.end_after is not None and len(self.taken) >= self.end_after:
                # the broker closes the stream: listen() must shut down gracefully
                self.stream_end_time = time.monotonic()
                return
            if self.raise_after is not None and len(self.taken) >= self.raise_after:
                self.stream_end_time = time.monotonic()
                raise ConnectionError("broker went away")
            num, data = await self.queue.get()
            self.taken.append((num, time.monotonic(), self.stop_event.is_set()))
            yield AckableMessage(data=data, ack=self._make_ack(num))


def fail(scenario: str, text: str) -> None:
    FAILURES.append(f"[{scenario}] {text}")
    print(f"  FAIL (C05) [{scenario}]: {text}")


async def run_scenario(  # noqa: C901, PLR0912, PLR0915
    name: str,
    jobs: Sequence[Tuple[float, str, float]],
    *,
    max_async_tasks: Optional[int],
    max_prefetch: int = 0,
    max_tasks_to_execute: Optional[int] = None,
    wait_tasks_timeout: Optional[float] = None,
    stop_at: Optional[float] = None,
    stop_in_job: Optional[int] = None,
    fail_ack_for: Sequence[int] = (),
    ack_type: Optional[AcknowledgeType] = None,
    never_ending: Sequence[int] = (),
    end_after: Optional[int] = None,
    raise_after: Optional[int] = None,
) -> None:
    """
    Run one scenario.

    :param jobs: (arrival offset, kind, duration); the n-th entry is job n (1-based).
        kinds: sleep / raise / forever / sync.
    :param stop_at: offset at which the stop event is set (None - never).
    :param stop_in_job: job number which sets the stop event when it starts.
    :param never_ending: jobs which never end (for the expectations).
    """
    broker = DemoBroker(
        fail_ack_for=fail_ack_for,
        end_after=end_after,
        raise_after=raise_after,
    )

    @broker.task(task_name=f"demo_job_{name}")
    async def job(num: int, kind: str, dur: float) -> int:
        broker.started[num] = time.monotonic()
        if stop_in_job == num:
            broker.stop_event.set()
        if kind == "forever":
            await asyncio.Event().wait()
        await asyncio.sleep(dur)
        broker.finished[num] = time.monotonic()
        if kind == "raise":
            raise ValueError(f"job {num} failed")
        return num

    @broker.task(task_name=f"demo_sync_job_{name}")
    def sync_job(num: int, kind: str, dur: float) -> int:
        broker.started[num] = time.monotonic()
        time.sleep(dur)
        broker.finished[num] = time.monotonic()
        return num

    receiver = Receiver(
        broker,
        max_async_tasks=max_async_tasks,
        max_prefetch=max_prefetch,
        max_tasks_to_execute=max_tasks_to_execute,
        wait_tasks_timeout=wait_tasks_timeout,
        run_startup=False,
        ack_type=ack_type,
    )

    t0 = time.monotonic()

    async def feeder() -> None:
        for idx, (offset, kind, dur) in enumerate(jobs, start=1):
            delay = t0 + offset - time.monotonic()
            if delay > 0:
                await asyncio.sleep(delay)
            if kind == "sync":
                await sync_job.kiq(idx, kind, dur)
            else:
                await job.kiq(idx, kind, dur)

    async def stopper() -> None:
        if stop_at is None:
            return
        delay = t0 + stop_at - time.monotonic()
        if delay > 0:
            await asyncio.sleep(delay)
        broker.stop_event.set()

    # Everything with a non-positive offset is a backlog present before listening.
    feed_task = asyncio.create_task(feeder())
    await asyncio.sleep(0)
    stop_task = asyncio.create_task(stopper())
    listen_task = asyncio.create_task(receiver.listen(broker.stop_event))

    stop_time: Optional[float] = None

    async def watch_stop() -> None:
        nonlocal stop_time
        await broker.stop_event.wait()
        stop_time = time.monotonic()

    watch_task = asyncio.create_task(watch_stop())

    returned = True
    try:
        await asyncio.wait_for(asyncio.shield(listen_task), timeout=HARD_DEADLINE)
    except asyncio.TimeoutError:
        returned = False
    except BaseException as exc:
        if raise_after is None:
            fail(name, f"listen() raised {exc!r}")
    t_return = time.monotonic()
    # Snapshot of the state at the instant listen() returned.
    acked_at_return = dict(broker.acked)
    attempts_at_return = dict(broker.ack_attempts)
    taken = list(broker.taken)

    for aux in (feed_task, stop_task, watch_task, listen_task):
        aux.cancel()
    await asyncio.gather(feed_task, stop_task, watch_task, listen_task, return_exceptions=True)
    # Get rid of never-ending callbacks so that the loop can be closed quietly.
    # (Only the callbacks of THIS receiver: scenarios may run concurrently.)
    for pending_task in asyncio.all_tasks():
        if pending_task is not asyncio.current_task():
            coro = pending_task.get_coro()
            coro_name = getattr(coro, "__qualname__", "")
            frame = getattr(coro, "cr_frame", None)
            if (
                "Receiver.callback" in coro_name
                and frame is not None
                and frame.f_locals.get("self") is receiver
            ):
                pending_task.cancel()
    await asyncio.sleep(0)

    # No helper task of the receiver may be left behind.
    stray = [
        repr(t)
        for t in asyncio.all_tasks()
        if getattr(t.get_coro(), "__qualname__", "") == "Event.wait"
        and getattr(t.get_coro(), "cr_frame", None) is not None
        and t.get_coro().cr_frame.f_locals.get("self") is broker.stop_event
    ]
    if stray:
        fail(name, f"tasks waiting for the stop event were left behind: {stray}")

    taken_nums = [num for num, _, _ in taken]
    taken_after_stop = [num for num, _, after in taken if after]

    if not returned:
        fail(name, f"listen() did not return within {HARD_DEADLINE}s (taken={taken_nums})")
        return

    if raise_after is not None:
        # The broker itself failed: this is outside of C05 (listen() propagates the
        # error); we only check that nothing hangs and nothing is left behind.
        if broker.stream_end_time is None or t_return > broker.stream_end_time + POLL + SLACK:
            fail(name, "listen() did not fail promptly after the broker error")
        print(f"  ok? {name}: listen() propagated the broker error, taken={taken_nums}")
        return

    # --- (e) exactly N messages with max_tasks_to_execute -------------------
    if max_tasks_to_execute and stop_at is None and stop_in_job is None:
        if len(taken) != max_tasks_to_execute:
            fail(
                name,
                f"max_tasks_to_execute={max_tasks_to_execute} but {len(taken)} "
                f"messages were taken from the broker ({taken_nums})",
            )
    if max_tasks_to_execute and len(taken) > max_tasks_to_execute:
        fail(name, f"more than N={max_tasks_to_execute} messages taken: {taken_nums}")

    # --- (a) at most one further message after the stop request -------------
    if len(taken_after_stop) > 1:
        fail(
            name,
            f"{len(taken_after_stop)} messages taken after the stop request "
            f"({taken_after_stop}); at most one is allowed",
        )

    # The instant at which shutdown began.
    if max_tasks_to_execute and len(taken) >= max_tasks_to_execute:
        quota_time = taken[max_tasks_to_execute - 1][1]
        shutdown_t = min(quota_time, stop_time) if stop_time else quota_time
    elif broker.stream_end_time is not None:
        shutdown_t = broker.stream_end_time
        if stop_time is not None:
            shutdown_t = min(shutdown_t, stop_time)
    elif stop_time is not None:
        shutdown_t = stop_time
    else:
        fail(name, "listen() returned although no shutdown was requested")
        return

    # --- (b)/(c) drained: every taken message completed and acknowledged ----
    unfinished: Set[int] = set()
    for num in taken_nums:
        if num not in attempts_at_return:
            unfinished.add(num)
    for num in taken_nums:
        if num in attempts_at_return and num not in broker.fail_ack_for:
            if num not in acked_at_return:
                fail(name, f"message {num}: ack started but not finished at return")
    if unfinished:
        if wait_tasks_timeout is None:
            fail(
                name,
                f"listen() returned while accepted messages {sorted(unfinished)} were "
                "not yet completed/acknowledged and no wait_tasks_timeout is configured",
            )
        elif t_return < shutdown_t + wait_tasks_timeout - EPS:
            fail(
                name,
                f"listen() returned {t_return - shutdown_t:.3f}s after shutdown began with "
                f"{sorted(unfinished)} unfinished, before wait_tasks_timeout="
                f"{wait_tasks_timeout} elapsed",
            )
        unexpected = unfinished - set(never_ending)
        late = {
            n
            for n in unexpected
            # finite jobs that simply could not finish before the timeout are fine
            if n in broker.started
        }
        not_started = unexpected - late
        if not_started:
            fail(name, f"accepted messages {sorted(not_started)} were never started")
    else:
        for num in never_ending:
            if num in taken_nums:
                fail(name, f"bookkeeping: never-ending job {num} reported as complete")

    # --- (d) promptness -------------------------------------------------------
    finite_done = [
        attempts_at_return.get(num, float("inf"))
        for num in taken_nums
        if num not in never_ending
    ]
    if any(num in never_ending for num in taken_nums):
        all_done_t = float("inf")
    else:
        all_done_t = max(finite_done) if finite_done else shutdown_t
    allowed = all_done_t
    if wait_tasks_timeout is not None:
        # the drain starts at most POLL (+ the hand-over of one further message)
        # after the shutdown began.
        allowed = min(allowed, shutdown_t + POLL + wait_tasks_timeout)
    allowed = max(allowed, shutdown_t + POLL)
    if t_return > allowed + SLACK:
        fail(
            name,
            f"listen() returned {t_return - allowed:.3f}s after it was allowed to "
            "(not prompt)",
        )

    extra = getattr(receiver, "unfinished_tasks", "n/a")
    print(
        f"  ok? {name}: taken={taken_nums} after_stop={taken_after_stop} "
        f"acked={sorted(acked_at_return)} unfinished_at_return={sorted(unfinished)} "
        f"returned {t_return - shutdown_t:.2f}s after shutdown began "
        f"(receiver.unfinished_tasks={extra})",
    )


async def main() -> int:  # noqa: PLR0915
    handler = CountingHandler()
    rlog = logging.getLogger("taskiq.receiver.receiver")
    rlog.addHandler(handler)
    rlog.setLevel(logging.INFO)
    rlog.propagate = False
    # "Task exception was never retrieved" noise from crashed callbacks.
    logging.getLogger("asyncio").setLevel(logging.CRITICAL)

    print("1. backlog, one task at a time, stop requested from inside a running task")
    for stop_job in (1, 2, 4):
        await run_scenario(
            f"backlog-stop-in-{stop_job}",
            [(0, "sleep", 0.03)] * 8,
            max_async_tasks=1,
            stop_in_job=stop_job,
        )

    print("2. idle broker: nothing to drain, must return promptly")
    await run_scenario("idle", [], max_async_tasks=2, stop_at=0.2)

    print("3. long tasks in flight, no timeout: must wait for all of them")
    await run_scenario(
        "long-no-timeout",
        [(0, "sleep", 1.2), (0, "sleep", 0.1), (0, "sleep", 0.7)],
        max_async_tasks=5,
        stop_at=0.15,
    )
    await run_scenario(
        "long-unlimited-async",
        [(0, "sleep", 0.9), (0.05, "raise", 0.2), (0.1, "sync", 0.3)],
        max_async_tasks=None,
        max_prefetch=2,
        stop_at=0.2,
    )

    print("4. a callback crashes (ack raises) during the drain, others still run")
    await run_scenario(
        "ack-fault-during-drain",
        [(0, "sleep", 0.4), (0, "sleep", 1.3), (0, "sleep", 0.9)],
        max_async_tasks=5,
        stop_at=0.1,
        fail_ack_for=[1],
    )
    await run_scenario(
        "ack-fault-when-executed",
        [(0, "raise", 0.3), (0, "sleep", 1.0)],
        max_async_tasks=5,
        stop_at=0.1,
        fail_ack_for=[1],
        ack_type=AcknowledgeType.WHEN_EXECUTED,
    )
    await run_scenario(
        "ack-fault-with-timeout",
        [(0, "sleep", 0.2), (0, "sleep", 0.8), (0, "forever", 0)],
        max_async_tasks=5,
        stop_at=0.1,
        fail_ack_for=[1],
        wait_tasks_timeout=1.5,
        never_ending=[3],
    )

    print("5. never-ending tasks and wait_tasks_timeout")
    await run_scenario(
        "forever-timeout",
        [(0, "forever", 0), (0, "sleep", 0.2), (0, "sleep", 0.5)],
        max_async_tasks=4,
        stop_at=0.1,
        wait_tasks_timeout=1.0,
        never_ending=[1],
    )
    await run_scenario(
        "timeout-not-needed",
        [(0, "sleep", 0.5), (0, "sleep", 0.2)],
        max_async_tasks=4,
        stop_at=0.1,
        wait_tasks_timeout=5.0,
    )
    await run_scenario(
        "timeout-shorter-than-task",
        [(0, "sleep", 2.0), (0, "sleep", 0.1)],
        max_async_tasks=None,
        stop_at=0.1,
        wait_tasks_timeout=0.6,
        never_ending=[],
    )

    print("6. max_tasks_to_execute = N")
    for conc, prefetch, quota in ((1, 0, 1), (1, 0, 3), (2, 2, 4), (None, 1, 5), (3, 0, 2)):
        await run_scenario(
            f"quota-A{conc}-P{prefetch}-N{quota}",
            [(0, "sleep", 0.05 + 0.03 * (i % 3)) for i in range(9)],
            max_async_tasks=conc,
            max_prefetch=prefetch,
            max_tasks_to_execute=quota,
        )
    await run_scenario(
        "quota-with-forever-and-timeout",
        [(0, "sleep", 0.1), (0, "forever", 0), (0, "sleep", 0.3), (0, "sleep", 0.1)],
        max_async_tasks=5,
        max_tasks_to_execute=3,
        wait_tasks_timeout=0.8,
        never_ending=[2],
    )
    await run_scenario(
        "quota-ack-fault",
        [(0, "sleep", 0.1), (0, "sleep", 0.9), (0, "sleep", 0.3), (0, "sleep", 0.1)],
        max_async_tasks=5,
        max_tasks_to_execute=3,
        fail_ack_for=[1],
    )

    print("7. arrivals racing with the stop request on an otherwise idle broker")
    for arrival in (0.2, 0.21, 0.26, 0.4, 0.49, 0.52):
        await run_scenario(
            f"race-arrival-{arrival}",
            [(arrival, "sleep", 0.3), (arrival + 0.02, "sleep", 0.1), (0.6, "sleep", 0.1)],
            max_async_tasks=3,
            max_prefetch=1,
            stop_at=0.2,
        )

    print("7b. the broker closes its stream / fails (look-ahead fetch ends with an error)")
    await run_scenario(
        "stream-ends-after-3",
        [(0, "sleep", 0.5), (0, "sleep", 0.1), (0.1, "sleep", 0.8), (0.1, "sleep", 0.1)],
        max_async_tasks=4,
        max_prefetch=1,
        end_after=3,
    )
    await run_scenario(
        "stream-ends-then-stop",
        [(0, "sleep", 0.6), (0, "sleep", 0.1)],
        max_async_tasks=4,
        end_after=2,
        stop_at=0.2,
    )
    await run_scenario(
        "broker-fails-after-2",
        [(0, "sleep", 0.3), (0, "sleep", 0.1), (0.1, "sleep", 0.1)],
        max_async_tasks=4,
        raise_after=2,
    )

    print("8. sweep of the stop instant over a steady stream (scenarios run concurrently)")
    durations = (0.05, 0.2, 0.4, 0.1)
    stream = [(0, "sleep", 0.25), (0, "sleep", 0.05), (0, "sleep", 0.12)] + [
        (0.07 * i, "sleep", durations[i % 4]) for i in range(1, 15)
    ]
    stops = (0.0, 0.03, 0.1, 0.17, 0.25, 0.31, 0.38, 0.5, 0.62, 0.8)
    for conc, prefetch in ((1, 0), (2, 1), (None, 0), (3, 3)):
        await asyncio.gather(
            *[
                run_scenario(
                    f"sweep-A{conc}-P{prefetch}-stop{stop}",
                    stream,
                    max_async_tasks=conc,
                    max_prefetch=prefetch,
                    stop_at=stop,
                )
                for stop in stops
            ],
        )
    # the same with a never-ending task in the stream and a wait_tasks_timeout
    forever_stream = list(stream)
    forever_stream[1] = (0, "forever", 0)
    await asyncio.gather(
        *[
            run_scenario(
                f"sweep-forever-timeout-stop{stop}",
                forever_stream,
                max_async_tasks=None,
                max_prefetch=1,
                stop_at=stop,
                wait_tasks_timeout=0.5,
                never_ending=[2],
            )
            for stop in stops
        ],
    )
    # and with a quota that may or may not be reached before the stop request
    await asyncio.gather(
        *[
            run_scenario(
                f"sweep-quota6-stop{stop}",
                stream,
                max_async_tasks=2,
                max_prefetch=1,
                max_tasks_to_execute=6,
                stop_at=stop,
            )
            for stop in stops
        ],
    )

    warnings = [r.getMessage() for r in handler.records if r.levelno >= logging.WARNING]
    print(f"receiver warnings emitted during the demo: {len(warnings)}")
    for text in sorted(set(warnings)):
        print(f"   - {text}")

    if FAILURES:
        print(f"\nC05 VIOLATED in {len(FAILURES)} check(s):")
        for text in FAILURES:
            print("  " + text)
        return 1
    print("\nOK: C05 holds in all scenarios.")
    return 0


if __name__ == "__main__":
    started_at = time.monotonic()
    code = asyncio.run(main())
    print(f"(demo took {time.monotonic() - started_at:.1f}s)")
    sys.exit(code)
