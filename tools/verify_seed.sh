#!/bin/sh
# tools/verify_seed.sh <seed-dir>   : confirm a seeded change in the scratch worktree $SEED_WT (default /tmp/wt/verify; outside /repo and /verif)
# prints: apply ok / tests N passed / demo with patch exit / demo without patch exit
D=$(cd "$1" && pwd); W=${SEED_WT:-/tmp/wt/verify}
cd $W && git checkout -q -- . && git apply "$D/patch.diff" || { echo "APPLY FAILED"; exit 2; }
T=$(PYTHONPATH=$W /venv/bin/python -m pytest -q -p no:cacheprovider --timeout=900 --continue-on-collection-errors 2>&1 | tail -1)
PYTHONPATH=$W timeout 120 /venv/bin/python "$D/demo.py" > $W.demo_with.txt 2>&1; WITH=$?
git checkout -q -- .
PYTHONPATH=$W timeout 120 /venv/bin/python "$D/demo.py" > $W.demo_without.txt 2>&1; WITHOUT=$?
echo "tests: $T | demo with patch: exit $WITH | demo without patch: exit $WITHOUT"
tail -3 $W.demo_with.txt | cut -c1-300
