"""Unit `retry`: taskiq/middlewares/retry_middleware.py::SimpleRetryMiddleware.on_error — C11 (bounded retries).

Contract (DESIGN A.5), from the statement: with r = int(labels.get("_retries", 0)), m = int(labels.get("max_retries", default)),
en = the retry flag after the str/None normalisation:
   a re-send happens  iff  not isinstance(exc, NoResultError) and en and r + 1 < m ;
   the re-sent call has the same task id, task name, args, kwargs and the message's labels with _retries = r + 1 ;
   result.error becomes a NoResultError iff re-sent and no_result_on_retry, otherwise result is untouched.
Lemma (induction over attempts, pure arithmetic over this contract + the label round trip of C09): attempt k carries _retries = k-1,
a further attempt exists iff attempt k failed, retry is enabled and k < m; hence #executions <= max(1, m), never more.
The AsyncKicker chain is used through the contracts proved by unit u_kicker (labels copied, with_labels merges, kiq sends them)."""
import ast
from z3 import *
from pyvc.core import *

PROPS = ['C11']
REPLAY = {'driver': 'retry'}
REL = 'taskiq/middlewares/retry_middleware.py'
TRUSTED = [
    "labels arrive parsed (C09): _retries and max_retries, when present, are ints; retry_on_error is a bool, a str or absent",
    "int(i) == i for ints; str.lower() is uninterpreted ('true' comparison as written)",
    "AsyncKicker(task_name, broker, labels).with_task_id(i).with_labels(**l).kiq(*a, **k) sends one message with that id/name/args/kwargs and labels = labels updated with l (unit u_kicker), and may raise",
    "the re-sent message is decoded by the next worker to the same label values (C09 round trip), so attempt k+1 reads _retries = (value sent by attempt k)",
]


def generate(src):
    fdef = src.func(REL, 'SimpleRetryMiddleware.on_error')
    RP = {'driver': 'retry'}
    for n, p in [('TaskiqError', 'Exception'), ('NoResultError', 'TaskiqError')]: CLS.add(n, p)
    int_ = Function('py_int', Val, Val); lower_ = Function('str_lower', Val, Val)
    self_a, msg_a, labels_a, res_a, margs_a, mkw_a = Ints('self_a msg_a labels_a res_a margs_a mkw_a')
    exc = fresh('exception')
    K_RET, K_MAX, K_ROE = STR.get('_retries'), STR.get('max_retries'), STR.get('retry_on_error'); TRUE_S = STR.get('true')
    def h_isinstance(ex, st, e, recv, args, kw, k, K):
        what = ast.unparse(e.args[1]); v = to_val(args[0])
        if what == 'NoResultError': return k(st, PyBool(And(Val.is_ref(v), CLS.sub_expr(st.heap.cls_of[Val.a(v)], 'NoResultError'))))
        if what == 'str': return k(st, PyBool(Val.is_strv(v)))
        raise Unsupported(what)
    def h_dict_get(ex, st, e, d, args, kw, k, K):
        kx = to_val(args[0]); dflt = to_val(args[1]) if len(args) > 1 else Val.none
        return k(st, If(st.heap.dhas[d.addr][kx], st.heap.dval[d.addr][kx], dflt))
    def h_int(ex, st, e, recv, args, kw, k, K):
        v = to_val(args[0]); r = int_(v)
        st.facts.append(Implies(Val.is_intv(v), r == v)); st.pc.append(Val.is_intv(r)); return k(st, PyInt(Val.i(r)))      # int(i)==i ; int() returns an int (ValueError path omitted: labels come from prepare/parse)
    def h_lower(ex, st, e, recv, args, kw, k, K): return k(st, lower_(to_val(recv)))
    str_ = Function('py_str', Val, Val)
    def h_str(ex, st, e, recv, args, kw, k, K):
        v = to_val(args[0]); r = str_(v); st.pc += [Implies(Val.is_strv(v), r == v), Val.is_strv(r)]; return k(st, r)          # str(s) is s for a str
    def h_parse_label(ex, st, e, recv, args, kw, k, K):
        """the middleware delegates the meaning of a string label to taskiq.labels.parse_label(v, LabelType.BOOL): the REAL table entry of
        taskiq/labels.py is executed here (parse_label's dispatch through _LABEL_PARSERS is the contract of unit u_labels)."""
        if len(args) != 2 or kw or not (isinstance(args[1], PyCallable) and args[1].name == 'LabelType.BOOL'): raise Unsupported("parse_label call shape: " + ast.unparse(e))
        tn = [n_ for n_ in src.tree('taskiq/labels.py').body if isinstance(n_, (ast.Assign, ast.AnnAssign)) and '_LABEL_PARSERS' in ast.unparse(n_.targets[0] if isinstance(n_, ast.Assign) else n_.target)]
        if not tn or not isinstance(tn[0].value, ast.Dict): raise Unsupported("table _LABEL_PARSERS not found as a dict display")
        ent = [v for k_, v in zip(tn[0].value.keys, tn[0].value.values) if ast.unparse(k_) == 'LabelType.BOOL']
        if len(ent) != 1 or not isinstance(ent[0], ast.Lambda) or len(ent[0].args.args) != 1: raise Unsupported("_LABEL_PARSERS[LabelType.BOOL] is not a one-argument lambda")
        src.func('taskiq/labels.py', 'parse_label')          # recorded as source under contract (hash in the evidence)
        saved = st.env; st.env = {ent[0].args.args[0].arg: args[0]}
        def back(s, v): s.env = saved; return k(s, v)
        return ex.ev(ent[0].body, st, back, K)
    class Kicker:
        def __init__(s, **f): s.__dict__.update(f)
    def h_AsyncKicker(ex, st, e, recv, args, kw, k, K):
        return k(st, Kicker(task_name=kw['task_name'], broker=kw['broker'], labels=kw['labels'], task_id=None, extra={}))
    def h_with_task_id(ex, st, e, recv, args, kw, k, K): recv.task_id = to_val(args[0]); return k(st, recv)
    def h_with_labels(ex, st, e, recv, args, kw, k, K): recv.extra = dict(recv.extra); recv.extra.update({kk: to_val(v) for kk, v in kw.items()}); return k(st, recv)
    def h_kiq(ex, st, e, recv, args, kw, k, K):
        g = st.ghost; st.ghost = dict(g); st.ghost['kicks'] = g['kicks'] + 1
        st.ghost['sent'] = dict(task_id=recv.task_id, task_name=to_val(recv.task_name), labels=recv.labels, extra=recv.extra, args=to_val(args[0]), kwargs=to_val(kw['**']))
        ok = st.fork(); k(ok, None)
        f = st.fork(); f.ghost = dict(f.ghost); f.ghost['send_failed'] = True; K['exc'](f, raise_any(f, 'Exception'))
    def h_NoResultError(ex, st, e, recv, args, kw, k, K): return k(st, new_exc(st, 'NoResultError'))
    class Ex(Exec):
        def ev_Attribute(self, e, st, k, K):
            p = ast.unparse(e)
            if p == 'message.labels': return k(st, PyDict(labels_a))
            if p == 'message.args': return k(st, PyList(margs_a))
            if p == 'message.kwargs': return k(st, PyDict(mkw_a))
            if p in ('message.task_name', 'message.task_id', 'self.broker'): return k(st, st.heap.field(e.attr)[msg_a if p.startswith('message') else self_a])
            if p.startswith('self.'): return k(st, st.heap.field(e.attr)[self_a])
            return super().ev_Attribute(e, st, k, K)
        def ev_Starred(self, e, st, k, K): return self.ev(e.value, st, k, K)
        def ev_Call(self, e, st, k, K):
            if any(x.arg is None for x in e.keywords):
                star = [x for x in e.keywords if x.arg is None][0]
                e = ast.Call(func=e.func, args=e.args, keywords=[ast.keyword(arg='**', value=star.value)] + [x for x in e.keywords if x.arg is not None])
            return super().ev_Call(e, st, k, K)
        def find_handler(self, name, recv=None):
            if isinstance(recv, Kicker): return {'with_task_id': h_with_task_id, 'with_labels': h_with_labels, 'kiq': h_kiq}[name.split('.')[-1]]
            if name.endswith('.lower'): return h_lower
            return super().find_handler(name, recv)
        def ev_Await(self, e, st, k, K): return self.ev(e.value, st, k, K)
        def assign(self, tgt, v, st, k, K):
            if ast.unparse(tgt) == 'result.error': st.ghost = dict(st.ghost); st.ghost['result_error'] = to_val(v); return k(st)
            return super().assign(tgt, v, st, k, K)
    ex = Ex({'logger.*': noop, 'isinstance': h_isinstance, 'dict.get': h_dict_get, 'int': h_int, 'AsyncKicker': h_AsyncKicker, 'NoResultError': h_NoResultError, 'parse_label': h_parse_label, 'str': h_str})
    st = State(); h = st.heap; st.env = {'self': PyObj(self_a), 'message': PyObj(msg_a), 'result': PyObj(res_a), 'exception': exc}
    err0 = fresh('result_error0'); st.ghost = dict(kicks=IntVal(0), sent=None, result_error=err0)
    dflt_count = h.field('default_retry_count')[self_a]; dflt_label = h.field('default_retry_label')[self_a]; nror = h.field('no_result_on_retry')[self_a]
    st.pc += [Val.is_intv(dflt_count), Val.is_boolv(dflt_label), Val.is_boolv(nror), Val.is_ref(exc), Distinct(self_a, msg_a, labels_a, res_a, margs_a, mkw_a)] + [x < h.next for x in (self_a, msg_a, labels_a, res_a, margs_a, mkw_a)] + [Val.a(exc) < h.next]
    L = h.dval[labels_a]; LH = h.dhas[labels_a]
    lbl = If(LH[K_ROE], L[K_ROE], Val.none)
    st.pc.append(Or(lbl == Val.none, Val.is_boolv(lbl), Val.is_strv(lbl)))          # § bool label, string label or default
    st.pc += [Implies(LH[K_RET], Or(Val.is_intv(L[K_RET]))), Implies(LH[K_MAX], Val.is_intv(L[K_MAX]))]      # labels arrive parsed (C09) as ints
    en = If(Val.is_strv(lbl), lower_(lbl) == TRUE_S, If(lbl == Val.none, Val.b(dflt_label), Val.b(lbl)))
    r = If(LH[K_RET], Val.i(L[K_RET]), 0); mx = If(LH[K_MAX], Val.i(L[K_MAX]), Val.i(dflt_count))
    is_nores = CLS.sub_expr(h.cls_of[Val.a(exc)], 'NoResultError')
    should_kick = And(Not(is_nores), en, r + 1 < mx)
    exits = collections.Counter()
    def on_ret(s, v):
        exits['return'] += 1; g = s.ghost
        oblige(s, "on_error/post: re-sent iff retry enabled, not NoResult, retries+1 < max  [C11]", (g['kicks'] == 1) == should_kick)
        oblige(s, "on_error/post: at most one re-send  [C11]", g['kicks'] <= 1)
        if g['sent']:
            snt = g['sent']
            oblige(s, "on_error/post: same task id  [C11]", snt['task_id'] == s.heap.field('task_id')[msg_a])
            oblige(s, "on_error/post: same task name  [C11]", snt['task_name'] == s.heap.field('task_name')[msg_a])
            oblige(s, "on_error/post: same args/kwargs  [C11]", And(snt['args'] == Val.ref(margs_a), snt['kwargs'] == Val.ref(mkw_a)))
            oblige(s, "on_error/post: labels are the message's labels with _retries = r+1  [C11]", And(BoolVal(isinstance(snt['labels'], PyDict)), snt['labels'].addr == labels_a, BoolVal(set(snt['extra']) == {'_retries'}), snt['extra'].get('_retries', Val.none) == Val.intv(r + 1)))
        rerr = g['result_error']
        # (if the re-send itself failed and the middleware survives it, this attempt is the final one: its outcome must stay the stored result)
        oblige(s, "on_error/post: result.error becomes NoResultError iff re-sent and no_result_on_retry  [C11]",
               If(And(should_kick, Val.b(nror), BoolVal(not g.get('send_failed'))), And(Val.is_ref(rerr), CLS.sub_expr(s.heap.cls_of[Val.a(rerr)], 'NoResultError'), Val.a(rerr) >= h.next), rerr == err0))
    def on_exc(s, x):
        exits['raise'] += 1
        oblige(s, "on_error/raises: only when the re-send itself failed  [C11]", s.ghost['kicks'] == 1)
    ex.run(fdef, st, on_ret, on_exc)
    src.note_paths('::SimpleRetryMiddleware.on_error', sum(exits.values()))
    s0 = State(); s0.pc = list(st.pc); reach(s0, "on_error/reach@precondition")
    # ---- __init__: the three options on_error reads back from self are stored exactly as given (0 / False included)
    init = src.func(REL, 'SimpleRetryMiddleware.__init__'); ia = Int('mw_addr'); si = State(); si.env = {'self': PyObj(ia)}; ip = {}
    for a_ in init.args.args[1:]: ip[a_.arg] = fresh(a_.arg); si.env[a_.arg] = ip[a_.arg]
    exi = Exec({'super': lambda ex_, st_, e, r, a, kw, k, K: k(st_, fresh('super')), 'logger.*': noop}); exi.no_pure_fallback = True
    def i_ret(s, v):
        for f in ('default_retry_count', 'default_retry_label', 'no_result_on_retry'):
            oblige(s, f"SimpleRetryMiddleware.__init__/post: self.{f} is the `{f}` the middleware was built with (also 0 / False)  [C11]", s.heap.field(f)[ia] == ip[f] if f in ip else BoolVal(False))
        reach(s, "SimpleRetryMiddleware.__init__/reach@return")
    exi.run(init, si, i_ret, lambda s, x: None)
    # ---- attempt lemma (pure arithmetic over the contract): attempt k carries _retries = k-1 ; attempt k+1 exists iff attempt k failed, enabled, k < m
    k_, m_, n_ = Ints('k m n_exec'); L = State(); carried = k_ - 1
    L.pc = [k_ >= 1]
    oblige(L, "lemma/step: a re-send after attempt k happens iff k < max_retries (given it failed and retry is enabled)  [C11]", (carried + 1 < m_) == (k_ < m_))
    oblige(L, "lemma/step: attempt k+1 carries _retries = k  [C11]", Implies(k_ < m_, carried + 1 == (k_ + 1) - 1))
    L2 = State(); L2.pc = [n_ >= 1]; L2.facts = [ForAll([k_], Implies(And(k_ >= 1, k_ < n_), k_ < m_))]
    oblige(L2, "lemma/bound: total executions <= max(1, max_retries), at least one execution always happens  [C11]", And(n_ <= If(m_ >= 1, m_, 1), n_ >= 1))
    reach(L2, "lemma/reach@bound")
    return {'exits': dict(exits)}
