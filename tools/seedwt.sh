#!/bin/sh
# tools/seedwt.sh <seed-dir> [Cxx ...]: confirm a seeded change (tools/verify_seed.sh) and run the checks against it in the scratch worktree
# $SEED_WT (default /tmp/wt/verify) via PYVC_REPO (never touches /repo).
D=$(cd "$1" && pwd); shift; W=${SEED_WT:-/tmp/wt/verify}
SEED_WT=$W "$(dirname "$0")/verify_seed.sh" "$D"
DEVTREE=$W python3 "$(dirname "$0")/refactortest.py" "$D/patch.diff" "$@" | sed 's/^FALSE ALARMS:/CAUGHT by:/'
