"""Unit `label_source`: taskiq/schedule_sources/label_based.py::LabelScheduleSource.get_schedules / post_send — C16.

get_schedules: the result lists EXACTLY the cron/time entries declared on tasks of the source's own broker: soundness (only valid entries
of own-broker tasks), order without duplicates, completeness (every valid entry present; stated through a ghost inverse map), fields copied
from the entry (task name, cron, time, cron_offset).  The in-place `labels.update(task.labels)` on an entry's own label dict is allowed by
the frame (the statement speaks about which entries are listed).
post_send (after a one-shot entry fired): in the task with that name on this broker the FIRST entry whose time equals the fired time is
removed; every other entry, list and task is unchanged; exactly one entry is removed when one exists; cron schedules change nothing."""
import ast, itertools
from z3 import *
from pyvc.core import *

PROPS = ['C16']
REPLAY = {'driver': 'sched'}
REL = 'taskiq/schedule_sources/label_based.py'
TRUSTED = [
    "broker.get_all_tasks() is a dict name -> task (distinct names); tasks do not share their label dicts / schedule lists",
    "Python == on schedule times (datetimes) is an equivalence (uninterpreted py_eq)",
    "list.copy() / list.pop(i) / enumerate / dict.get list-and-dict views of pyvc; ScheduledTask(...) keeps the fields it is given (validation accepts entries with cron or time)",
]


def _loop_roles(fdef):
    """names of the loop variables, read from the AST (outer: `for <name>, <task> in ...get_all_tasks().items()`; inner: the loop over the schedule list)"""
    outer = [n_ for n_ in ast.walk(fdef) if isinstance(n_, ast.For) and ast.unparse(n_.iter) == 'self.broker.get_all_tasks().items()']
    if len(outer) != 1 or not (isinstance(outer[0].target, ast.Tuple) and len(outer[0].target.elts) == 2 and all(isinstance(x, ast.Name) for x in outer[0].target.elts)):
        raise Unsupported(fdef.name + ": expected one loop `for <name>, <task> in self.broker.get_all_tasks().items()`")
    inner = [n_ for n_ in ast.walk(outer[0]) if isinstance(n_, ast.For) and n_ is not outer[0]]
    if len(inner) != 1: raise Unsupported(fdef.name + ": expected one inner loop over the task's schedule entries")
    return outer[0].target.elts[0].id, outer[0].target.elts[1].id, inner[0]

def gen_get_schedules(src, fdef):
    TNAME, TASK, INNER = _loop_roles(fdef)
    Exec.inline_scope = (src, REL, 'LabelScheduleSource')
    if not isinstance(INNER.target, ast.Name): raise Unsupported('get_schedules: inner loop target')
    SCHED = INNER.target.id
    self_a, names_a, vals_a, own_broker = Ints('self_a names_a vals_a own_broker'); NT = Int('n_tasks')
    KEY = {k: STR.get(k) for k in ('schedule', 'cron', 'time', 'labels', 'args', 'kwargs', 'cron_offset')}
    p, q, j, t_, e_ = Ints('p q j t_ e_')
    I2I = ArraySort(IntSort(), IntSort())
    st0 = State(); H0 = st0.heap
    def task_at(i): return Val.a(H0.litem[vals_a][i])
    def labels_of(i): return Val.a(H0.field('labels')[task_at(i)])
    def has_sched(i): return H0.dhas[labels_of(i)][KEY['schedule']]
    def sched_addr(i): return Val.a(H0.dval[labels_of(i)][KEY['schedule']])
    def n_entries(i): return If(has_sched(i), H0.llen[sched_addr(i)], 0)
    def entry(i, e): return Val.a(H0.litem[sched_addr(i)][e])
    def own(i): return H0.field('broker')[task_at(i)] == Val.ref(own_broker)
    def valid(i, e): return And(own(i), Or(H0.dhas[entry(i, e)][KEY['cron']], H0.dhas[entry(i, e)][KEY['time']]))
    def eget(i, e, key): return If(H0.dhas[entry(i, e)][KEY[key]], H0.dval[entry(i, e)][KEY[key]], Val.none)
    # ghost: for result index r: origin task ot[r], origin entry oe[r]; inverse pos(t,e)
    class ItemsView: pass
    def h_get_all_tasks(ex, st, e, recv, args, kw, k, K_): return k(st, ItemsView())
    def h_items(ex, st, e, recv, args, kw, k, K_): return k(st, recv)
    def h_dict_get(ex, st, e, d, args, kw, k, K_):
        kx = to_val(args[0]); has = st.heap.dhas[d.addr][kx]
        if len(args) > 1 and isinstance(args[1], (PyList, PyDict)):
            wrap = PyList if isinstance(args[1], PyList) else PyDict
            return ex.branch(st, has, lambda s: k(s, wrap(Val.a(s.heap.dval[d.addr][kx]))), lambda s: k(s, args[1]))
        return k(st, If(has, st.heap.dval[d.addr][kx], Val.none))
    def h_dict_update(ex, st, e, d, args, kw, k, K_):
        # labels.update(task.labels): writes into the entry's own labels dict (or a fresh {}): tracked as a ghost "touched" set, content irrelevant to the listing spec
        st.ghost = dict(st.ghost); st.ghost['touched'] = Store(st.ghost['touched'], d.addr, True); return k(st, None)
    def h_ScheduledTask(ex, st, e, recv, args, kw, k, K_):
        a = alloc(st); h = st.heap
        for f in ('task_name', 'cron', 'time', 'cron_offset'): st.pc.append(h.field('st_' + f)[a] == to_val(kw[f]))      # allocation by assumption
        return k(st, PyObj(a, 'ScheduledTask'))
    def h_append(ex, st, e, l, args, kw, k, K_):
        g = st.ghost; n = g['rlen']; ti, ei = st.env['__ti'], st.env['__ei']
        st.ghost = dict(g); st.ghost.update(rlen=n + 1, ritem=Store(g['ritem'], n, Val.a(to_val(args[0]))), ot=Store(g['ot'], n, ti), oe=Store(g['oe'], n, ei))
        return k(st, None)
    class Ex(Exec):
        def ev_List(self, e, st, k, K_):
            if ast.unparse(e) == '[]' and st.env.get('__making_result'): return k(st, 'RESULT')
            a = alloc(st); st.pc.append(st.heap.llen[a] == 0); return k(st, PyList(a))
        def ev_Dict(self, e, st, k, K_): a = alloc(st); return k(st, PyDict(a))
        def ev_Attribute(self, e, st, k, K_):
            p_ = ast.unparse(e)
            if p_ == 'self.broker': return k(st, Val.ref(own_broker))
            if p_ == TASK + '.broker': return k(st, H0.field('broker')[Val.a(to_val(st.env[TASK]))])
            if p_ == TASK + '.labels': return k(st, PyDict(Val.a(H0.field('labels')[Val.a(to_val(st.env[TASK]))])))
            return super().ev_Attribute(e, st, k, K_)
        def ev_Compare(self, e, st, k, K_):
            if isinstance(e.ops[0], ast.NotIn) and ast.unparse(e.comparators[0]) == SCHED:
                d = PyDict(Val.a(to_val(st.env[SCHED])))
                return self.ev(e.left, st, lambda s, v: k(s, PyBool(Not(s.heap.dhas[d.addr][to_val(v)]))), K_)
            return super().ev_Compare(e, st, k, K_)
        def find_handler(self, name, recv=None):
            if name == 'schedules.append': return h_append
            if name.endswith('.get') and recv is not None and not isinstance(recv, PyDict):
                rd = PyDict(Val.a(to_val(recv))); return lambda ex, st, e, r, a, kw, k, K_: h_dict_get(ex, st, e, rd, a, kw, k, K_)
            return super().find_handler(name, recv)
        def st_Assign(self, s, st, k, K_):
            if ast.unparse(s) == 'schedules = []': return k(st)        # the result list is the ghost (rlen, ritem)
            return super().st_Assign(s, st, k, K_)
    def before(t1, e1, t2, e2): return Or(t1 < t2, And(t1 == t2, e1 < e2))
    def Inv(g, ti, ei):
        """everything strictly before position (ti, ei) in the nested iteration has been handled"""
        r, r2 = Ints('r r2')
        return [g['rlen'] >= 0,
            ForAll([r], Implies(And(0 <= r, r < g['rlen']), And(0 <= g['ot'][r], g['ot'][r] < NT, 0 <= g['oe'][r], g['oe'][r] < n_entries(g['ot'][r]), valid(g['ot'][r], g['oe'][r]),
                                                             before(g['ot'][r], g['oe'][r], ti, ei)))),                                        # soundness: only valid entries, already visited
            ForAll([r, r2], Implies(And(0 <= r, r < r2, r2 < g['rlen']), before(g['ot'][r], g['oe'][r], g['ot'][r2], g['oe'][r2]))),        # ordered, hence duplicate-free
            ForAll([t_, e_], Implies(And(0 <= t_, t_ < NT, 0 <= e_, e_ < n_entries(t_), valid(t_, e_), before(t_, e_, ti, ei)),
                                     And(0 <= g['pos'](t_, e_), g['pos'](t_, e_) < g['rlen'], g['ot'][g['pos'](t_, e_)] == t_, g['oe'][g['pos'](t_, e_)] == e_))),  # completeness via ghost inverse
            ForAll([r], Implies(And(0 <= r, r < g['rlen']), And(st0.heap.field('st_task_name')[g['ritem'][r]] == H0.litem[names_a][g['ot'][r]],
                                                             st0.heap.field('st_cron')[g['ritem'][r]] == eget(g['ot'][r], g['oe'][r], 'cron'),
                                                             st0.heap.field('st_time')[g['ritem'][r]] == eget(g['ot'][r], g['oe'][r], 'time'),
                                                             st0.heap.field('st_cron_offset')[g['ritem'][r]] == eget(g['ot'][r], g['oe'][r], 'cron_offset'))))]
    _c = itertools.count()
    def havoc_ghost(st):
        t = next(_c); st.ghost = dict(st.ghost)
        st.ghost.update(rlen=Int(f'rlen{t}'), ritem=Const(f'ritem{t}', I2I), ot=Const(f'ot{t}', I2I), oe=Const(f'oe{t}', I2I), pos=Function(f'pos{t}', IntSort(), IntSort(), IntSort()), touched=Const(f'touched{t}', ArraySort(IntSort(), BoolSort())))
        st.heap = st.heap.copy(); st.heap.next = Int(f'next{t}')
    def assume(st, cs):
        for c in cs: (st.facts if is_quantifier(c) else st.pc).append(c)
    def check(st, cs, label):
        for n_, c in enumerate(cs): oblige(st, f"{label}/{n_}", c)
    def h_for(ex, s, st, k, K_):
        itx = ast.unparse(s.iter)
        if itx == 'self.broker.get_all_tasks().items()':
            check(st, Inv(st.ghost, IntVal(0), IntVal(0)), "get_schedules/outer/inv-entry")
            it = st.fork(); havoc_ghost(it); i = fresh('ti', IntSort()); it.pc += [i >= 0, i < NT]; assume(it, Inv(it.ghost, i, IntVal(0)))
            it.env = dict(it.env); it.env.update({TNAME: H0.litem[names_a][i], TASK: H0.litem[vals_a][i], '__ti': i})
            def back(s3): check(s3, Inv(s3.ghost, i + 1, IntVal(0)), "get_schedules/outer/inv-preserved")
            K2 = dict(K_); K2['cont'] = back
            ex.block(s.body, it, back, K2)
            out = st.fork(); havoc_ghost(out); assume(out, Inv(out.ghost, NT, IntVal(0))); return k(out)
        if itx == TASK + ".labels.get('schedule', [])":
            ti = st.env['__ti']
            def with_list(s2, lst):
                n = s2.heap.llen[lst.addr]
                it = s2.fork(); havoc_ghost(it); i = fresh('ei', IntSort()); it.pc += [i >= 0, i < n]; assume(it, Inv(it.ghost, ti, i))
                it.env = dict(it.env); it.env.update({SCHED: s2.heap.litem[lst.addr][i], '__ei': i})
                def back(s3):
                    # ghost inverse update is part of the proof script: pos(ti, i) := index just appended (if any)
                    check(s3, Inv(s3.ghost, ti, i + 1), "get_schedules/inner/inv-preserved")
                K2 = dict(K_); K2['cont'] = back
                ex.block(s.body, it, back, K2)
                out = s2.fork(); havoc_ghost(out); assume(out, Inv(out.ghost, ti, n)); out.pc.append(n == n_entries(ti)); return k(out)
            return ex.ev(s.iter, st, with_list, K_)
        raise Unsupported(itx)
    # ghost inverse maintenance at append: wrap h_append to also define the new pos function
    _old_append = h_append
    def h_append2(ex, st, e, l, args, kw, k, K_):
        g = st.ghost; n = g['rlen']; ti, ei = st.env['__ti'], st.env['__ei']
        newpos = Function(f'pos_a{next(_c)}', IntSort(), IntSort(), IntSort())
        st.facts.append(ForAll([t_, e_], newpos(t_, e_) == If(And(t_ == ti, e_ == ei), n, g['pos'](t_, e_))))
        def k2(s2, v): s2.ghost = dict(s2.ghost); s2.ghost['pos'] = newpos; return k(s2, v)
        return _old_append(ex, st, e, l, args, kw, k2, K_)
    h_append = h_append2
    ex = Ex({'logger.*': noop, 'self.broker.get_all_tasks': h_get_all_tasks, 'self.broker.get_all_tasks().items': h_items, 'dict.get': h_dict_get, 'dict.update': h_dict_update, 'ScheduledTask': h_ScheduledTask, '@for': h_for})
    st = st0; st.env = {'self': PyObj(self_a)}
    st.ghost = dict(rlen=IntVal(0), ritem=K(IntSort(), IntVal(0)), ot=K(IntSort(), IntVal(0)), oe=K(IntSort(), IntVal(0)), pos=Function('pos0', IntSort(), IntSort(), IntSort()), touched=K(IntSort(), False))
    h = st.heap
    wf = [NT >= 0, h.llen[names_a] == NT, h.llen[vals_a] == NT, h.next > 0,
          ForAll([p], Implies(And(0 <= p, p < NT), And(Val.is_ref(h.litem[vals_a][p]), Val.is_ref(h.field('labels')[task_at(p)])))),
          ForAll([p], Implies(And(0 <= p, p < NT, has_sched(p)), And(Val.is_ref(H0.dval[labels_of(p)][KEY['schedule']]), H0.llen[sched_addr(p)] >= 0)))]
    assume(st, wf)
    exits = collections.Counter()
    def on_ret(s, v):
        exits['return'] += 1; g = s.ghost; reach(s, f"get_schedules/reach@return#{exits['return']}")
        check(s, Inv(g, NT, IntVal(0)), "get_schedules/post: result lists exactly the valid entries of own tasks, in order, once each  [C16]")
    ex.run(fdef, st, on_ret, lambda s, x: exits.update(['raise']))

def gen_post_send(src, fdef):
    TNAME, TASK, INNER = _loop_roles(fdef)
    Exec.inline_scope = (src, REL, 'LabelScheduleSource')
    if not (isinstance(INNER.target, ast.Tuple) and len(INNER.target.elts) == 2 and isinstance(INNER.iter, ast.Call) and ast.unparse(INNER.iter.func) == 'enumerate' and isinstance(INNER.iter.args[0], ast.Name)):
        raise Unsupported('post_send: expected `for <idx>, <entry> in enumerate(<copy of the schedule list>)`')
    IDX, SCHED, LISTV = INNER.target.elts[0].id, INNER.target.elts[1].id, INNER.iter.args[0].id
    FIRED = fdef.args.args[1].arg
    self_a, fired_a, tasks_names_a, tasks_vals_a, own_broker = Ints('self_a fired_a names_a vals_a own_broker')
    NT = Int('n_tasks'); K_SCHED, K_TIME = STR.get('schedule'), STR.get('time')
    py_eq = Function('py_eq', Val, Val, BoolSort())          # Python == on label values (datetimes): assumed an equivalence
    j, p, q = Ints('j p q'); _c = itertools.count()
    def sched_list_addr(st, t): # address of task t's labels["schedule"] list (None-able)
        la = Val.a(st.heap.field('labels')[t]); return st.heap.dval[la][K_SCHED], st.heap.dhas[la][K_SCHED]
    class ItemsView:
        pass
    def h_get_all_tasks(ex, st, e, recv, args, kw, k, K): return k(st, ItemsView())
    def h_items(ex, st, e, recv, args, kw, k, K): return k(st, recv)
    def h_dict_get(ex, st, e, d, args, kw, k, K):
        kx = to_val(args[0]); has = st.heap.dhas[d.addr][kx]
        if len(args) > 1 and isinstance(args[1], PyList):            # .get("schedule", []) -> list
            def present(s): return k(s, PyList(Val.a(s.heap.dval[d.addr][kx])))
            def absent(s): return k(s, args[1])
            return ex.branch(st, has, present, absent)
        return k(st, If(has, st.heap.dval[d.addr][kx], Val.none))
    def h_list_copy(ex, st, e, l, args, kw, k, K):
        a = alloc(st); h = st.heap; st.pc += [h.llen[a] == h.llen[l.addr], h.litem[a] == h.litem[l.addr]]; return k(st, PyList(a))      # allocation by assumption: unallocated cells are unconstrained
    def h_list_pop(ex, st, e, l, args, kw, k, K):
        i = ex.as_int(args[0]); st.heap = st.heap.copy(); h = st.heap; n = h.llen[l.addr]
        oblige(st, "post_send/pre@pop: index in range", And(i >= 0, i < n))
        ni = fresh('items_popped', VArr); st.facts.append(ForAll([j], ni[j] == If(j < i, h.litem[l.addr][j], h.litem[l.addr][j + 1])))
        old = h.litem[l.addr][i]; h.litem = Store(h.litem, l.addr, ni); h.llen = Store(h.llen, l.addr, n - 1)
        st.ghost = dict(st.ghost); st.ghost['pops'] = st.ghost['pops'] + 1; st.ghost['popped_from'] = l.addr; st.ghost['popped_idx'] = i
        return k(st, old)
    class Ex(Exec):
        def ev_List(self, e, st, k, K):
            a = alloc(st); st.pc.append(st.heap.llen[a] == 0); return k(st, PyList(a))
        def ev_Attribute(self, e, st, k, K):
            p_ = ast.unparse(e)
            if p_ == 'self.broker': return k(st, Val.ref(own_broker))
            if p_ == TASK + '.broker': return k(st, st.heap.field('broker')[Val.a(to_val(st.env[TASK]))])
            if p_ == TASK + '.labels': return k(st, PyDict(Val.a(st.heap.field('labels')[Val.a(to_val(st.env[TASK]))])))
            if p_.startswith(FIRED + '.'): return k(st, st.heap.field(e.attr)[fired_a])
            return super().ev_Attribute(e, st, k, K)
        def ev_Compare(self, e, st, k, K):
            if ast.unparse(e) in (f"{SCHED}.get('time') == {FIRED}.time", f"{FIRED}.time == {SCHED}.get('time')"):
                return self.ev_list([e.left, e.comparators[0]], st, lambda s, vs: k(s, PyBool(py_eq(to_val(vs[0]), to_val(vs[1])))), K)
            return super().ev_Compare(e, st, k, K)
        def find_handler(self, name, recv=None):
            if name.endswith('.get') and recv is not None and not isinstance(recv, PyDict): recv_d = PyDict(Val.a(to_val(recv))); return lambda ex, st, e, r, a, kw, k, K: h_dict_get(ex, st, e, recv_d, a, kw, k, K)
            return super().find_handler(name, recv)
    # spec helpers over the INITIAL heap
    st0 = State(); H0 = st0.heap
    def task_at(hp, i): return Val.a(hp.litem[tasks_vals_a][i])
    def name_at(hp, i): return hp.litem[tasks_names_a][i]
    fired_name = H0.field('task_name')[fired_a]; fired_time = H0.field('time')[fired_a]; fired_cron = H0.field('cron')[fired_a]
    def own(hp, i): return hp.field('broker')[task_at(hp, i)] == Val.ref(own_broker)
    def entry_time(hp, la, jx):      # time of entry jx in the list at address la
        ent = Val.a(hp.litem[la][jx]); return If(hp.dhas[ent][K_TIME], hp.dval[ent][K_TIME], Val.none)
    def h_for(ex, s, st, k, K):
        itx = ast.unparse(s.iter)
        if itx == 'self.broker.get_all_tasks().items()':
            # outer loop invariant: nothing popped so far; no earlier task matched (name, own broker) with a matching entry
            def unchanged(sx): return [sx.heap.litem == H0.litem, sx.heap.llen == H0.llen, sx.heap.dval == H0.dval, sx.heap.dhas == H0.dhas, sx.heap.next >= H0.next]
            def no_match(hp, tix): 
                la = Val.a(hp.dval[Val.a(hp.field('labels')[task_at(hp, tix)])][K_SCHED])
                return Not(And(name_at(hp, tix) == fired_name, own(hp, tix), hp.dhas[Val.a(hp.field('labels')[task_at(hp, tix)])][K_SCHED],
                               Exists([j], And(0 <= j, j < hp.llen[la], py_eq(entry_time(hp, la, j), fired_time)))))
            tq = Int('tq')
            def inv(sx, ix): return [sx.ghost['pops'] == 0] + unchanged(sx) + [ForAll([tq], Implies(And(0 <= tq, tq < ix), no_match(H0, tq)))]
            for c in inv(st, 0): oblige(st, "post_send/outer/inv-entry", c)
            it = st.fork(); i = fresh('ti', IntSort()); it.pc += [i >= 0, i < NT]
            it.heap = it.heap.copy(); it.heap.next = fresh('next_h', IntSort())
            for c in inv(it, i): (it.facts if is_quantifier(c) else it.pc).append(c)
            it.env = dict(it.env); it.env[TNAME] = name_at(it.heap, i); it.env[TASK] = H0.litem[tasks_vals_a][i]; it.env['__ti'] = i
            def back(s3):
                for c in inv(s3, i + 1): oblige(s3, "post_send/outer/inv-preserved", c)
            K2 = dict(K); K2['cont'] = back
            ex.block(s.body, it, back, K2)
            out = st.fork(); out.heap = out.heap.copy(); out.heap.next = fresh('next_h', IntSort())
            for c in inv(out, NT): (out.facts if is_quantifier(c) else out.pc).append(c)
            return k(out)
        if itx == f'enumerate({LISTV})':
            lst = st.env[LISTV]; ti = st.env['__ti']
            def inv(sx, ix): return [sx.ghost['pops'] == 0, sx.heap.litem == st.heap.litem, sx.heap.llen == st.heap.llen, sx.heap.dval == st.heap.dval, sx.heap.dhas == st.heap.dhas,
                                     ForAll([j], Implies(And(0 <= j, j < ix), Not(py_eq(entry_time(st.heap, lst.addr, j), fired_time))))]
            it = st.fork(); i = fresh('idx', IntSort()); it.pc += [i >= 0, i < st.heap.llen[lst.addr]]
            for c in inv(it, i): (it.facts if is_quantifier(c) else it.pc).append(c)
            it.env = dict(it.env); it.env[IDX] = PyInt(i); it.env[SCHED] = st.heap.litem[lst.addr][i]
            def back(s3):
                for c in inv(s3, i + 1): oblige(s3, "post_send/inner/inv-preserved", c)
            ex.block(s.body, it, back, K)
            out = st.fork()
            for c in inv(out, st.heap.llen[lst.addr]): (out.facts if is_quantifier(c) else out.pc).append(c)
            return k(out)
        raise Unsupported(itx)
    ex = Ex({'logger.*': noop, 'self.broker.get_all_tasks': h_get_all_tasks, 'self.broker.get_all_tasks().items': h_items, 'dict.get': h_dict_get, 'list.copy': h_list_copy, 'list.pop': h_list_pop, '@for': h_for})
    st = st0; st.env = {'self': PyObj(self_a), FIRED: PyObj(fired_a)}
    st.ghost = dict(pops=IntVal(0), popped_from=IntVal(-1), popped_idx=IntVal(-1))
    h = st.heap
    wf = [NT >= 0, h.llen[tasks_names_a] == NT, h.llen[tasks_vals_a] == NT, h.next > 0,
          ForAll([p, q], Implies(And(0 <= p, p < NT, 0 <= q, q < NT, name_at(h, p) == name_at(h, q)), p == q)),                     # dict keys are unique
          ForAll([p], Implies(And(0 <= p, p < NT), And(Val.is_ref(h.litem[tasks_vals_a][p]), Val.is_ref(h.field('labels')[task_at(h, p)]), task_at(h, p) < h.next))),
          ForAll([p], Implies(And(0 <= p, p < NT, h.dhas[Val.a(h.field('labels')[task_at(h, p)])][K_SCHED]), And(Val.is_ref(sched_list_addr(st, task_at(h, p))[0]), Val.a(sched_list_addr(st, task_at(h, p))[0]) < h.next, h.llen[Val.a(sched_list_addr(st, task_at(h, p))[0])] >= 0))),
          ForAll([p, q], Implies(And(0 <= p, p < NT, 0 <= q, q < NT, p != q), h.field('labels')[task_at(h, p)] != h.field('labels')[task_at(h, q)])),   # tasks do not share label dicts
          ForAll([p, q], Implies(And(0 <= p, p < NT, 0 <= q, q < NT, p != q, h.dhas[Val.a(h.field('labels')[task_at(h, p)])][K_SCHED], h.dhas[Val.a(h.field('labels')[task_at(h, q)])][K_SCHED]),
                                 sched_list_addr(st, task_at(h, p))[0] != sched_list_addr(st, task_at(h, q))[0]))]                       # ... nor schedule lists
    for c in wf: (st.facts if is_quantifier(c) else st.pc).append(c)
    exits = collections.Counter()
    def on_ret(s, v):
        exits['return'] += 1; g = s.ghost; hh = s.heap
        if exits['return'] <= 6: reach(s, f"post_send/reach@return#{exits['return']}")
        is_oneshot = And(Not(truthy(fired_cron)), truthy(fired_time))
        oblige(s, "post_send/post: cron schedule or no time => nothing changes  [C16]", Implies(Not(is_oneshot), And(g['pops'] == 0, hh.litem == H0.litem, hh.llen == H0.llen)))
        oblige(s, "post_send/post: at most one entry removed  [C16]", g['pops'] <= 1)
        # if an entry was removed: it is from the task with the fired name and own broker, it is the FIRST matching index, all others unchanged
        tix = Int('tix')
        removed_ok = Exists([tix], And(0 <= tix, tix < NT, name_at(H0, tix) == fired_name, own(H0, tix), H0.dhas[Val.a(H0.field('labels')[task_at(H0, tix)])][K_SCHED],
                                       g['popped_from'] == Val.a(H0.dval[Val.a(H0.field('labels')[task_at(H0, tix)])][K_SCHED])))
        oblige(s, "post_send/post: removed from the fired task's own list  [C16]", Implies(g['pops'] == 1, removed_ok))
        la = g['popped_from']; ix = g['popped_idx']
        oblige(s, "post_send/post: removed entry has the fired time and is the first such  [C16]", Implies(g['pops'] == 1, And(py_eq(entry_time(H0, la, ix), fired_time),
               ForAll([j], Implies(And(0 <= j, j < ix), Not(py_eq(entry_time(H0, la, j), fired_time)))))))
        oblige(s, "post_send/post: every other list and every other entry unchanged  [C16]", Implies(g['pops'] == 1, And(hh.llen[la] == H0.llen[la] - 1,
               ForAll([j], hh.litem[la][j] == If(j < ix, H0.litem[la][j], H0.litem[la][j + 1])), ForAll([p], Implies(p != la, And(hh.litem[p] == H0.litem[p], hh.llen[p] == H0.llen[p]))))))
        # completeness: if the fired task has a matching entry, one is removed
        oblige(s, "post_send/post: a matching entry exists in the fired task => one entry is removed  [C16]",
               Implies(And(is_oneshot, Exists([tix, j], And(0 <= tix, tix < NT, name_at(H0, tix) == fired_name, own(H0, tix), H0.dhas[Val.a(H0.field('labels')[task_at(H0, tix)])][K_SCHED],
                       0 <= j, j < H0.llen[Val.a(H0.dval[Val.a(H0.field('labels')[task_at(H0, tix)])][K_SCHED])], py_eq(entry_time(H0, Val.a(H0.dval[Val.a(H0.field('labels')[task_at(H0, tix)])][K_SCHED]), j), fired_time)))), g['pops'] == 1))
    ex.run(fdef, st, on_ret, lambda s, x: exits.update(['raise']))

def generate(src):
    gen_get_schedules(src, src.func(REL, 'LabelScheduleSource.get_schedules'))
    # the two drivers use disjoint symbol names; post_send runs on its own initial heap
    gen_post_send(src, src.func(REL, 'LabelScheduleSource.post_send'))
    # ScheduledTask(...) is the constructor the contracts above treat as "stores what it is given": that holds for a pydantic model only while no
    # model-wide option rewrites values (str_strip_whitespace, str_to_lower, coerce_numbers_to_str, ...). Options that do not touch values are listed;
    # any other one makes the stored payload unknown here (approximation: left to the native driver's payload-fidelity scenario).
    NEUTRAL = {'arbitrary_types_allowed', 'extra', 'frozen', 'validate_assignment', 'populate_by_name', 'title', 'json_schema_extra', 'protected_namespaces', 'from_attributes'}
    for rel_ in ('taskiq/scheduler/scheduled_task/v2.py',):
        for cd_ in [n_ for n_ in src.tree(rel_).body if isinstance(n_, ast.ClassDef) and n_.name == 'ScheduledTask']:
            opts = set()
            for n_ in cd_.body:
                tg = [t_.id for t_ in getattr(n_, 'targets', [getattr(n_, 'target', None)]) if isinstance(t_, ast.Name)] if isinstance(n_, (ast.Assign, ast.AnnAssign)) else []
                if 'model_config' in tg:
                    v_ = n_.value
                    if isinstance(v_, ast.Call): opts |= {k_.arg or '**' for k_ in v_.keywords}
                    elif isinstance(v_, ast.Dict): opts |= {k_.value if isinstance(k_, ast.Constant) else '**' for k_ in v_.keys}
                    else: opts.add('<computed>')
                if isinstance(n_, ast.ClassDef) and n_.name == 'Config': opts |= {t_.id for a_ in n_.body if isinstance(a_, ast.Assign) for t_ in a_.targets if isinstance(t_, ast.Name)}
            sx = State()
            if opts - NEUTRAL: approx(sx, f"ScheduledTask.model_config sets {sorted(opts - NEUTRAL)}")
            oblige(sx, "ScheduledTask/model options: no model-wide option rewrites the task name, labels, arguments or cron text the source hands to the constructor  [C16]", BoolVal(not (opts - NEUTRAL)))
    return {}
