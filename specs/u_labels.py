"""Unit `labels`: taskiq/labels.py::prepare_label, parse_label; taskiq/message.py::TaskiqMessage.parse_labels;
taskiq/context.py::Context.requeue — C09 (labels keep value and type end to end, on first delivery and on every requeue).

  (1) round trip: for each of the five exact types, parse_label(*prepare_label(v)) == v, through the REAL dispatch
      (LabelType[...] enum and the _LABEL_PARSERS table are read from the AST every run), with the str/int/float/base64 axioms.
  (2) parse_labels applies parse_label(labels[k], labels_types[k]) to exactly the keys present in both maps (loop invariant).
  (3) requeue: the message handed to broker.kick must decode (wire form -> parse_label with the tag it carries) to the CURRENT
      label values: checked for an arbitrary label key by running the real parse_label on what the real requeue body sends."""
import ast, itertools
import z3
from z3 import *
from pyvc.core import *

PROPS = ['C09']
REPLAY = {'driver': 'labels'}
TRUSTED = [
    "int(str(i)) == i for exact ints; float(str(f)) == f (NaN maps to NaN: abstract float identity); str(s) is s for exact str; str() returns a str",
    "str(True) == 'True', str(False) == 'False', str(True).lower() == 'true', str(False).lower() == 'false'; str(x).lower() of an already parsed bool behaves the same",
    "base64.b64decode(base64.b64encode(y).decode()) == y for bytes y",
    "type(x).__name__.upper() for x of exact type int/str/float/bool is 'INT'/'STR'/'FLOAT'/'BOOL'; enum.auto() numbers LabelType members 1..n in definition order",
    "wire form of a label value (pydantic model_dump(mode='json') / JSON): str/int/float/bool unchanged, bytes are UTF-8 decoded to str (may raise)",
    "int(i) == i, float(f) == f, str(s) == s for values already of that type",
    "model_copy(m, update=u) returns a copy of m whose updated fields are exactly u, other fields unchanged",
    "labels arrive at the worker parsed by parse_labels: an entry of labels_types for key k is the tag of type(labels[k]) (or absent)",
]


def generate(src):
    tree = src.tree('taskiq/labels.py')
    fns = {n: src.func('taskiq/labels.py', n) for n in ('prepare_label', 'parse_label')}
    PARSE_LABELS = src.func('taskiq/message.py', 'TaskiqMessage.parse_labels')
    REQUEUE = src.func('taskiq/context.py', 'Context.requeue')
    for n, p in [('TaskiqError', 'Exception'), ('NoResultError', 'TaskiqError')]: CLS.add(n, p)
    # ---- static environment read from the AST: enum LabelType (auto numbering), table _LABEL_PARSERS
    enum_cls = [n for n in tree.body if isinstance(n, ast.ClassDef) and n.name == 'LabelType']
    if not enum_cls: raise Unsupported("enum LabelType not found in taskiq/labels.py")
    MEMBERS = []
    for s_ in enum_cls[0].body:
        if isinstance(s_, ast.Assign):
            if ast.unparse(s_.value) != 'enum.auto()': raise Unsupported("LabelType member not numbered by enum.auto(): " + ast.unparse(s_))
            MEMBERS.append(s_.targets[0].id)
    MEMBER_VALUE = {m: i + 1 for i, m in enumerate(MEMBERS)}
    tn = [n for n in tree.body if isinstance(n, (ast.AnnAssign, ast.Assign)) and ast.unparse(n.target if isinstance(n, ast.AnnAssign) else n.targets[0]) == '_LABEL_PARSERS']
    if not tn or not isinstance(tn[0].value, ast.Dict): raise Unsupported("table _LABEL_PARSERS not found as a dict display")
    TABLE = {ast.unparse(k).split('.')[-1]: v for k, v in zip(tn[0].value.keys, tn[0].value.values)}
    # ---- library theory (trusted axioms, guarded form)
    str_ = Function('py_str', Val, Val); int_ = Function('py_int', Val, Val); float_ = Function('py_float', Val, Val); lower_ = Function('str_lower', Val, Val)
    b64e = Function('b64encode_decode', Val, Val); b64d = Function('b64decode', Val, Val)
    json_mode = Function('wire_form', Val, Val); utf8 = Function('utf8_decode', Val, Val)
    TRUE_S, FALSE_S = STR.get("true"), STR.get("false")
    x_ = Const('x_', Val)
    AXIOMS = [ForAll([x_], Implies(Val.is_intv(x_), int_(str_(x_)) == x_)),
              ForAll([x_], Implies(Val.is_floatv(x_), float_(str_(x_)) == x_)),
              ForAll([x_], Implies(Val.is_strv(x_), str_(x_) == x_)),
              ForAll([x_], Val.is_strv(str_(x_))),
              lower_(str_(Val.boolv(True))) == TRUE_S, lower_(str_(Val.boolv(False))) == FALSE_S, str_(Val.boolv(True)) == STR.get("True"), str_(Val.boolv(False)) == STR.get("False"),
              ForAll([x_], Implies(Val.is_bytesv(x_), And(b64d(b64e(x_)) == x_, Val.is_strv(b64e(x_))))),
              ForAll([x_], Implies(Not(Val.is_bytesv(x_)), json_mode(x_) == x_)),
              ForAll([x_], Implies(Val.is_bytesv(x_), And(json_mode(x_) == utf8(x_), Val.is_strv(utf8(x_))))),
              ForAll([x_], Implies(Val.is_intv(x_), int_(x_) == x_)), ForAll([x_], Implies(Val.is_floatv(x_), float_(x_) == x_))]
    TYPE_NAMES = {'int': Val.is_intv, 'str': Val.is_strv, 'float': Val.is_floatv, 'bool': Val.is_boolv, 'bytes': Val.is_bytesv}
    class TypeObj:
        def __init__(s, v): s.v = v
    class PyEnumMember:
        def __init__(s, cond_by_member): s.c = cond_by_member
    def h_type(ex, st, e, recv, args, kw, k, K): return k(st, TypeObj(to_val(args[0])))
    def h_str(ex, st, e, recv, args, kw, k, K): return k(st, str_(to_val(args[0])))
    def h_b64encode(ex, st, e, recv, args, kw, k, K): return k(st, ('b64pending', to_val(args[0])))
    def h_decode(ex, st, e, recv, args, kw, k, K):
        if not (isinstance(recv, tuple) and recv[0] == 'b64pending'): raise Unsupported(".decode() on something other than base64.b64encode(...)")
        return k(st, b64e(recv[1]))
    def h_upper(ex, st, e, recv, args, kw, k, K):
        if not (isinstance(recv, tuple) and recv[0] == 'type_name'): raise Unsupported(".upper() on something other than type(x).__name__")
        return k(st, ('upper_name', recv[1]))
    def h_LabelType_call(ex, st, e, recv, args, kw, k, K):
        v = to_val(args[0]); inr = And(Val.is_intv(v), Val.i(v) >= 1, Val.i(v) <= len(MEMBERS))
        ok = st.fork(); ok.pc.append(inr)
        if ex.feasible(ok): k(ok, PyEnumMember({m: Val.i(v) == MEMBER_VALUE[m] for m in MEMBERS}))
        f = st.fork(); f.pc.append(Not(inr))
        if ex.feasible(f): K['exc'](f, new_exc(f, 'ValueError'))
    def h_ValueError(ex, st, e, recv, args, kw, k, K): return k(st, new_exc(st, 'ValueError'))
    def apply_parser(ex, st, node, arg, k, K):
        u = ast.unparse(node)
        if u == 'int': return k(st, int_(arg))
        if u == 'str': return k(st, str_(arg))
        if u == 'float': return k(st, float_(arg))
        if u == 'base64.b64decode': return k(st, b64d(arg))
        if u == 'bool': return k(st, PyBool(truthy(arg)))
        if isinstance(node, ast.Lambda) and len(node.args.args) == 1:
            st.env = dict(st.env); st.env[node.args.args[0].arg] = arg
            return ex.ev(node.body, st, k, K)
        raise Unsupported("label parser " + u)
    class Ex(Exec):
        def ev_Compare(self, e, st, k, K):
            op = e.ops[0]
            def special(st2, vs):
                l, r = vs
                if isinstance(l, TypeObj) and isinstance(r, PyTuple) and isinstance(op, (ast.In, ast.NotIn)):
                    names = [x.name for x in r.items if isinstance(x, PyCallable)]
                    if len(names) != len(r.items) or any(n not in TYPE_NAMES for n in names): raise Unsupported("type membership test against " + ast.unparse(e.comparators[0]))
                    c = Or(*[TYPE_NAMES[n](l.v) for n in names]); return k(st2, PyBool(c if isinstance(op, ast.In) else Not(c)))
                if isinstance(l, TypeObj) and isinstance(r, PyCallable) and isinstance(op, (ast.Is, ast.IsNot, ast.Eq, ast.NotEq)):
                    if r.name not in TYPE_NAMES: raise Unsupported("type test against " + r.name)
                    c = TYPE_NAMES[r.name](l.v); return k(st2, PyBool(c if isinstance(op, (ast.Is, ast.Eq)) else Not(c)))
                if isinstance(l, PyEnumMember) and isinstance(op, (ast.In, ast.NotIn)) and ast.unparse(e.comparators[0]) == '_LABEL_PARSERS':
                    c = Or(*[l.c[m] for m in TABLE if m in l.c]); return k(st2, PyBool(c if isinstance(op, ast.In) else Not(c)))
                if isinstance(l, (TypeObj, PyEnumMember)): raise Unsupported("comparison " + ast.unparse(e))
                return k(st2, PyBool(self.compare(op, l, r, st2)))
            return self.ev_list([e.left, e.comparators[0]], st, special, K)
        def ev_Name(self, e, st, k, K):
            if e.id == '_LABEL_PARSERS' and e.id not in st.env: return k(st, 'TABLE')
            return super().ev_Name(e, st, k, K)
        def ev_Attribute(self, e, st, k, K):
            p = ast.unparse(e)
            if p == 'var_type.__name__' and isinstance(st.env.get('var_type'), TypeObj): return k(st, ('type_name', st.env['var_type'].v))
            if p.startswith('LabelType.') and p.endswith('.value') and isinstance(e.value, ast.Attribute):
                if e.value.attr not in MEMBER_VALUE: raise Unsupported("unknown LabelType member " + e.value.attr)
                return k(st, PyInt(IntVal(MEMBER_VALUE[e.value.attr])))
            if p.endswith('.value') and isinstance(e.value, ast.Subscript): return self.ev(e.value, st, k, K)
            return super().ev_Attribute(e, st, k, K)
        def ev_Subscript(self, e, st, k, K):
            u = ast.unparse(e.value)
            if u == 'LabelType':
                def got(s2, nm):
                    if not (isinstance(nm, tuple) and nm[0] == 'upper_name'): raise Unsupported("LabelType[...] with " + ast.unparse(e.slice))
                    v = nm[1]; val = fresh('enum_value', IntSort())
                    for tn_ in ('int', 'str', 'float', 'bool'):
                        if tn_.upper() not in MEMBER_VALUE: raise Unsupported('LabelType has no member ' + tn_.upper())
                        s2.pc.append(Implies(TYPE_NAMES[tn_](v), val == MEMBER_VALUE[tn_.upper()]))
                    oblige(s2, "prepare_label/pre@LabelType[name]: only looked up for the four primitive types (no KeyError)  [C09]", Or(*[TYPE_NAMES[t](v) for t in ('int', 'str', 'float', 'bool')]))
                    return k(s2, PyInt(val))
                return self.ev(e.slice, st, got, K)
            if u == '_LABEL_PARSERS': return self.ev(e.slice, st, lambda s2, m: k(s2, ('parser_of', m)), K)
            return super().ev_Subscript(e, st, k, K)
        def ev_Call(self, e, st, k, K):
            via_local = isinstance(e.func, ast.Name) and isinstance(st.env.get(e.func.id), tuple) and st.env[e.func.id][:1] == ('parser_of',)          # parser = _LABEL_PARSERS[...]; parser(value)
            if (via_local or (isinstance(e.func, ast.Subscript) and ast.unparse(e.func.value) == '_LABEL_PARSERS')) and len(e.args) == 1:
                def got(st2, vs):
                    member, arg = vs[0][1], to_val(vs[1])
                    if not isinstance(member, PyEnumMember): raise Unsupported("_LABEL_PARSERS indexed by a non-member")
                    for m in MEMBERS:
                        s3 = st2.fork(); s3.pc.append(member.c[m])
                        if self.feasible(s3):
                            if m not in TABLE:
                                oblige(s3, "parse_label/pre@_LABEL_PARSERS[...]: member has a parser  [C09]", BoolVal(False)); continue
                            apply_parser(self, s3, TABLE[m], arg, k, K)
                return self.ev_list([e.func, e.args[0]], st, got, K)
            return super().ev_Call(e, st, k, K)
        def find_handler(self, name, recv=None):
            if name.endswith('.decode'): return h_decode
            if name.endswith('.upper'): return h_upper
            if name.endswith('.lower'): return lambda ex, st, e, recv, a, kw, k, K: k(st, lower_(to_val(recv)))
            return super().find_handler(name, recv)
    H = {'type': h_type, 'str': h_str, 'base64.b64encode': h_b64encode, 'LabelType': h_LabelType_call, 'ValueError': h_ValueError}
    ex = Ex(H)
    RP = {'driver': 'labels'}
    cnt = collections.Counter()
    def run(fname, env, on_ret, on_exc, facts=(), pc=()):
        st = State(); st.env = dict(env); st.facts = list(AXIOMS) + list(facts); st.pc = list(pc)
        ex.run(fns[fname], st, on_ret, on_exc)
    # ---------------- (1) round trip, per primitive type
    v = fresh('label_value')
    for tname in TYPE_NAMES:
        def after_prepare(s, ret, tname=tname):
            cnt['prepare_paths'] += 1
            if not (isinstance(ret, PyTuple) and len(ret.items) == 2): raise Unsupported("prepare_label does not return a pair")
            text, tag = to_val(ret.items[0]), to_val(ret.items[1])
            oblige(s, f"labels/prepare: the serialised value of a {tname} label is a str (survives every bundled serializer)  [C09]", Val.is_strv(text), witness={'type': STR.get(tname)}, replay=RP)
            def after_parse(s2, back):
                cnt['roundtrip_paths'] += 1
                oblige(s2, f"labels/roundtrip: parse_label(*prepare_label(v)) == v with identical type, v: {tname}  [C09]", to_val(back) == v, witness={'type': STR.get(tname)}, replay=RP)
                reach(s2, f"labels/reach@roundtrip-{tname}#{cnt['roundtrip_paths']}")
            def parse_raises(s2, x): oblige(s2, f"labels/roundtrip: parse_label does not raise on a prepared {tname} label  [C09]", BoolVal(False), witness={'type': STR.get(tname)}, replay=RP)
            s.env = {'label_value': text, 'label_type': tag}
            ex.run(fns['parse_label'], s, after_parse, parse_raises)
        run('prepare_label', {'label_value': v}, after_prepare, lambda s, x, tname=tname: oblige(s, f"labels/prepare_label does not raise on a {tname} label  [C09]", BoolVal(False), replay=RP), pc=[TYPE_NAMES[tname](v)])
    # labels of any other type: tagged ANY and passed through as their str() (nothing to prove about value identity; totality only)
    def other(s, ret): oblige(s, "labels/prepare: non-primitive label values are tagged ANY  [C09]", to_val(ret.items[1]) == Val.intv(MEMBER_VALUE.get('ANY', -1)), replay=RP)
    run('prepare_label', {'label_value': v}, other, lambda s, x: oblige(s, "labels/prepare_label does not raise  [C09]", BoolVal(False), replay=RP), pc=[Not(Or(*[t(v) for t in TYPE_NAMES.values()]))])

    # ---------------- (2) TaskiqMessage.parse_labels: exactly the keys in both maps, each through parse_label
    parse_fn = Function('parse_label_fn', Val, Val, Val)
    def run_parse_labels():
        st = State(); h = st.heap; self_a, lab_a, typ_a = Ints('self_a lab_a typ_a'); types_none = Bool('labels_types_is_None')
        st.pc += [Distinct(self_a, lab_a, typ_a), self_a >= 0, lab_a >= 0, typ_a >= 0, h.next > self_a, h.next > lab_a, h.next > typ_a]
        st.env = {'self': PyObj(self_a)}
        L0, LH0, T0, TH0 = h.dval[lab_a], h.dhas[lab_a], h.dval[typ_a], h.dhas[typ_a]; key = Const('key', Val)
        n = Int('n_types'); order = Function('types_key_at', IntSort(), Val); posk = Function('types_pos', Val, IntSort()); p_ = Int('p_')
        st.facts += [ForAll([p_], Implies(And(0 <= p_, p_ < n), And(TH0[order(p_)], posk(order(p_)) == p_))), ForAll([key], Implies(TH0[key], And(0 <= posk(key), posk(key) < n, order(posk(key)) == key)))]
        st.pc.append(n >= 0)
        def spec(kx, upto): return If(And(Not(types_none), TH0[kx], posk(kx) < upto, LH0[kx]), parse_fn(L0[kx], T0[kx]), L0[kx])
        def Inv(s, i): return [ForAll([key], And(s.heap.dhas[lab_a][key] == LH0[key], s.heap.dval[lab_a][key] == spec(key, i))), s.heap.dval[typ_a] == T0, s.heap.dhas[typ_a] == TH0]
        class ExP(Exec):
            def ev_Attribute(self, e, st, k, K):
                p = ast.unparse(e)
                if p == 'self.labels': return k(st, PyDict(lab_a))
                if p == 'self.labels_types': return k(st, If(types_none, Val.none, Val.ref(typ_a)))
                return super().ev_Attribute(e, st, k, K)
        def h_parse_label(ex_, st, e, recv, args, kw, k, K):
            ok = st.fork(); k(ok, parse_fn(to_val(args[0]), to_val(args[1]) if len(args) > 1 else Val.none))
            f = st.fork(); K['exc'](f, raise_any(f, 'Exception'))       # a malformed wire value: callback() treats the message as unparsable (C01 skip path)
        def h_for(ex_, s, st, k, K):
            if ast.unparse(s.iter) != 'self.labels_types.items()' or not (isinstance(s.target, ast.Tuple) and len(s.target.elts) == 2): raise Unsupported("parse_labels loop shape: " + ast.unparse(s.iter))
            for c in Inv(st, IntVal(0)): oblige(st, "parse_labels/loop/inv-entry  [C09]", c)
            it = st.fork(); i = fresh('i', IntSort()); it.heap = it.heap.copy(); it.heap.dval = fresh('dval_h', it.heap.dval.sort()); it.heap.dhas = fresh('dhas_h', it.heap.dhas.sort())
            it.pc += [i >= 0, i < n, Not(types_none)]; assume(it, Inv(it, i)); it.env = dict(it.env); it.env[s.target.elts[0].id] = order(i); it.env[s.target.elts[1].id] = T0[order(i)]
            def back(s3):
                for c in Inv(s3, i + 1): oblige(s3, "parse_labels/loop/inv-preserved: labels[k] = parse_label(labels[k], labels_types[k]) for visited keys present in both maps, all others untouched  [C09]", c)
            K2 = dict(K); K2['cont'] = back; ex_.block(s.body, it, back, K2)
            out = st.fork(); out.heap = out.heap.copy(); out.heap.dval = fresh('dval_h', out.heap.dval.sort()); out.heap.dhas = fresh('dhas_h', out.heap.dhas.sort()); out.pc.append(Not(types_none)); assume(out, Inv(out, n)); return k(out)
        def h_dget(ex_, st_, e, d, args, kw, k, K):
            kx = to_val(args[0]); return k(st_, If(st_.heap.dhas[d.addr][kx], st_.heap.dval[d.addr][kx], to_val(args[1]) if len(args) > 1 else Val.none))
        exp = ExP({'parse_label': h_parse_label, '@for': h_for, 'dict.get': h_dget})
        def on_ret(s, vv):
            oblige(s, "parse_labels/post: every label with a type tag is decoded by parse_label with that tag, labels without a tag are left as received; key set unchanged  [C09]",
                   ForAll([key], And(s.heap.dhas[lab_a][key] == LH0[key], s.heap.dval[lab_a][key] == If(And(Not(types_none), TH0[key], LH0[key]), parse_fn(L0[key], T0[key]), L0[key]))))
            reach(s, "parse_labels/reach@return")
        exp.run(PARSE_LABELS, st, on_ret, lambda s, x: None)
    run_parse_labels()

    # ---------------- (3) Context.requeue: what is sent decodes to the current labels (arbitrary key)
    def run_requeue():
        REQ = STR.get('X-Taskiq-requeue')
        st = State(); h = st.heap; self_a, msg_a, lab_a, typ_a, broker_a = Ints('ctx_a msg_a lab_a typ_a broker_a'); types_none = Bool('labels_types_is_None')
        st.pc += [Distinct(self_a, msg_a, lab_a, typ_a, broker_a)] + [And(a >= 0, a < h.next) for a in (self_a, msg_a, lab_a, typ_a, broker_a)]
        st.facts = list(AXIOMS)
        for f, val in (('message', Val.ref(msg_a)), ('broker', Val.ref(broker_a))): h.fld[f] = Store(h.field(f), self_a, val)
        h.fld['labels'] = Store(h.field('labels'), msg_a, Val.ref(lab_a)); h.fld['labels_types'] = Store(h.field('labels_types'), msg_a, If(types_none, Val.none, Val.ref(typ_a)))
        L0, LH0, T0, TH0 = h.dval[lab_a], h.dhas[lab_a], h.dval[typ_a], h.dhas[typ_a]; key = Const('key', Val)
        def tag_of(vv): return If(Val.is_intv(vv), MEMBER_VALUE['INT'], If(Val.is_strv(vv), MEMBER_VALUE['STR'], If(Val.is_floatv(vv), MEMBER_VALUE['FLOAT'], If(Val.is_boolv(vv), MEMBER_VALUE['BOOL'], MEMBER_VALUE['BYTES']))))
        five = lambda vv: Or(*[t(vv) for t in TYPE_NAMES.values()])
        # arrival invariant (from parse_labels + round trip): every label is of a primitive type and a tag, if present, is the tag of its type
        st.facts += [ForAll([key], Implies(LH0[key], five(L0[key]))), ForAll([key], Implies(And(LH0[key], Not(types_none), TH0[key]), T0[key] == Val.intv(tag_of(L0[key]))))]
        def arrival(kk): return [Implies(LH0[kk], five(L0[kk])), Implies(And(LH0[kk], Not(types_none), TH0[kk]), T0[kk] == Val.intv(tag_of(L0[kk]))),
                                 Implies(And(Not(types_none), TH0[kk]), LH0[kk]),                                   # type tags exist only for existing labels (_prepare_message builds both maps together)
                                 Implies(And(LH0[kk], Val.is_bytesv(L0[kk])), And(Not(types_none), TH0[kk]))]     # a bytes label can only have arrived through prepare_label, i.e. tagged
        st.facts.append(ForAll([key], And(*arrival(key))))
        st.pc += arrival(REQ) + [Implies(LH0[REQ], Val.is_strv(L0[REQ]))]          # the requeue counter label is written by requeue() itself as a str
        st.env = {'self': PyObj(self_a)}
        n = Int('n_labels'); order = Function('label_key_at', IntSort(), Val); posk = Function('label_pos', Val, IntSort()); p_ = Int('p_')
        prep_text = Function('prepare_label_text', Val, Val); prep_tag = Function('prepare_label_tag', Val, Val)
        class ExR(Ex):
            def ev_Attribute(self, e, st, k, K):
                p = ast.unparse(e)
                if p == 'self.message': return k(st, PyObj(msg_a, 'message'))
                if p == 'self.message.labels': return k(st, PyDict(lab_a))
                if p == 'self.message.labels_types': return k(st, st.heap.field('labels_types')[msg_a])
                if p in ('self.broker', 'self.broker.formatter'): return k(st, PyObj(broker_a, 'broker'))
                return super().ev_Attribute(e, st, k, K)
        def h_dict_get(ex_, st, e, d, args, kw, k, K):
            kx = to_val(args[0]); return k(st, If(st.heap.dhas[d.addr][kx], st.heap.dval[d.addr][kx], to_val(args[1]) if len(args) > 1 else Val.none))
        def h_int(ex_, st, e, recv, args, kw, k, K):
            r = int_(to_val(args[0])); st.pc.append(Val.is_intv(r)); return k(st, PyInt(Val.i(r)))
        def h_str2(ex_, st, e, recv, args, kw, k, K): return k(st, str_(to_val(args[0])))
        def h_prepare(ex_, st, e, recv, args, kw, k, K):
            vv = to_val(args[0]); return k(st, PyTuple([prep_text(vv), prep_tag(vv)]))
        def h_dumps(ex_, st, e, recv, args, kw, k, K):
            m = args[0]
            if not isinstance(m, PyObj): raise Unsupported("formatter.dumps of a non-message")
            setG(st, dumped=m.addr); return k(st, ('BROKER_MESSAGE', m.addr))
        def h_model_copy(ex_, st, e, recv, args, kw, k, K):
            base = args[0]; upd = kw.get('update')
            if not isinstance(base, PyObj) or not isinstance(upd, dict): raise Unsupported("model_copy call shape")
            a = alloc(st); hh = st.heap
            for f in ('labels', 'labels_types', 'task_id', 'task_name', 'args', 'kwargs'):
                hh.fld[f] = Store(hh.field(f), a, to_val(upd[f]) if f in upd else hh.field(f)[base.addr])
            return k(st, PyObj(a, 'message'))
        def h_kick(ex_, st, e, recv, args, kw, k, K):
            def eff(s, k2, K2):
                g = G(s); hh = s.heap
                oblige(s, "requeue/kick: sends what formatter.dumps produced, at most once  [C09]", And(BoolVal(isinstance(args[0], tuple) and args[0][0] == 'BROKER_MESSAGE'), g['kicks'] == 0), replay=RP)
                m = args[0][1] if isinstance(args[0], tuple) else IntVal(-1)
                for f in ('task_id', 'task_name', 'args', 'kwargs'):
                    oblige(s, f"requeue/kick: the re-sent message keeps {f}  [C09/C11]", hh.field(f)[m] == h.field(f)[msg_a], replay=RP)
                sl = Val.a(hh.field('labels')[m]); stv = hh.field('labels_types')[m]; cur = Val.a(hh.field('labels')[msg_a])
                kx = fresh('some_label_key'); s.pc += arrival(kx)          # ground instance of the arrival invariant for the arbitrary key
                oblige(s, "requeue/kick: the re-sent message carries exactly the current label keys  [C09]", hh.dhas[sl][kx] == hh.dhas[cur][kx], replay=RP)
                setG(s, kicks=g['kicks'] + 1)
                # decode at the worker: wire form, then the REAL parse_label with the tag the message carries (parse_labels contract above)
                for tname, isT in TYPE_NAMES.items():
                    cv = hh.dval[cur][kx]
                    d = s.fork(); d.pc += [hh.dhas[cur][kx], isT(cv)]
                    if not ex_.feasible(d): continue
                    has_tag = And(stv != Val.none, hh.dhas[Val.a(stv)][kx])
                    wire = json_mode(hh.dval[sl][kx])
                    w = {'type': STR.get(tname), 'has_tag': has_tag}
                    nt = d.fork(); nt.pc.append(Not(has_tag))
                    if ex_.feasible(nt): oblige(nt, f"requeue/decode: a {tname} label sent without a type tag arrives as itself  [C09]", wire == cv, witness=w, replay=RP)
                    wt = d.fork(); wt.pc.append(has_tag)
                    if ex_.feasible(wt):
                        wt.env = {'label_value': wire, 'label_type': hh.dval[Val.a(stv)][kx]}
                        ex_.run(fns['parse_label'], wt, lambda s2, back, tname=tname, cv=cv, w=w: oblige(s2, f"requeue/decode: a {tname} label of the requeued message decodes to its current value and type  [C09]", to_val(back) == cv, witness=w, replay=RP),
                                lambda s2, x, tname=tname, w=w: oblige(s2, f"requeue/decode: decoding the requeued {tname} label does not fail  [C09]", BoolVal(False), witness=w, replay=RP))
                ok = s.fork(); k2(ok, None)
                f = s.fork(); K2['exc'](f, raise_any(f, 'Exception'))
            return k(st, Tok(eff))
        # axioms tying prepare_label's contract (proved in part (1)) to parse_label on the wire form
        pf = Function('parse_label_fn2', Val, Val, Val)
        def h_for(ex_, s, st, k, K):
            if ast.unparse(s.iter) != 'self.message.labels.items()' or not (isinstance(s.target, ast.Tuple) and len(s.target.elts) == 2): raise Unsupported("requeue loop shape: " + ast.unparse(s.iter))
            tgts = [ast.unparse(x.targets[0]) for x in ast.walk(s) if isinstance(x, ast.Assign)]
            # the two dicts being filled, by role: `<texts>[k], <tags>[k] = prepare_label(v)`
            asg = [x for x in ast.walk(s) if isinstance(x, ast.Assign) and isinstance(x.value, ast.Call) and ast.unparse(x.value.func) == 'prepare_label'
                   and isinstance(x.targets[0], ast.Tuple) and len(x.targets[0].elts) == 2 and all(isinstance(y, ast.Subscript) and isinstance(y.value, ast.Name) for y in x.targets[0].elts)]
            if len(asg) != 1: raise Unsupported("requeue loop: expected `texts[k], tags[k] = prepare_label(v)`")
            names = [y.value.id for y in asg[0].targets[0].elts]
            if not all(isinstance(st.env.get(nm), PyDict) for nm in names): raise Unsupported("requeue loop fills " + ", ".join(names))
            cur = lab_a; hh0 = st.heap
            st.facts += [ForAll([p_], Implies(And(0 <= p_, p_ < n), And(hh0.dhas[cur][order(p_)], posk(order(p_)) == p_))), ForAll([key], Implies(hh0.dhas[cur][key], And(0 <= posk(key), posk(key) < n, order(posk(key)) == key)))]
            st.pc.append(n >= 0)
            da, db = st.env[names[0]].addr, st.env[names[1]].addr
            def Inv(sx, i):
                return [sx.heap.dval[cur] == hh0.dval[cur], sx.heap.dhas[cur] == hh0.dhas[cur], sx.heap.fld.get('labels', hh0.field('labels')) == hh0.field('labels'),
                        ForAll([key], sx.heap.dhas[da][key] == And(hh0.dhas[cur][key], posk(key) < i)), ForAll([key], sx.heap.dhas[db][key] == And(hh0.dhas[cur][key], posk(key) < i)),
                        ForAll([key], Implies(And(hh0.dhas[cur][key], posk(key) < i), And(sx.heap.dval[da][key] == prep_text(hh0.dval[cur][key]), sx.heap.dval[db][key] == prep_tag(hh0.dval[cur][key]))))]
            for c in Inv(st, IntVal(0)): oblige(st, "requeue/loop/inv-entry  [C09]", c)
            def hv(sx): sx.heap = sx.heap.copy(); sx.heap.dval = fresh('dval_h', sx.heap.dval.sort()); sx.heap.dhas = fresh('dhas_h', sx.heap.dhas.sort())
            it = st.fork(); hv(it); i = fresh('i', IntSort()); it.pc += [i >= 0, i < n]; assume(it, Inv(it, i)); it.env = dict(it.env); it.env[s.target.elts[0].id] = order(i); it.env[s.target.elts[1].id] = hh0.dval[cur][order(i)]
            def back(s3):
                for c in Inv(s3, i + 1): oblige(s3, "requeue/loop/inv-preserved: every current label is re-prepared with prepare_label  [C09]", c)
            K2 = dict(K); K2['cont'] = back; ex_.block(s.body, it, back, K2)
            out = st.fork(); hv(out); assume(out, Inv(out, n)); return k(out)
        class ExR2(ExR):
            def ev_Dict(self, e, st, k, K):
                if not e.keys:
                    a = alloc(st); st.pc.append(st.heap.dhas[a] == z3.K(Val, False)); return k(st, PyDict(a))
                if all(isinstance(x, ast.Constant) and isinstance(x.value, str) for x in e.keys):
                    return self.ev_list(e.values, st, lambda s, vs: k(s, {x.value: v for x, v in zip(e.keys, vs)}), K)
                raise Unsupported("dict display " + ast.unparse(e))
        exr = ExR2({**H, 'dict.get': h_dict_get, 'int': h_int, 'str': h_str2, 'prepare_label': h_prepare, 'self.broker.formatter.dumps': h_dumps, 'model_copy': h_model_copy, 'self.broker.kick': h_kick,
                    'NoResultError': lambda ex_, st, e, r, a, kw, k, K: k(st, new_exc(st, 'NoResultError')), '@for': h_for}, attr_kinds={})
        # contract of prepare_label (proved by part (1)) in terms of parse_label's real body is used through these axioms
        st.facts += [ForAll([x_], Implies(Or(Val.is_intv(x_), Val.is_strv(x_), Val.is_floatv(x_), Val.is_boolv(x_)), And(prep_text(x_) == str_(x_), prep_tag(x_) == Val.intv(tag_of(x_))))),
                     ForAll([x_], Implies(Val.is_bytesv(x_), And(prep_text(x_) == b64e(x_), prep_tag(x_) == Val.intv(MEMBER_VALUE['BYTES']))))]
        st.ghost = dict(kicks=IntVal(0), dumped=IntVal(-1))
        def on_exc(s, x):
            g = G(s); cid = s.heap.cls_of[Val.a(x)]
            oblige(s, "requeue/raises: NoResultError after exactly one send (or the send's own failure)  [C09/C11]", Or(And(CLS.sub_expr(cid, 'NoResultError'), g['kicks'] == 1), g['kicks'] == 1), replay=RP)
            reach(s, "requeue/reach@raise")
        # `raise NoResultError` raises the class: treat a raised class value as an instance of it
        orig_raise = exr.st_Raise
        def st_Raise(s_, st_, k, K):
            if s_.exc is not None and ast.unparse(s_.exc) == 'NoResultError': return K['exc'](st_, new_exc(st_, 'NoResultError'))
            return orig_raise(s_, st_, k, K)
        exr.st_Raise = st_Raise
        exr.run(REQUEUE, st, lambda s, vv: oblige(s, "requeue/post: always ends with NoResultError (no result is stored for the requeued attempt)  [C09/C11]", BoolVal(False), replay=RP), on_exc)
    run_requeue()
    src.note_paths('::prepare_label', cnt['prepare_paths']); src.note_paths('::parse_label', cnt['roundtrip_paths'])
    return {'enum_members': MEMBER_VALUE, 'parser_table': {kx: ast.unparse(vx) for kx, vx in TABLE.items()}, 'paths': dict(cnt)}
