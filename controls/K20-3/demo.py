"""Histories around exception_to_python (stored-error loading).

Run as: PYTHONPATH=<tree> /venv/bin/python demo.py

Checked property: whatever (module, type, args) a stored error claims, loading
it yields an exception instance or fails with SecurityError / a validation
error; no function is called, no non-exception class is instantiated, no module
is imported, and an unresolvable type yields a synthetic exception class of that
name.  Nothing here depends on whether classes are cached, so the program is
meant to pass on the tree with and without the cache.
"""
import gc
import os
import sys
import tempfile
import threading
import types

import taskiq
from taskiq.exceptions import SecurityError
from taskiq.serialization import ExceptionRepr, exception_to_python

print("taskiq from", taskiq.__file__)

CALLS = []  # every call of a trap function / instantiation of a trap class
CHECKS = 0


def trap(*args, **kwargs):
    CALLS.append(("trap function", args))
    return Exception("trap result")


class TrapClass:  # NOT an exception
    def __new__(cls, *args, **kwargs):
        CALLS.append(("TrapClass.__new__", args))
        return super().__new__(cls)

    def __init__(self, *args, **kwargs):
        CALLS.append(("TrapClass.__init__", args))


def check(cond, what):
    global CHECKS
    CHECKS += 1
    if not cond:
        print("FAILED:", what)
        sys.exit(1)


def rep(module, typ, args=("payload",), **kw):
    return ExceptionRepr(exc_type=typ, exc_message=args, exc_module=module, **kw)


def load(module, typ, args=("payload",), **kw):
    """Return ('exc', instance) or ('sec', error); anything else fails."""
    before = set(sys.modules)
    ncalls = len(CALLS)
    try:
        res = exception_to_python(rep(module, typ, args, **kw))
        out = ("exc", res)
        check(isinstance(res, BaseException), f"{module}.{typ}: result {res!r} is an exception")
    except SecurityError as err:
        out = ("sec", err)
    check(len(CALLS) == ncalls, f"{module}.{typ}: no trap called/instantiated, got {CALLS[ncalls:]}")
    check(set(sys.modules) <= before, f"{module}.{typ}: no module imported ({set(sys.modules) - before})")
    return out


def expect_real(module, typ, cls, args=("payload",)):
    kind, res = load(module, typ, args)
    check(kind == "exc" and type(res) is cls, f"{module}.{typ} -> instance of the live class {cls!r}, got {kind} {res!r}")
    check(res.args == tuple(args), f"{module}.{typ} args kept")


def expect_security(module, typ):
    kind, res = load(module, typ)
    check(kind == "sec", f"{module}.{typ} -> SecurityError, got {kind} {res!r}")


def expect_synthetic(module, typ, not_these=()):
    kind, res = load(module, typ)
    check(kind == "exc", f"{module}.{typ} -> synthetic exception, got {kind} {res!r}")
    cls = type(res)
    check(cls.__name__ == typ, f"{module}.{typ}: synthetic class is named {typ!r}, got {cls.__name__!r}")
    check(issubclass(cls, Exception), f"{module}.{typ}: synthetic class is an Exception subclass")
    want_mod = "taskiq.serialization" if module is None else "taskiq.exceptions"
    check(cls.__module__ == want_mod, f"{module}.{typ}: synthetic class lives in {want_mod}, got {cls.__module__}")
    check(all(cls is not c for c in not_these), f"{module}.{typ}: synthetic class is none of the former real classes")
    check(res.args == ("payload",), f"{module}.{typ}: args kept")
    return cls


def new_module(name, cls=types.ModuleType, **attrs):
    mod = cls(name)
    mod.__dict__.update(attrs)
    sys.modules[name] = mod
    return mod


def mkexc(name, base=Exception):
    return type(name, (base,), {})


# ---------------------------------------------------------------- H1
print("H1 repeated loads of real classes and of non-exception targets")
for _ in range(3):
    expect_real("builtins", "ValueError", ValueError)
    expect_real("builtins", "KeyboardInterrupt", KeyboardInterrupt)
    expect_real("asyncio.exceptions", "CancelledError", __import__("asyncio").CancelledError)
    for mod, typ in [("os", "system"), ("builtins", "eval"), ("builtins", "object"),
                     ("builtins", "dict"), ("os", "path"), ("os", "environ"),
                     ("os", "path.join"), ("builtins", "ValueError.__init__"),
                     ("builtins", "ValueError.__class__"), ("sys", "modules")]:
        expect_security(mod, typ)

# ---------------------------------------------------------------- H2
print("H2 unresolvable names: synthetic class, and an importable module is NOT imported")
tmp = tempfile.mkdtemp()
marker = os.path.join(tmp, "imported.marker")
with open(os.path.join(tmp, "c20_on_disk_mod.py"), "w") as f:
    f.write(f"open({marker!r}, 'w').close()\nclass Foo(Exception): pass\n")
sys.path.insert(0, tmp)
for _ in range(3):
    expect_synthetic("c20_on_disk_mod", "Foo")
    expect_synthetic("no.such.module", "Foo")
    expect_synthetic("os", "NoSuchThing")
    expect_synthetic("os", "path.nothing.here")
    expect_synthetic(None, "system")
    expect_synthetic(None, "eval")
    expect_synthetic(None, "ValueError", not_these=[ValueError])
check(not os.path.exists(marker) and "c20_on_disk_mod" not in sys.modules, "on-disk module never imported")

# ---------------------------------------------------------------- H3
print("H3 one name, state changed between loads (rebind, delete, unload, replace module, None entry)")
Foo1, Foo2, Foo3 = mkexc("Foo"), mkexc("Foo"), mkexc("Foo", BaseException)
m = new_module("c20_mod", Foo=Foo1)
expect_real("c20_mod", "Foo", Foo1)
expect_real("c20_mod", "Foo", Foo1)
m.Foo = trap
expect_security("c20_mod", "Foo")
m.Foo = TrapClass
expect_security("c20_mod", "Foo")
m.Foo = Foo1
expect_real("c20_mod", "Foo", Foo1)
m.Foo = Foo2
expect_real("c20_mod", "Foo", Foo2)
del m.Foo
expect_synthetic("c20_mod", "Foo", not_these=[Foo1, Foo2])
expect_synthetic("c20_mod", "Foo", not_these=[Foo1, Foo2])
m.Foo = Foo1
expect_real("c20_mod", "Foo", Foo1)  # a synthetic class seen before must not shadow the real one
del sys.modules["c20_mod"]
expect_synthetic("c20_mod", "Foo", not_these=[Foo1, Foo2])
m2 = new_module("c20_mod", Foo=Foo3)  # another module object under the same name
expect_real("c20_mod", "Foo", Foo3)
sys.modules["c20_mod"] = m
expect_real("c20_mod", "Foo", Foo1)
sys.modules["c20_mod"] = None  # import-blocking entry
expect_synthetic("c20_mod", "Foo", not_these=[Foo1, Foo2, Foo3])
sys.modules["c20_mod"] = m2
m2.Foo = trap
expect_security("c20_mod", "Foo")
m2.Foo = Foo3
expect_real("c20_mod", "Foo", Foo3)
del sys.modules["c20_mod"]

print("H3b first unresolvable, then the module appears, then it turns hostile")
expect_synthetic("c20_late", "Late")
late = new_module("c20_late", Late=Foo1)
expect_real("c20_late", "Late", Foo1)
late.Late = trap
expect_security("c20_late", "Late")
del late.Late
expect_synthetic("c20_late", "Late", not_these=[Foo1])
del sys.modules["c20_late"]

# ---------------------------------------------------------------- H4
print("H4 dotted names, holder rebound between loads, a literal 'A.B' key in the module dict")
Inner = mkexc("Inner")
Outer = type("Outer", (), {"Inner": Inner})
Evil = type("Outer", (), {"Inner": staticmethod(trap)})
d = new_module("c20_dot", Outer=Outer)
expect_real("c20_dot", "Outer.Inner", Inner)
expect_real("c20_dot", "Outer.Inner", Inner)
d.Outer = Evil
expect_security("c20_dot", "Outer.Inner")
d.__dict__["Outer.Inner"] = Inner  # must not be taken for the dotted path
expect_security("c20_dot", "Outer.Inner")
d.Outer = Outer
expect_real("c20_dot", "Outer.Inner", Inner)
Outer.Inner = TrapClass
expect_security("c20_dot", "Outer.Inner")
del Outer.Inner
expect_synthetic("c20_dot", "Outer.Inner", not_these=[Inner])
del sys.modules["c20_dot"]

# ---------------------------------------------------------------- H5
print("H5 modules with dynamic attribute lookup (module __getattr__, module subclass with a property, __class__ swap)")
current = [Foo1]
g = new_module("c20_dyn")
g.__dict__["__getattr__"] = lambda name: current[0] if name == "Foo" else (_ for _ in ()).throw(AttributeError(name))
expect_real("c20_dyn", "Foo", Foo1)
expect_real("c20_dyn", "Foo", Foo1)
current[0] = trap
expect_security("c20_dyn", "Foo")
current[0] = Foo2
expect_real("c20_dyn", "Foo", Foo2)
del sys.modules["c20_dyn"]


class PropModule(types.ModuleType):
    Foo = property(lambda self: current[0], lambda self, v: None)  # data descriptor beats __dict__


current[0] = Foo1
p = new_module("c20_prop", cls=PropModule, Foo=Foo1)
expect_real("c20_prop", "Foo", Foo1)
current[0] = trap  # the module dict still says Foo1
expect_security("c20_prop", "Foo")
current[0] = TrapClass
expect_security("c20_prop", "Foo")
del sys.modules["c20_prop"]

s = new_module("c20_swap", Foo=Foo1)
expect_real("c20_swap", "Foo", Foo1)
expect_real("c20_swap", "Foo", Foo1)
current[0] = trap
s.__class__ = PropModule  # lookup semantics of a known module change after the fact
expect_security("c20_swap", "Foo")
s.__class__ = types.ModuleType
expect_real("c20_swap", "Foo", Foo1)
del sys.modules["c20_swap"]

# ---------------------------------------------------------------- H6
print("H6 same names over and over with fresh objects (recycled ids), good and hostile alternating")
seen_ids = set()
recycled = 0
for i in range(300):
    good = i % 3 != 1
    obj = mkexc("R") if good else (trap if i % 2 else type("R", (), {"__init__": TrapClass.__init__}))
    mod = new_module("c20_recycle", R=obj)
    recycled += (id(mod), id(obj)) in seen_ids or id(obj) in {x[1] for x in seen_ids}
    seen_ids.add((id(mod), id(obj)))
    if good:
        expect_real("c20_recycle", "R", obj)
    else:
        expect_security("c20_recycle", "R")
    del sys.modules["c20_recycle"], mod, obj
    if i % 7 == 0:
        expect_synthetic("c20_recycle", "R")
    gc.collect()
print("   object ids seen again for a different object:", recycled)

# ---------------------------------------------------------------- H7
print("H7 thousands of distinct names (any bounded cache overflows), known names re-checked in between")
k = new_module("c20_many", Foo=Foo1, bad=trap)
for i in range(2600):
    expect_synthetic("c20_many", f"N{i}")
    if i % 500 == 0:
        expect_real("c20_many", "Foo", Foo1)
        expect_security("c20_many", "bad")
        expect_synthetic("c20_many", "N0")
for i in range(0, 2600, 100):
    setattr(k, f"N{i}", trap if i % 200 else Foo2)  # formerly unresolvable names now resolve
for i in range(0, 2600, 100):
    if i % 200:
        expect_security("c20_many", f"N{i}")
    else:
        expect_real("c20_many", f"N{i}", Foo2)
del sys.modules["c20_many"]

# ---------------------------------------------------------------- H8
print("H8 a synthetic class handed out earlier was renamed by its receiver")
c1 = expect_synthetic("c20_gone", "Gone")
c1.__name__ = "SomethingElse"
expect_synthetic("c20_gone", "Gone")
c2 = expect_synthetic(None, "Gone")
c2.__name__ = "system"
expect_synthetic(None, "Gone")
expect_synthetic(None, "system")

# ---------------------------------------------------------------- H9
print("H9 links: a hostile cause/context fails the whole load, nothing is called")
h = new_module("c20_link", Foo=Foo1, bad=trap)
for _ in range(2):
    kind, res = load("c20_link", "Foo", exc_cause=rep("c20_link", "bad"))
    check(kind == "sec", "hostile cause -> SecurityError")
    kind, res = load("c20_link", "Foo", exc_context=rep("os", "system", ("echo pwned",)))
    check(kind == "sec", "hostile context -> SecurityError")
    kind, res = load("c20_link", "Foo", exc_cause=rep("c20_link", "Foo"), exc_context=rep("nope", "Ctx"))
    check(kind == "exc" and type(res.__cause__) is Foo1 and type(res.__context__).__name__ == "Ctx", "good links load")
Strict = type("Strict", (Exception,), {"__init__": lambda self: None})
h.Strict = Strict
kind, res = load("c20_link", "Strict", ("too", "many"))
check(kind == "exc" and isinstance(res, Exception), "constructor that rejects the args -> fallback Exception")

# ---------------------------------------------------------------- H10
print("H10 validation: malformed stored errors are rejected before any lookup")
import pydantic  # noqa: E402

for bad_kw in [dict(exc_type=None, exc_message=(), exc_module="os"),
               dict(exc_type="system", exc_message=5, exc_module="os"),
               dict(exc_type="system", exc_message=(), exc_module=["os"])]:
    try:
        ExceptionRepr(**bad_kw)
        check(False, f"{bad_kw} rejected")
    except pydantic.ValidationError:
        check(True, "rejected")

# ---------------------------------------------------------------- H11
print("H11 concurrent loads while another thread flips the binding good <-> hostile <-> missing")
t = new_module("c20_thr", Foo=Foo1)
stop = threading.Event()
problems = []


def flipper():
    i = 0
    while not stop.is_set():
        i += 1
        step = i % 4
        if step == 0:
            t.Foo = Foo1
        elif step == 1:
            t.Foo = trap
        elif step == 2:
            t.__dict__.pop("Foo", None)
        else:
            t.Foo = Foo2


def loader():
    for _ in range(3000):
        try:
            res = exception_to_python(rep("c20_thr", "Foo"))
            if not isinstance(res, BaseException):
                problems.append(res)
            elif type(res) not in (Foo1, Foo2) and type(res).__name__ != "Foo":
                problems.append(type(res))
        except SecurityError:
            pass
        except BaseException as err:  # anything else is not allowed
            problems.append(err)


old_switch = sys.getswitchinterval()
sys.setswitchinterval(1e-5)
threads = [threading.Thread(target=flipper)] + [threading.Thread(target=loader) for _ in range(4)]
for th in threads:
    th.start()
for th in threads[1:]:
    th.join()
stop.set()
threads[0].join()
sys.setswitchinterval(old_switch)
check(not problems, f"concurrent loads: only exception instances or SecurityError, got {problems[:3]}")
check(not CALLS, f"concurrent loads: no trap called, got {CALLS[:3]}")
t.Foo = trap
expect_security("c20_thr", "Foo")
t.Foo = Foo2
expect_real("c20_thr", "Foo", Foo2)

check(not CALLS, "no trap function called and no non-exception class instantiated in the whole run")
check(not os.path.exists(marker), "no import of the on-disk module in the whole run")
print(f"OK: {CHECKS} checks passed")
