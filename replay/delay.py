"""Native replay for unit `delay` (C13/C14): run the REAL taskiq.cli.scheduler.run.get_task_delay on the verifier's counterexample
(frozen clock, stubbed pycron matcher that returns the model's value and records its arguments) and evaluate the statement's spec natively.
Run with /venv/bin/python.  stdin/argv[1]: scenario JSON {now_us, cron, cron_offset, time, is_now_value}."""
import sys, json, datetime as _dt
US = 1000000
EPOCH = _dt.datetime(2000, 1, 1, tzinfo=_dt.timezone.utc)      # model instants are relative; only differences and minute phase matter (epoch is minute aligned)

def decode(v, zone_for_tz=None):
    import pytz
    if v is None: return None
    if isinstance(v, dict) and 'str' in v: return v['str'] if not str(v['str']).startswith('<str#') else 'Europe/Berlin'
    if isinstance(v, dict) and 'td_us' in v: return _dt.timedelta(microseconds=v['td_us'])
    if isinstance(v, dict) and 'dt_us' in v:
        inst = EPOCH + _dt.timedelta(microseconds=v['dt_us'])
        if not v['aware']: return inst.replace(tzinfo=None)          # naive: wall value == model value
        if v['tz'] == 0: return inst.astimezone(pytz.UTC)
        off = ((v['tz'] * 37) % (27 * 4) - 13 * 4) * 15                # some fixed offset in [-13h, +14h), quarter-hour steps
        return inst.astimezone(_dt.timezone(_dt.timedelta(minutes=off)))
    return v

def run(sc):
    import pytz
    import taskiq.cli.scheduler.run as run_mod
    from taskiq.scheduler.scheduled_task import ScheduledTask
    now = EPOCH + _dt.timedelta(microseconds=sc['now_us'])
    reads = []
    class FrozenDT(_dt.datetime):
        @classmethod
        def now(cls, tz=None):
            reads.append(tz)
            return now.astimezone(tz) if tz is not None else now.replace(tzinfo=None)
    calls = []
    def fake_is_now(expr, dt):
        calls.append((expr, dt)); return bool(sc.get('is_now_value', False))
    run_mod.datetime = FrozenDT; run_mod.is_now = fake_is_now
    cron = decode(sc.get('cron')); off = decode(sc.get('cron_offset')); tm = decode(sc.get('time'))
    if cron is not None and str(cron) == '': cron = ''
    try: task = ScheduledTask(task_name='t', labels={}, args=[], kwargs={}, cron=cron, cron_offset=off, time=tm, schedule_id='x')          # through the model's validators, as every schedule source builds it
    except Exception: task = ScheduledTask.model_construct(task_name='t', labels={}, args=[], kwargs={}, cron=cron, cron_offset=off, time=tm, schedule_id='x')          # (a counter-model outside the model's domain)
    out = {'inputs': {'now': now.isoformat(), 'cron': cron, 'cron_offset': str(off), 'time': None if tm is None else tm.isoformat()}}
    try:
        res = run_mod.get_task_delay(task); out['result'] = res; exc = None
    except Exception as ex:
        res = None; exc = ex; out['raised'] = f"{type(ex).__name__}: {ex}"
    fails = []
    # ---- the statement's spec, natively
    if len(reads) != 1 or reads[0] is not pytz.UTC and str(reads[0]) != 'UTC': fails.append(f"clock reads: {reads}")
    if cron is not None:
        if off and isinstance(off, _dt.timedelta): shift = now + off
        elif off and isinstance(off, str): shift = now.astimezone(pytz.timezone(off))
        else: shift = now
        if exc is not None: fails.append("raised on the cron branch although the matcher did not raise")
        else:
            want = 0 if sc.get('is_now_value', False) else None
            if res != want: fails.append(f"cron: result {res!r}, expected {want!r}")
            if len(calls) != 1: fails.append(f"matcher consulted {len(calls)} times")
            elif calls[0][0] != cron or calls[0][1] != shift or calls[0][1].utcoffset() != shift.utcoffset():
                fails.append(f"matcher consulted with {calls[0]!r}, expected ({cron!r}, {shift!r})")
    elif tm is not None:
        T = tm if tm.tzinfo is not None else tm.replace(tzinfo=pytz.UTC)
        Tus = (T - EPOCH) // _dt.timedelta(microseconds=1); n = sc['now_us']
        H = (n // (60 * US)) * 60 * US + 61 * US
        if exc is not None: fails.append("raised on the time branch")
        elif calls: fails.append("cron matcher consulted on the time branch")
        elif Tus <= n:
            if res != 0: fails.append(f"T <= now but result {res!r}")
        elif Tus > H:
            if res is not None: fails.append(f"T beyond the horizon but result {res!r}")
        else:
            if not (isinstance(res, int) and not isinstance(res, bool) and Tus <= n + res * US < Tus + US):
                fails.append(f"delay {res!r} does not satisfy T <= now + d < T + 1s (T-now = {(Tus - n) / US} s)")
    out['spec_failures'] = fails; out['reproduced'] = bool(fails)
    return out

def sweep(sc):
    """bounded supplement: the REAL get_task_delay against the statement over a grid of instants and schedule times (incl. the boundaries +-1 us)"""
    import os, time as _time
    fails = []; n = 0
    for host_tz in ('UTC', 'JST-9', 'EST5EDT'):          # the host's local zone must not matter (naive values mean UTC)
        os.environ['TZ'] = host_tz; _time.tzset()
        f2, n2 = _sweep_one(sc, host_tz); fails += f2; n += n2
    os.environ['TZ'] = 'UTC'; _time.tzset()
    return {'reproduced': bool(fails), 'runs': n, 'n_failures': len(fails), 'failures': fails[:400]}

def _sweep_one(sc, host_tz):
    import random
    rnd = random.Random(sc.get('seed', 0)); fails = []; n = 0
    nows = [0, 1, 999999, 30 * US, 59 * US + 999999, 60 * US - 1, 45 * US + 500000, 3600 * US + 17 * US + 3,
            59 * 60 * US + 20 * US + 250000, 23 * 3600 * US + 59 * 60 * US + 59 * US + 999999] + [rnd.randrange(0, 10 ** 13) for _ in range(12)]          # incl. minute 59 of an hour and 23:59:59.999999 (field roll-over into the next hour / day)
    for now in nows:
        H = (now // (60 * US)) * 60 * US + 61 * US
        offs = [-2 * 86400 * US, -US, -1, 0, 1, 2, US - 1, US, US + 1, H - now - 1, H - now, H - now + 1, 59 * US, 60 * US, 61 * US, 2 * 86400 * US] + [rnd.randrange(-3 * 60 * US, 3 * 60 * US) for _ in range(10)]
        for off in offs:
            for aware, tz in ((False, 0), (True, 0), (True, 3), (True, 11)):
                if now + off < 0: continue
                s = {'now_us': now, 'cron': None, 'cron_offset': None, 'time': {'dt_us': now + off, 'aware': aware, 'tz': tz}, 'is_now_value': False}
                r = run(s); n += 1
                if r['spec_failures']: fails.append({'key': f"now={now} T-now={off}us aware={aware} tz={tz}", 'inputs': r['inputs'], 'result': r.get('result', r.get('raised')), 'failed_clauses': [pid_ + ': ' + x for x in r['spec_failures'] for pid_ in ('C14', 'C15')]})
        for off in (None, {'td_us': 0}, {'td_us': 3600 * US}, {'td_us': -26 * 3600 * US + 1}, {'str': 'Europe/Berlin'}, {'str': 'Asia/Kathmandu'}, {'str': 'UTC'}):
            for val in (True, False):
                s = {'now_us': now, 'cron': {'str': '*/5 * * * *'}, 'cron_offset': off, 'time': None, 'is_now_value': val}
                r = run(s); n += 1
                if r['spec_failures']: fails.append({'key': f"now={now} cron offset={off} matcher={val}", 'inputs': r['inputs'], 'result': r.get('result', r.get('raised')), 'failed_clauses': ['C13: ' + x for x in r['spec_failures']]})
    for f_ in fails: f_['key'] += f" host TZ={host_tz}"
    return fails, n

if __name__ == '__main__':
    sc = json.load(open(sys.argv[1])) if len(sys.argv) > 1 else json.load(sys.stdin)
    sc = sc.get('scenario', sc)
    print(json.dumps(sweep(sc) if 'now_us' not in sc else run(sc), default=str))
