"""Unit `delay`: taskiq/cli/scheduler/run.py::get_task_delay (+ to_tz_aware inlined)  — C13 (cron branch), C14 (time branch).

Contract (DESIGN Appendix A.1). The postcondition is taken from the property statements, over integer microseconds:
  C13  result == (0 if is_now(task.cron, SHIFT) else None), is_now called exactly once with exactly (task.cron, SHIFT),
       SHIFT = now (UTC) | now + offset (timedelta) | now.astimezone(pytz.timezone(offset)) (str); clock read once with tz=UTC.
  C14  T <= now ==> 0 ;  T > H ==> None ;  now < T <= H ==> integer d with T <= now + d*1s < T + 1s ;  H = floor(now/60s)*60s + 61s.
"""
import ast
from z3 import *
from pyvc.core import *

PROPS = ['C13', 'C14', 'C15']
REPLAY = {'driver': 'delay'}
REL = 'taskiq/cli/scheduler/run.py'
US = 1000000
TRUSTED = [
    "datetime theory D1: aware datetimes compare/subtract by instant; naive vs aware comparison raises TypeError",
    "datetime theory D2: aware + timedelta adds to the instant (UTC zone)",
    "datetime theory D3: .replace(second=,microsecond=) on a UTC datetime acts on the UTC wall fields (floor to the minute + given fields)",
    "datetime theory D4: timedelta.microseconds == td mod 1e6 (normalised, Euclidean)",
    "datetime theory D5: int(td.total_seconds()) == td div 1s for 0 <= td <= 61 s (range side condition is a proved obligation)",
    "datetime theory D6: for an aware x, x.astimezone(tz) depends only on the instant x denotes and on tz, and x.astimezone(pytz.UTC) is that instant in UTC; on a naive x astimezone() uses the host's local zone (unmodelled: fresh value)",
    "naive.replace(tzinfo=pytz.UTC) keeps the wall value as the UTC instant",
    "pycron.is_now(expr, dt): uninterpreted predicate of (expr, wall-clock value of dt) - it reads only dt's wall fields; may raise ValueError",
    "datetime theory D7: datetime.timezone(td) / pytz.FixedOffset(minutes) are fixed-offset zones (ValueError outside +-24 h); aware.astimezone(fixed zone) denotes the same instant and its wall clock reads instant + offset; the wall clock of a UTC-zoned datetime reads its instant; of any other zone: uninterpreted",
    "pytz.timezone(name): uninterpreted, may raise KeyError (UnknownTimeZoneError); dt.astimezone(tz): uninterpreted function of (dt, tz)",
    "attribute reads on ScheduledTask have no side effects",
]
# pycron.is_now(expr, dt) reads only the WALL-CLOCK fields of dt (minute, hour, day, month, weekday): it is a predicate of the expression and of the
# wall value. For a UTC-zoned datetime the wall value is the instant; for a datetime in a fixed-offset zone it is instant + offset (D7); for every
# other zone (pytz.timezone(name)) it is an uninterpreted function of the datetime value.
_is_now_w = Function('is_now', Val, IntSort(), BoolSort())
_wall = Function('wall_clock_us', Val, IntSort())
def wallv(v): return If(And(Val.is_dt(v), Val.tz(v) == 0), Val.us(v), _wall(v))
def is_now(c, v): return _is_now_w(c, wallv(v))
class FixedZone:
    """datetime.timezone(td) / pytz.FixedOffset(minutes): a zone whose utcoffset is the constant off_us"""
    def __init__(self, off_us): self.off_us = off_us
_astz_inst = Function('astimezone_of_instant', IntSort(), Val, Val)
_astz_naive = Function('astimezone_of_naive', Val, Val, Val)
def astz(v, tz):
    """x.astimezone(tz): for an aware x the result depends only on the INSTANT x denotes and on tz (not on the zone x was expressed in); naive x: host zone, unmodelled"""
    return If(Val.aware(v), _astz_inst(Val.us(v), tz), _astz_naive(v, tz))
pytz_timezone = Function('pytz_timezone', Val, Val)
UTC = 'TZ:UTC'
MINUS, MAXUS = 62135596800 * 0, 253402300799 * US      # year 1 .. 9999 relative to year 1 (only the width matters)


class Ex(Exec):
    def __init__(self, handlers, src):
        super().__init__(handlers); self.src = src
    def ev_Name(self, e, st, k, K):
        if e.id in ('timedelta', 'str', 'datetime') and e.id not in st.env: return k(st, 'CLS:' + e.id)
        return super().ev_Name(e, st, k, K)
    def ev_Attribute(self, e, st, k, K):
        p = ast.unparse(e)
        if p == 'pytz.UTC': return k(st, UTC)
        if e.attr in ('microseconds', 'tzinfo', 'seconds', 'days') and ((isinstance(e.value, ast.Name) and e.value.id in st.env and is_expr(st.env[e.value.id]) and st.env[e.value.id].sort() == Val)
                                                                         or (isinstance(e.value, ast.Attribute) and isinstance(e.value.value, ast.Name) and e.value.value.id == 'task' and isinstance(st.env.get('task'), dict))):
            def on_base(s1, base):
                base = to_val(base)
                if e.attr == 'microseconds': return k(s1, PyInt(Val.tus(base) % US))
                if e.attr == 'seconds': return k(s1, PyInt((Val.tus(base) / US) % 86400))
                if e.attr == 'days': return k(s1, PyInt(Val.tus(base) / (86400 * US)))
                if e.attr == 'tzinfo': return k(s1, If(Val.aware(base), Val.ref(Val.tz(base) + 1000), Val.none))
            return self.ev(e.value, st, on_base, K)
        if isinstance(e.value, ast.Name) and e.value.id == 'task' and isinstance(st.env.get('task'), dict):
            if e.attr in ('schedule_id', 'task_name', 'labels', 'args', 'kwargs', 'source'): return k(st, Const('task_' + e.attr + '_opaque', Val))          # fields the statement does not mention (used for log texts): opaque, constant per task
            if e.attr not in st.env['task']: raise Unsupported("attribute of ScheduledTask outside the contract: " + p)
            return k(st, st.env['task'][e.attr])
        return super().ev_Attribute(e, st, k, K)
    def compare(self, op, l, r, st):
        return super().compare(op, l, r, st)
    def ev_Compare(self, e, st, k, K):
        if len(e.ops) == 1 and isinstance(e.ops[0], (ast.Lt, ast.LtE, ast.Gt, ast.GtE)):
            def got(st2, vs):
                l, r = to_val(vs[0]), to_val(vs[1])
                both_dt = And(Val.is_dt(l), Val.is_dt(r))
                def dtcmp(s3):
                    def ok(s4):
                        a, b = Val.us(l), Val.us(r)
                        return k(s4, PyBool({ast.Lt: a < b, ast.LtE: a <= b, ast.Gt: a > b, ast.GtE: a >= b}[type(e.ops[0])]))
                    def bad(s4):
                        setG(s4, raised_by='naive/aware comparison'); return K['exc'](s4, new_exc(s4, 'TypeError'))
                    return self.branch(s3, Val.aware(l) == Val.aware(r), ok, bad)
                def intcmp(s3):
                    return k(s3, PyBool(Exec.compare(self, e.ops[0], vs[0], vs[1], s3)))
                return self.branch(st2, both_dt, dtcmp, intcmp)
            return self.ev_list([e.left, e.comparators[0]], st, got, K)
        return super().ev_Compare(e, st, k, K)
    def ev_BinOp(self, e, st, k, K):
        def got(st2, vs):
            l, r = vs
            if isinstance(l, (PyInt, int)) and isinstance(r, (PyInt, int)):
                a, b = self.as_int(l), self.as_int(r)
                if isinstance(e.op, ast.Add): return k(st2, PyInt(a + b))
                if isinstance(e.op, ast.Sub): return k(st2, PyInt(a - b))
                if isinstance(e.op, ast.Mult): return k(st2, PyInt(a * b))
                # // and % by a positive integer literal: z3's integer div/mod are Euclidean, which coincides with Python's floor division for b > 0
                if isinstance(e.op, (ast.FloorDiv, ast.Mod)) and isinstance(r, int) and not isinstance(r, bool) and r > 0:
                    return k(st2, PyInt(a / b if isinstance(e.op, ast.FloorDiv) else a % b))
                raise Unsupported("binary operator " + ast.unparse(e))
            lv, rv = to_val(l), to_val(r)
            if isinstance(e.op, ast.Add):
                # datetime + timedelta (the only Add on Val-sorted operands in this function)
                def dt_td(s3): return k(s3, Val.dt(Val.us(lv) + Val.tus(rv), Val.aware(lv), Val.tz(lv)))
                def other(s3): return k(s3, PyInt(Val.i(lv) + Val.i(rv)))
                return self.branch(st2, And(Val.is_dt(lv), Val.is_td(rv)), dt_td, other)
            if isinstance(e.op, ast.Sub):
                def dt_dt(s3):
                    def ok(s4): return k(s4, Val.td(Val.us(lv) - Val.us(rv)))
                    def bad(s4):
                        setG(s4, raised_by='naive/aware subtraction'); return K['exc'](s4, new_exc(s4, 'TypeError'))
                    return self.branch(s3, Val.aware(lv) == Val.aware(rv), ok, bad)
                def dt_td(s3): return k(s3, Val.dt(Val.us(lv) - Val.tus(rv), Val.aware(lv), Val.tz(lv)))
                def other(s3): return self.branch(s3, And(Val.is_dt(lv), Val.is_td(rv)), dt_td, lambda s4: k(s4, PyInt(Val.i(lv) - Val.i(rv))))
                return self.branch(st2, And(Val.is_dt(lv), Val.is_dt(rv)), dt_dt, other)
            raise Unsupported("binary operator " + ast.unparse(e))
        return self.ev_list([e.left, e.right], st, got, K)


def h_now(ex, st, e, recv, args, kw, k, K):
    g = G(st)
    oblige(st, "get_task_delay/clock: read with tz=pytz.UTC (aware, UTC)  [C13/C14]", BoolVal(len(args) == 0 and set(kw) == {'tz'} and kw.get('tz') == UTC))
    setG(st, clock_reads=g['clock_reads'] + 1)
    return k(st, g['now'])
def h_isinstance(ex, st, e, recv, args, kw, k, K):
    v = to_val(args[0]); c = args[1]
    if c == 'CLS:timedelta': return k(st, PyBool(Val.is_td(v)))
    if c == 'CLS:str': return k(st, PyBool(Val.is_strv(v)))
    if c == 'CLS:datetime': return k(st, PyBool(Val.is_dt(v)))
    raise Unsupported("isinstance against " + ast.unparse(e.args[1]))
def h_is_now(ex, st, e, recv, args, kw, k, K):
    g = G(st); a0, a1 = to_val(args[0]), to_val(args[1])
    setG(st, is_now_calls=g['is_now_calls'] + 1, is_now_a0=a0, is_now_a1=a1)
    ok = st.fork(); k(ok, PyBool(is_now(a0, a1)))
    f = st.fork(); setG(f, raised_by='is_now'); K['exc'](f, new_exc(f, 'ValueError'))
def h_timedelta(ex, st, e, recv, args, kw, k, K):
    unit = {'microseconds': 1, 'milliseconds': 1000, 'seconds': US, 'minutes': 60 * US, 'hours': 3600 * US, 'days': 86400 * US, 'weeks': 7 * 86400 * US}
    order = ['days', 'seconds', 'microseconds', 'milliseconds', 'minutes', 'hours', 'weeks']          # positional order of datetime.timedelta
    if len(args) > len(order) or any(order[i] in kw for i in range(len(args))): raise Unsupported("timedelta arguments")
    kw = dict(kw, **{order[i]: a for i, a in enumerate(args)})
    tot = IntVal(0)
    for kx, v in kw.items():
        if kx not in unit: raise Unsupported("timedelta keyword " + kx)
        tot = tot + ex.as_int(v) * unit[kx]
    return k(st, Val.td(tot))
def h_to_tz_aware(ex, st, e, recv, args, kw, k, K):
    return ex.call_inline(ex.src.func(REL, 'to_tz_aware'), args, st, k, K)
def h_int(ex, st, e, recv, args, kw, k, K):
    v = args[0]
    if isinstance(v, tuple) and v[0] == 'secs':        # int(td.total_seconds())
        tus = v[1]
        oblige(st, "get_task_delay/range@int(total_seconds()): 0 <= delay <= 61 s (float conversion exact)  [C14/C15]", And(tus >= 0, tus <= 61 * US))
        return k(st, PyInt(tus / US))
    return k(st, PyInt(ex.as_int(v)))
def h_fixed_zone(ex, st, e, recv, args, kw, k, K):
    """datetime.timezone(offset: timedelta) - ValueError unless -24 h < offset < 24 h; pytz.FixedOffset(minutes: int) - ValueError unless |minutes| < 1440"""
    name = ast.unparse(e.func)
    if len(args) != 1 or kw: raise Unsupported("fixed-offset zone arguments: " + ast.unparse(e))
    if name.endswith('FixedOffset'):
        off = ex.as_int(args[0]) * 60 * US; isok = BoolVal(True) if isinstance(args[0], (PyInt, int)) else Val.is_intv(to_val(args[0]))
    else:
        v = to_val(args[0]); off = Val.tus(v); isok = Val.is_td(v)
    def typed(s1):
        def ok(s2): return k(s2, FixedZone(off))
        def bad(s2): setG(s2, raised_by=name + ' (offset out of range)'); return K['exc'](s2, new_exc(s2, 'ValueError'))
        return ex.branch(s1, And(off > -86400 * US, off < 86400 * US), ok, bad)
    def untyped(s1): setG(s1, raised_by=name + ' (argument type)'); return K['exc'](s1, new_exc(s1, 'TypeError'))
    return ex.branch(st, isok, typed, untyped)
def h_astimezone(ex, st, e, recv, args, kw, k, K):
    if len(args) == 1 and isinstance(args[0], FixedZone):
        # D7: aware.astimezone(fixed zone) is the same instant; its wall clock reads instant + offset
        b = to_val(recv); r = fresh('in_fixed_zone')
        def aw(s1):
            s1.pc += [Val.is_dt(r), Val.us(r) == Val.us(b), Val.aware(r), Val.tz(r) != 0, _wall(r) == Val.us(b) + args[0].off_us]; return k(s1, r)
        def nv(s1): return k(s1, fresh('astimezone_of_a_naive_value_uses_the_host_zone'))
        return ex.branch(st, And(Val.is_dt(b), Val.aware(b)), aw, nv)
    if len(args) == 1 and args[0] is UTC or (is_expr(args[0]) and is_expr(UTC) and args[0].eq(UTC)):
        # D6: aware.astimezone(UTC) is the same instant expressed in UTC; on a NAIVE value astimezone() assumes the host's local zone (not modelled: fresh value)
        b = to_val(recv); return k(st, If(Val.aware(b), Val.dt(Val.us(b), BoolVal(True), IntVal(0)), fresh('astimezone_of_a_naive_value_uses_the_host_zone')))
    r = astz(to_val(recv), to_val(args[0])); st.pc.append(Val.is_dt(r)); return k(st, r)
def h_pytz_timezone(ex, st, e, recv, args, kw, k, K):
    ok = st.fork(); k(ok, pytz_timezone(to_val(args[0])))
    f = st.fork(); setG(f, raised_by='pytz.timezone'); K['exc'](f, new_exc(f, 'KeyError'))
def h_replace(ex, st, e, recv, args, kw, k, K):
    b = to_val(recv)
    if set(kw) == {'tzinfo'}:
        if kw['tzinfo'] != UTC: raise Unsupported("replace(tzinfo=<not pytz.UTC>)")
        return k(st, Val.dt(Val.us(b), BoolVal(True), IntVal(0)))
    if set(kw) <= {'second', 'microsecond'} and kw:
        us = Val.us(b); minute = (us / (60 * US)) * (60 * US)
        sec = ex.as_int(kw['second']) * US if 'second' in kw else ((us / US) % 60) * US
        mic = ex.as_int(kw['microsecond']) if 'microsecond' in kw else us % US
        # D3 only for UTC-zoned values: anything else is not modelled (fresh value => dependent clauses cannot be proved)
        return k(st, If(Val.tz(b) == 0, Val.dt(minute + sec + mic, Val.aware(b), Val.tz(b)), fresh('replace_on_non_utc')))
    raise Unsupported("datetime.replace(" + ", ".join(kw) + ")")
def h_total_seconds(ex, st, e, recv, args, kw, k, K): return k(st, ('secs', Val.tus(to_val(recv))))


def generate(src):
    fdef = src.func(REL, 'get_task_delay'); src.func(REL, 'to_tz_aware')
    now_us = Int('now_us'); now = Val.dt(now_us, BoolVal(True), IntVal(0))
    task = {kx: Const('task_' + kx, Val) for kx in ('cron', 'cron_offset', 'time')}
    st = State()
    pre = [now_us >= 0, now_us <= MAXUS, Or(Val.is_none(task['cron']), Val.is_strv(task['cron'])),
           Or(Val.is_none(task['time']), Val.is_dt(task['time'])),
           Or(Val.is_none(task['cron_offset']), Val.is_strv(task['cron_offset']), Val.is_td(task['cron_offset'])),
           Or(task['cron'] != Val.none, task['time'] != Val.none),                     # ScheduledTask validator
           Implies(Val.is_dt(task['time']), And(Val.us(task['time']) >= 0, Val.us(task['time']) <= MAXUS, Val.tz(task['time']) >= 0,
                                                Implies(Not(Val.aware(task['time'])), Val.tz(task['time']) == 0)))]
    # signature: get_task_delay(task) - or get_task_delay(task, <instant>=None): then the contract is proved twice, (A) for the default (None: the
    # function reads the clock itself) and (B) for an explicit aware-UTC instant (the function must use THAT instant; the caller's duty to pass
    # a UTC-aware clock read taken after the listing is an obligation at the call site, unit u_sched_loop).
    params = [a.arg for a in fdef.args.args]
    if params[:1] != ['task'] or fdef.args.vararg or fdef.args.kwarg or fdef.args.kwonlyargs or len(params) > 2: raise Unsupported("get_task_delay signature: " + ast.unparse(fdef.args))
    extra = params[1:]
    if extra and not (len(fdef.args.defaults) == 1 and isinstance(fdef.args.defaults[0], ast.Constant) and fdef.args.defaults[0].value is None):
        raise Unsupported("get_task_delay signature (extra parameter without default None): " + ast.unparse(fdef.args))
    H = {'logger.*': noop, 'datetime.now': h_now, 'isinstance': h_isinstance, 'is_now': h_is_now, 'timedelta': h_timedelta, 'to_tz_aware': h_to_tz_aware,
         'int': h_int, '*.astimezone': h_astimezone, 'timezone': h_fixed_zone, 'datetime.timezone': h_fixed_zone, 'pytz.FixedOffset': h_fixed_zone, 'FixedOffset': h_fixed_zone, 'pytz.timezone': h_pytz_timezone, '*.replace': h_replace, '*.total_seconds': h_total_seconds}
    ex = Ex(H, src); ex.inline_scope = (src, REL, None)          # helpers of the same file without a contract are executed with their real body
    W = {'now_us': now_us, 'cron': task['cron'], 'cron_offset': task['cron_offset'], 'time': task['time']}
    off = task['cron_offset']
    SHIFT = If(And(truthy(off), Val.is_td(off)), Val.dt(now_us + Val.tus(off), BoolVal(True), IntVal(0)),
               If(And(truthy(off), Val.is_strv(off)), astz(now, pytz_timezone(off)), now))
    T = Val.us(task['time']); Hz = (now_us / (60 * US)) * (60 * US) + 60 * US + US
    exits = {'return': 0, 'raise': 0}
    rp = {'driver': 'delay'}
    def on_ret(s, v):
        exits['return'] += 1; g = G(s); r = to_val(v)
        W2 = {'result': r, 'is_now_value': is_now(task['cron'], SHIFT)}
        cronb = task['cron'] != Val.none
        oblige(s, "get_task_delay/post: cron schedule is due iff its expression matches the shifted current minute  [C13]",
               Implies(cronb, r == If(is_now(task['cron'], SHIFT), Val.intv(0), Val.none)), witness=W2, replay=rp)
        oblige(s, "get_task_delay/post: is_now consulted exactly once with (task.cron, shifted now)  [C13]",
               Implies(cronb, And(g['is_now_calls'] == 1, g['is_now_a0'] == task['cron'], Val.is_dt(g['is_now_a1']), wallv(g['is_now_a1']) == wallv(SHIFT))), witness=W2, replay=rp)
        if not g['__explicit']: oblige(s, "get_task_delay/post: the clock is read exactly once  [C13/C14]", g['clock_reads'] == 1, witness=W2, replay=rp)
        timeb = And(task['cron'] == Val.none, task['time'] != Val.none)
        oblige(s, "get_task_delay/post: T <= now ==> due immediately (0)  [C14/C15]", Implies(And(timeb, T <= now_us), r == Val.intv(0)), witness=W2, replay=rp)
        oblige(s, "get_task_delay/post: T more than 1 s past the next minute boundary ==> left for a later poll (None)  [C14/C15]", Implies(And(timeb, T > Hz), r == Val.none), witness=W2, replay=rp)
        oblige(s, "get_task_delay/post: otherwise whole seconds d with T <= now + d < T + 1 s  [C14/C15]",
               Implies(And(timeb, now_us < T, T <= Hz), And(Val.is_intv(r), T <= now_us + Val.i(r) * US, now_us + Val.i(r) * US < T + US)), witness=W2, replay=rp)
        oblige(s, "get_task_delay/post: the time branch never consults the cron matcher  [C14/C15]", Implies(timeb, g['is_now_calls'] == 0), witness=W2, replay=rp)
        reach(s, f"get_task_delay/reach@return#{exits['return']}", witness=W2, replay=rp)
    def on_exc(s, x):
        exits['raise'] += 1; g = G(s)
        oblige(s, "get_task_delay/raises: only what is_now raises (ValueError) or an unknown zone name (KeyError from pytz.timezone)  [C13/C14]",
               BoolVal(g['raised_by'] in ('is_now', 'pytz.timezone')), witness={'raised_by': STR.get(str(g['raised_by']))}, replay=rp)
        oblige(s, "get_task_delay/raises: never on the time branch  [C14/C15]", task['cron'] != Val.none, replay=rp)
    for explicit in ([False, True] if extra else [False]):
        st = State(); st.pc = list(pre); st.env = {'task': task}; tag = "(explicit instant) " if explicit else ""
        other_us = Int('other_clock_us')
        if extra: st.env[extra[0]] = now if explicit else None
        if explicit: st.pc += [other_us >= 0, other_us <= MAXUS]
        st.ghost = dict(now=Val.dt(other_us, BoolVal(True), IntVal(0)) if explicit else now, clock_reads=IntVal(0), is_now_calls=IntVal(0), is_now_a0=Val.none, is_now_a1=Val.none, raised_by=None,
                        __witness=W, __explicit=explicit, __tag=tag)
        ex.run(fdef, st, on_ret, on_exc)
    src.note_paths('::get_task_delay', exits['return'] + exits['raise'])
    # ---------------- ScheduledTask's model validator (every schedule source builds its schedules through it): it only CHECKS, it changes no field
    VREL = 'taskiq/scheduler/scheduled_task/v2.py'
    try: vcls = src.func(VREL, 'ScheduledTask')
    except Unsupported: vcls = None
    vals_ = [n_ for n_ in (vcls.body if vcls is not None else []) if isinstance(n_, ast.FunctionDef) and any('model_validator' in ast.unparse(d) for d in n_.decorator_list)]
    for vf in vals_:
        sv = State(); me = Int('schedule_addr'); sv.env = {vf.args.args[0].arg: PyObj(me)}; h0 = sv.heap
        F0 = {f: h0.field(f)[me] for f in ('cron', 'cron_offset', 'time', 'task_name', 'args', 'kwargs', 'labels', 'schedule_id')}
        exv = Exec({'ValueError': lambda ex_, st_, e, r, a, kw, k, K: k(st_, new_exc(st_, 'ValueError')), 'isinstance': lambda ex_, st_, e, r, a, kw, k, K: (approx(st_, 'isinstance in the model validator'), k(st_, PyBool(fresh('isinst', BoolSort()))))[1]})
        def v_ret(s, v, F0=F0, me=me, vf=vf):
            oblige(s, f"ScheduledTask.{vf.name}/post: the validator returns the schedule itself with cron, cron_offset and time exactly as given (it only checks)  [C13/C14]",
                   And(to_val(v) == Val.ref(me), *[s.heap.field(f)[me] == F0[f] for f in ('cron', 'cron_offset', 'time')]))
            reach(s, f"ScheduledTask.{vf.name}/reach@return")
        def v_exc(s, x, F0=F0, vf=vf):
            oblige(s, f"ScheduledTask.{vf.name}/raises: only for a schedule with neither cron nor time  [C13/C14]", And(F0['cron'] == Val.none, F0['time'] == Val.none))
        exv.run(vf, sv, v_ret, v_exc)
    # vacuity of the precondition itself
    s0 = State(); s0.pc = list(pre); reach(s0, "get_task_delay/reach@precondition")
    return {'exits': exits}
