#!/bin/sh
# tools/import_all.sh [seed-source-root]   (default /tmp/wt): verify + test every seed found there and store it under seeded/
R=${1:-/tmp/wt}; cd "$(dirname "$0")/.."
for d in "$R"/C??_out/?; do
  id=$(basename "$(dirname "$d")" | sed 's/_out//')-$(basename "$d"); prop=$(echo "$id" | cut -c1-3)
  [ -f "$d/patch.diff" ] && tools/import_seed.py "$d" "$id" "$prop" 2>&1 | tail -1 | cut -c1-200
done
echo ALLDONE
