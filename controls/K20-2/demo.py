"""Demo for property C20 (negative control K2: stand-in class + warnings on error paths).

Run as:
    cd /tmp/wt/C20 && PYTHONPATH=/tmp/wt/C20 /venv/bin/python /tmp/wt/C20_out/keep2/demo.py

Checks, on many payloads (module, dotted type name, args, nested cause/context):
  * loading yields a BaseException instance or fails with SecurityError /
    pydantic ValidationError - nothing else;
  * no planted trap (function, non-exception class, callable instance,
    patched os.system / builtins) is ever called or instantiated;
  * no module is imported (sys.modules unchanged, import hook never fires);
  * unresolvable names give a synthetic Exception subclass of that name;
  * exception classes whose constructor rejects the stored arguments still
    load as an exception instance (generic or stand-in), at any nesting level.
Exits 0 when everything holds (both on the original and the changed code).
"""

import builtins
import importlib.abc
import itertools
import logging
import os
import sys
import threading
import types
from typing import Any, Dict, List, Optional, Tuple

import pydantic

import taskiq.exceptions
from taskiq import serialization
from taskiq.exceptions import SecurityError
from taskiq.result import TaskiqResult
from taskiq.serialization import ExceptionRepr, exception_to_python

FAILURES: List[str] = []
TRAP_HITS: List[str] = []
IMPORT_ATTEMPTS: List[str] = []


def fail(msg: str) -> None:
    FAILURES.append(msg)
    sys.stdout.write(f"FAIL: {msg}\n")


# --------------------------------------------------------------------------
# Planted module with traps.
# --------------------------------------------------------------------------
def trap_function(*args: Any, **kwargs: Any) -> None:
    TRAP_HITS.append(f"trap_function{args}")


class TrapClass:
    """Non-exception class, records instantiation."""

    def __new__(cls, *args: Any, **kwargs: Any) -> "TrapClass":
        TRAP_HITS.append(f"TrapClass.__new__{args}")
        return super().__new__(cls)

    def __init__(self, *args: Any, **kwargs: Any) -> None:
        TRAP_HITS.append(f"TrapClass.__init__{args}")

    class NestedTrap:
        def __init__(self, *args: Any, **kwargs: Any) -> None:
            TRAP_HITS.append(f"NestedTrap.__init__{args}")

    class NestedError(Exception):
        pass

    @staticmethod
    def static_trap(*args: Any) -> None:
        TRAP_HITS.append(f"static_trap{args}")


class CallableInstance:
    def __call__(self, *args: Any, **kwargs: Any) -> None:
        TRAP_HITS.append(f"CallableInstance.__call__{args}")


class TrapMeta(type):
    """Metaclass of a non-exception class: calling the class is recorded."""

    def __call__(cls, *args: Any, **kwargs: Any) -> Any:
        TRAP_HITS.append(f"TrapMeta.__call__({cls.__name__}){args}")
        return None


class MetaTrapClass(metaclass=TrapMeta):
    pass


class GoodError(Exception):
    pass


class PickyError(Exception):
    """Exception class whose constructor rejects the stored arguments."""

    def __init__(self, a: int, b: int) -> None:
        super().__init__(a, b)


class BaseOnly(BaseException):
    pass


class AngryError(Exception):
    """Exception class whose constructor always raises."""

    def __init__(self, *args: Any) -> None:
        raise RuntimeError("constructor refuses")


class Holder:
    class InnerPicky(Exception):
        def __init__(self, *, keyword_only: int) -> None:
            super().__init__(keyword_only)


planted = types.ModuleType("c20_planted_mod")
planted.trap_function = trap_function  # type: ignore
planted.TrapClass = TrapClass  # type: ignore
planted.instance = CallableInstance()  # type: ignore
planted.MetaTrapClass = MetaTrapClass  # type: ignore
planted.GoodError = GoodError  # type: ignore
planted.PickyError = PickyError  # type: ignore
planted.BaseOnly = BaseOnly  # type: ignore
planted.AngryError = AngryError  # type: ignore
planted.Holder = Holder  # type: ignore
planted.submodule = os  # type: ignore
planted.number = 7  # type: ignore
planted.exc_instance = ValueError("i am an instance")  # type: ignore
sys.modules["c20_planted_mod"] = planted


# --------------------------------------------------------------------------
# Import monitoring.
# --------------------------------------------------------------------------
class RecordingFinder(importlib.abc.MetaPathFinder):
    def find_spec(self, fullname: str, path: Any, target: Any = None) -> None:
        IMPORT_ATTEMPTS.append(fullname)
        return None


UNLOADED_MODULES = ["this", "antigravity", "turtledemo", "c20_not_existing_mod"]
for _m in UNLOADED_MODULES:
    assert _m not in sys.modules, _m


# --------------------------------------------------------------------------
# Payload catalogue: (module, type name, kind)
#   kind: "exc"      - resolves to an exception class
#         "bad"      - resolves to something that is not an exception class
#         "unres"    - resolves to nothing
# --------------------------------------------------------------------------
CATALOGUE: List[Tuple[Optional[str], str, str]] = [
    # functions / builtins
    ("os", "system", "bad"),
    ("os", "path.join", "bad"),
    ("builtins", "eval", "bad"),
    ("builtins", "exec", "bad"),
    ("builtins", "print", "bad"),
    ("builtins", "__import__", "bad"),
    ("c20_planted_mod", "trap_function", "bad"),
    ("c20_planted_mod", "TrapClass.static_trap", "bad"),
    # non exception classes
    ("builtins", "object", "bad"),
    ("builtins", "dict", "bad"),
    ("builtins", "type", "bad"),
    ("c20_planted_mod", "TrapClass", "bad"),
    ("c20_planted_mod", "TrapClass.NestedTrap", "bad"),
    ("c20_planted_mod", "MetaTrapClass", "bad"),
    ("c20_planted_mod", "GoodError.__class__", "bad"),  # -> type
    ("c20_planted_mod", "GoodError.__base__.__base__.__base__", "bad"),  # object
    # instances / modules / plain values
    ("c20_planted_mod", "instance", "bad"),
    ("c20_planted_mod", "exc_instance", "bad"),
    ("c20_planted_mod", "number", "bad"),
    ("c20_planted_mod", "submodule", "bad"),
    ("c20_planted_mod", "submodule.system", "bad"),
    ("os", "path", "bad"),
    ("sys", "modules", "bad"),
    # exception classes
    ("builtins", "ValueError", "exc"),
    ("builtins", "KeyError", "exc"),
    ("builtins", "BaseException", "exc"),
    ("builtins", "KeyboardInterrupt", "exc"),
    ("c20_planted_mod", "GoodError", "exc"),
    ("c20_planted_mod", "BaseOnly", "exc"),
    ("c20_planted_mod", "PickyError", "exc"),
    ("c20_planted_mod", "TrapClass.NestedError", "exc"),
    ("c20_planted_mod", "GoodError.__base__", "exc"),  # Exception
    ("taskiq.exceptions", "SecurityError", "exc"),
    ("taskiq.exceptions", "TaskiqError", "exc"),
    # nothing
    ("c20_planted_mod", "DoesNotExist", "unres"),
    ("c20_planted_mod", "TrapClass.Missing", "unres"),
    ("c20_planted_mod", "trap_function.missing_attr", "unres"),
    ("os", "NoSuchThing", "unres"),
    ("this", "Zen", "unres"),
    ("antigravity", "geohash", "unres"),
    ("turtledemo", "main", "unres"),
    ("c20_not_existing_mod", "Boom", "unres"),
    ("os.not_a_submodule", "system", "unres"),
    (None, "NoModuleError", "unres"),
    (None, "system", "unres"),
    (None, "eval", "unres"),
]

ARGS_VARIANTS: List[Tuple[Any, ...]] = [
    (),
    ("echo pwned",),
    ("print('x')", {"a": 1}),
    (1, 2, 3),
]


def payload(
    module: Optional[str],
    name: str,
    args: Tuple[Any, ...],
    cause: Any = None,
    context: Any = None,
    suppress: bool = False,
) -> Dict[str, Any]:
    return {
        "exc_type": name,
        "exc_message": list(args),
        "exc_module": module,
        "exc_cause": cause,
        "exc_context": context,
        "exc_suppress_context": suppress,
    }


def nest(inner: Dict[str, Any], depth: int, via: str) -> Dict[str, Any]:
    """Wrap `inner` under `depth` benign outer errors through cause/context."""
    cur = inner
    for level in range(depth):
        link = via if via != "alt" else ("cause" if level % 2 == 0 else "context")
        outer_mod, outer_name = [
            ("builtins", "RuntimeError"),
            ("c20_planted_mod", "Unknown%d" % level),
            (None, "Orphan%d" % level),
        ][level % 3]
        cur = payload(
            outer_mod,
            outer_name,
            ("outer", level),
            cause=cur if link == "cause" else None,
            context=cur if link == "context" else None,
        )
    return cur


def find_leaf(exc: BaseException, depth: int, via: str) -> Optional[BaseException]:
    cur: Optional[BaseException] = exc
    for level in reversed(range(depth)):
        link = via if via != "alt" else ("cause" if level % 2 == 0 else "context")
        assert cur is not None
        cur = cur.__cause__ if link == "cause" else cur.__context__
    return cur


def load(data: Any, how: str) -> Any:
    """Load through one of the public entry points."""
    if how == "dict":
        return exception_to_python(data)
    if how == "model":
        return exception_to_python(ExceptionRepr(**data))
    if how == "result":
        return TaskiqResult(
            is_err=True,
            return_value=None,
            execution_time=0.1,
            error=data,
        ).error
    raise AssertionError(how)


def check_one(
    module: Optional[str],
    name: str,
    kind: str,
    args: Tuple[Any, ...],
    depth: int,
    via: str,
    how: str,
) -> None:
    tag = f"[{how} depth={depth} via={via}] {module}.{name}{args}"
    data = nest(payload(module, name, args), depth, via)
    before_modules = set(sys.modules)
    del TRAP_HITS[:]
    del IMPORT_ATTEMPTS[:]
    outcome: Any
    try:
        outcome = load(data, how)
        raised = None
    except (SecurityError, pydantic.ValidationError) as exc:
        outcome = None
        raised = exc
    except BaseException as exc:  # noqa: BLE001
        fail(f"{tag}: unexpected error {type(exc).__name__}: {exc}")
        return

    if TRAP_HITS:
        fail(f"{tag}: trap was called: {TRAP_HITS}")
    new_modules = set(sys.modules) - before_modules
    if new_modules or IMPORT_ATTEMPTS:
        fail(f"{tag}: import happened: {new_modules} {IMPORT_ATTEMPTS}")
    for mod in UNLOADED_MODULES:
        if mod in sys.modules:
            fail(f"{tag}: {mod} got imported")

    if kind == "bad":
        if raised is None:
            fail(f"{tag}: expected a security/validation error, got {outcome!r}")
        return

    if raised is not None:
        fail(f"{tag}: expected an exception instance, got error {raised!r}")
        return
    if not isinstance(outcome, BaseException):
        fail(f"{tag}: result is not an exception instance: {outcome!r}")
        return
    # every link of the loaded chain is an exception instance
    node: Optional[BaseException] = outcome
    seen = 0
    while node is not None and seen < 20:
        if not isinstance(node, BaseException):
            fail(f"{tag}: chain member is not an exception: {node!r}")
        node = node.__cause__ or node.__context__
        seen += 1

    leaf = find_leaf(outcome, depth, via)
    if not isinstance(leaf, BaseException):
        fail(f"{tag}: leaf is not an exception: {leaf!r}")
        return
    if kind == "unres":
        cls = type(leaf)
        exp_module = (
            serialization.__name__ if module is None else taskiq.exceptions.__name__
        )
        if cls.__name__ != name:
            fail(f"{tag}: synthetic class has name {cls.__name__!r}")
        if not issubclass(cls, Exception):
            fail(f"{tag}: synthetic class is not an Exception subclass")
        if cls.__module__ != exp_module:
            fail(f"{tag}: synthetic class module {cls.__module__!r}")
        if leaf.args != tuple(args):
            fail(f"{tag}: synthetic exception args {leaf.args!r}")
        if cls in vars(builtins).values():
            fail(f"{tag}: synthetic class is a builtin")
    else:
        # resolved exception class: instance of it, or the generic fallback
        # when the constructor rejected the arguments.
        resolved: Any = sys.modules[module]  # type: ignore
        for part in name.split("."):
            resolved = getattr(resolved, part)
        if not isinstance(leaf, (resolved, Exception)):
            fail(f"{tag}: unexpected result type {type(leaf)}")


def scenario_catalogue() -> int:
    count = 0
    shapes = [(0, "cause"), (1, "cause"), (1, "context"), (2, "alt"), (3, "alt")]
    hows = ["dict", "model", "result"]
    for (module, name, kind), (depth, via) in itertools.product(CATALOGUE, shapes):
        for idx, args in enumerate(ARGS_VARIANTS):
            how = hows[(count + idx) % len(hows)]
            check_one(module, name, kind, args, depth, via, how)
            count += 1
    return count


def scenario_bad_sibling() -> None:
    """A bad payload in `context` next to a good `cause` (and vice versa)."""
    for module, name, kind in CATALOGUE:
        if kind != "bad":
            continue
        good = payload("builtins", "ValueError", ("fine",))
        for data in (
            payload(None, "Top", (), cause=good, context=payload(module, name, ("x",))),
            payload(None, "Top", (), cause=payload(module, name, ("x",)), context=good),
        ):
            del TRAP_HITS[:]
            try:
                res = exception_to_python(data)
            except (SecurityError, pydantic.ValidationError):
                res = None
            except BaseException as exc:  # noqa: BLE001
                fail(f"bad sibling {module}.{name}: unexpected {exc!r}")
            else:
                fail(f"bad sibling {module}.{name} loaded as {res!r}")
            if TRAP_HITS:
                fail(f"bad sibling {module}.{name}: trap hit {TRAP_HITS}")


def scenario_history() -> None:
    """History dependence: the same name is loaded before and after the
    name becomes resolvable to a trap / to an exception class / to nothing."""
    name = "LateBound"
    mod = "c20_planted_mod"

    def load_it() -> Any:
        del TRAP_HITS[:]
        try:
            return exception_to_python(payload(mod, name, ("arg",)))
        except SecurityError as exc:
            return exc

    for round_no in range(3):
        first = load_it()
        if type(first).__name__ != name or not isinstance(first, Exception):
            fail(f"history[{round_no}]: unresolved load gave {first!r}")
        second = load_it()
        if type(second).__name__ != name or not isinstance(second, Exception):
            fail(f"history[{round_no}]: second unresolved load gave {second!r}")

        # now the name resolves to a trap function
        setattr(planted, name, trap_function)
        res = load_it()
        if not isinstance(res, SecurityError) or TRAP_HITS:
            fail(f"history[{round_no}]: trap function: {res!r} hits={TRAP_HITS}")

        # ... to a non exception class
        setattr(planted, name, TrapClass)
        res = load_it()
        if not isinstance(res, SecurityError) or TRAP_HITS:
            fail(f"history[{round_no}]: trap class: {res!r} hits={TRAP_HITS}")

        # ... to a real exception class
        real = type(name, (GoodError,), {})
        setattr(planted, name, real)
        res = load_it()
        if type(res) is not real:
            fail(f"history[{round_no}]: real class: got {type(res)}")

        # ... and to nothing again
        delattr(planted, name)
        res = load_it()
        if type(res).__name__ != name or isinstance(res, GoodError):
            fail(f"history[{round_no}]: after delete: {type(res)} {res!r}")
        if not isinstance(res, Exception) or TRAP_HITS:
            fail(f"history[{round_no}]: after delete not an exception: {res!r}")

    # the same name under different module claims must keep its own module
    a = exception_to_python(payload(None, "SameName", ()))
    b = exception_to_python(payload("c20_planted_mod", "SameName", ()))
    if type(a).__module__ != serialization.__name__:
        fail(f"module-less synthetic class has module {type(a).__module__}")
    if type(b).__module__ != taskiq.exceptions.__name__:
        fail(f"unresolved synthetic class has module {type(b).__module__}")


def scenario_many_names() -> None:
    """Lots of distinct unresolvable names (more than any internal cache)."""
    for i in range(1500):
        name = f"Generated{i}Error"
        res = exception_to_python(payload("c20_planted_mod", name, (i,)))
        if type(res).__name__ != name or not isinstance(res, Exception):
            fail(f"many names: {name} -> {res!r}")
            break
        if res.args != (i,):
            fail(f"many names: args {res.args}")
            break
    # early names again (possibly evicted from a cache)
    for i in (0, 1, 2, 700, 1499):
        name = f"Generated{i}Error"
        res = exception_to_python(payload("c20_planted_mod", name, ()))
        if type(res).__name__ != name or not issubclass(type(res), Exception):
            fail(f"many names (again): {name} -> {res!r}")


def scenario_wrapper_restore() -> None:
    """An already-unpickled wrapper is restored to a synthetic class only."""
    for module, name in (("os", "system"), ("builtins", "eval"), ("x", "Y")):
        del TRAP_HITS[:]
        wrapper = serialization._UnpickleableExceptionWrapper(
            module,
            name,
            ("echo 1",),
            "text",
        )
        res = exception_to_python(wrapper)
        cls = type(res)
        if not isinstance(res, Exception) or cls.__name__ != name:
            fail(f"wrapper restore {module}.{name}: {res!r}")
        if cls.__module__ != module or res.args != ("echo 1",):  # type: ignore
            fail(f"wrapper restore {module}.{name}: {cls.__module__} {res!r}")


def scenario_constructor_rejects() -> None:
    """Real exception classes that cannot be rebuilt from the stored args."""
    cases = [
        ("c20_planted_mod", "PickyError", ("only one",)),
        ("c20_planted_mod", "PickyError", ()),
        ("c20_planted_mod", "AngryError", ("x",)),
        ("c20_planted_mod", "AngryError", ()),
        ("c20_planted_mod", "Holder.InnerPicky", (1, 2)),
        ("builtins", "UnicodeDecodeError", ("not", "enough")),
        ("builtins", "BaseExceptionGroup", ("msg",)),
    ]
    shapes = [(0, "cause"), (1, "cause"), (1, "context"), (3, "alt")]
    for (module, name, args), (depth, via) in itertools.product(cases, shapes):
        tag = f"[ctor depth={depth} via={via}] {module}.{name}{args}"
        del TRAP_HITS[:]
        before = set(sys.modules)
        try:
            top = exception_to_python(nest(payload(module, name, args), depth, via))
        except BaseException as exc:  # noqa: BLE001
            fail(f"{tag}: raised {exc!r}")
            continue
        leaf = find_leaf(top, depth, via)  # type: ignore
        if not isinstance(leaf, Exception):
            fail(f"{tag}: not an exception instance: {leaf!r}")
            continue
        cls = type(leaf)
        if cls is not Exception:
            # a stand-in must be a plain synthetic Exception subclass
            # carrying the claimed name; never a trap and never a builtin.
            if cls.__name__ != name or cls.__mro__[1:] != Exception.__mro__:
                fail(f"{tag}: odd stand-in class {cls} {cls.__mro__}")
            if cls in vars(builtins).values() or cls in vars(planted).values():
                fail(f"{tag}: stand-in is an existing class {cls}")
        if name.rsplit(".", 1)[-1] not in str(leaf):
            fail(f"{tag}: message lost the class: {leaf}")
        if TRAP_HITS or set(sys.modules) - before:
            fail(f"{tag}: side effect {TRAP_HITS} {set(sys.modules) - before}")
    # a bad cause below a constructor-rejecting error is still refused
    for module, name in (("os", "system"), ("c20_planted_mod", "TrapClass")):
        del TRAP_HITS[:]
        data = payload(
            "c20_planted_mod",
            "PickyError",
            ("x",),
            cause=payload(module, name, ("echo 1",)),
        )
        try:
            res = exception_to_python(data)
            fail(f"ctor+bad cause {module}.{name}: loaded {res!r}")
        except SecurityError:
            pass
        if TRAP_HITS:
            fail(f"ctor+bad cause {module}.{name}: trap hit {TRAP_HITS}")


def scenario_threads() -> None:
    """Concurrent loads from several threads."""
    errors: List[str] = []

    def worker(seed: int) -> None:
        for i in range(300):
            name = f"Thr{(seed * 7 + i) % 40}Error"
            try:
                res = exception_to_python(payload("c20_planted_mod", name, (i,)))
                if type(res).__name__ != name or not isinstance(res, Exception):
                    errors.append(f"{name}: {res!r}")
                try:
                    exception_to_python(
                        payload("c20_planted_mod", "trap_function", ()),
                    )
                    errors.append("trap_function accepted")
                except SecurityError:
                    pass
            except BaseException as exc:  # noqa: BLE001
                errors.append(f"{name}: raised {exc!r}")

    del TRAP_HITS[:]
    threads = [threading.Thread(target=worker, args=(n,)) for n in range(6)]
    for thr in threads:
        thr.start()
    for thr in threads:
        thr.join()
    if errors:
        fail(f"threads: {errors[:5]}")
    if TRAP_HITS:
        fail(f"threads: trap hits {TRAP_HITS[:3]}")


def main() -> int:
    real_system = os.system
    real_builtins = {n: getattr(builtins, n) for n in ("eval", "exec", "print")}
    printer = real_builtins["print"]

    def make_trap(label: str) -> Any:
        def _trap(*args: Any, **kwargs: Any) -> None:
            TRAP_HITS.append(f"{label}{args}")

        _trap.__name__ = label
        return _trap

    # keep log output (if any) out of the way; logging must not matter.
    logging.getLogger("taskiq").addHandler(logging.NullHandler())
    logging.getLogger("taskiq").propagate = False

    finder = RecordingFinder()
    os.system = make_trap("os.system")  # type: ignore
    for n in real_builtins:
        setattr(builtins, n, make_trap(f"builtins.{n}"))
    sys.meta_path.insert(0, finder)
    try:
        count = scenario_catalogue()
        scenario_bad_sibling()
        scenario_history()
        scenario_many_names()
        scenario_wrapper_restore()
        scenario_constructor_rejects()
        scenario_threads()
    finally:
        sys.meta_path.remove(finder)
        os.system = real_system
        for n, fn in real_builtins.items():
            setattr(builtins, n, fn)

    printer(f"catalogue payloads checked: {count}")
    if FAILURES:
        printer(f"C20 demo: {len(FAILURES)} FAILURE(S)")
        return 1
    printer("C20 demo: property holds on all scenarios")
    return 0


if __name__ == "__main__":
    sys.exit(main())
