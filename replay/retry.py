"""Native replay for unit `retry` (C11): the REAL SimpleRetryMiddleware with an in-memory broker whose every attempt goes through a real
encode/decode cycle; per-attempt outcome sequences (fail ... succeed / no-result), max_retries 0..6 as label or default, retry_on_error as
bool label / string label / default, both no_result_on_retry settings.  Run with /venv/bin/python."""
import sys, json, asyncio, itertools, logging
logging.disable(logging.CRITICAL)

async def one(m, m_as_label, roe, nror, outcomes):
    from taskiq import InMemoryBroker, SimpleRetryMiddleware
    from taskiq.abc.broker import AsyncBroker
    from taskiq.abc.result_backend import AsyncResultBackend
    from taskiq.exceptions import NoResultError
    AsyncBroker.global_task_registry = {}
    stored = []; runs = []
    class RB(AsyncResultBackend):
        async def set_result(self, task_id, result): stored.append((task_id, result.is_err, result.return_value))
        async def is_result_ready(self, task_id): return False
        async def get_result(self, task_id, with_logs=False): raise KeyError
    default_label = roe == 'default_true'
    b = InMemoryBroker().with_result_backend(RB())
    class ProjectRetry(SimpleRetryMiddleware): pass          # a project's own subclass (only defaults differ): its inherited on_error is still an overridden hook
    b.add_middlewares((ProjectRetry if m % 2 == 0 else SimpleRetryMiddleware)(default_retry_count=m if not m_as_label else 3, default_retry_label=default_label, no_result_on_retry=nror))
    labels = {'user': 'u1'}
    if m_as_label: labels['max_retries'] = m
    if roe in ('true', 'false'): labels['retry_on_error'] = roe == 'true'
    if roe in ('str_true', 'str_false'): labels['retry_on_error'] = 'True' if roe == 'str_true' else 'False'
    if roe in ('str_lower_true', 'str_upper_true', 'str_other'): labels['retry_on_error'] = {'str_lower_true': 'true', 'str_upper_true': 'TRUE', 'str_other': 'yes'}[roe]          # any spelling of 'true' enables, any other text disables
    async def t(x, ctx_labels=None):
        i = len(runs); o = outcomes[i] if i < len(outcomes) else 'ok'
        runs.append(o)
        if o == 'fail': raise ValueError(f"attempt {i + 1}")
        if o == 'noresult': raise NoResultError()
        return ('done', x, i + 1)
    seen = []
    from taskiq import TaskiqMiddleware
    class Spy(TaskiqMiddleware):
        def pre_execute(self, message): seen.append((message.task_id, list(message.args), dict(message.kwargs), {k: v for k, v in message.labels.items()})); return message
    b.add_middlewares(Spy())
    task = b.register_task(t, task_name='t', **labels)
    await task.kicker().with_task_id('the-id').kiq(41)
    await b.wait_all()
    for _ in range(10):
        await asyncio.sleep(0); await b.wait_all()
    return runs, stored, seen

async def one_inmemory(m, nror, outcomes):
    from taskiq import InMemoryBroker
    from taskiq.middlewares.retry_middleware import SimpleRetryMiddleware
    from taskiq.exceptions import NoResultError
    from taskiq.abc.broker import AsyncBroker
    AsyncBroker.global_task_registry = {}
    b = InMemoryBroker(); b.add_middlewares(SimpleRetryMiddleware(default_retry_count=m, no_result_on_retry=nror)); runs = []
    async def t(x):
        i = len(runs); o = outcomes[i] if i < len(outcomes) else 'ok'; runs.append(o)
        if o == 'fail': raise ValueError(f"attempt {i + 1}")
        return i + 1
    task = b.register_task(t, task_name='t', retry_on_error=True)
    await task.kicker().with_task_id('the-id').kiq(41)
    for _ in range(12):
        await asyncio.sleep(0); await b.wait_all()
    r = b.result_backend.results.get('the-id')
    if r is None: return None
    return ('err', int(str(r.error).split()[-1])) if r.is_err else ('ok', r.return_value)

class EmptyAggregate(Exception):          # a legal FALSY exception (`if exc:` is not `if exc is not None:`)
    def __len__(self): return len(self.args)

async def history(kind):
    """histories the per-message grid does not contain: (falsy) a task failing with a falsy exception; (acks) an acknowledging broker: every
    attempt - re-sent ones included - must be acknowledged once, or an at-least-once broker redelivers it and the task runs again; (two) two
    messages of one task with DIFFERENT per-call labels through the same middleware instance: each retry carries its own message's labels only"""
    from taskiq import InMemoryBroker, SimpleRetryMiddleware, AckableMessage, TaskiqMiddleware
    from taskiq.abc.broker import AsyncBroker
    AsyncBroker.global_task_registry = {}
    acks = []; kicked = []; runs = []; seen = []
    class B(InMemoryBroker):
        async def kick(self, message):
            i = len(kicked); kicked.append(message.task_id)
            await self.receiver.callback(AckableMessage(data=message.message, ack=lambda i=i: acks.append(i)))
    b = B(); b.add_middlewares(SimpleRetryMiddleware(default_retry_count=3))
    class Spy(TaskiqMiddleware):
        def pre_execute(self, message): seen.append((message.task_id, {k: v for k, v in message.labels.items() if k in ('tenant', 'region')})); return message
    b.add_middlewares(Spy())
    async def t(who):
        runs.append(who)
        if runs.count(who) == 1: raise (EmptyAggregate() if kind == 'falsy' else ValueError("first attempt"))
        return who
    task = b.register_task(t, task_name='t', retry_on_error=True)
    await task.kicker().with_task_id('id-a').with_labels(tenant='a').kiq('a')
    if kind == 'two': await task.kicker().with_task_id('id-b').with_labels(region='b').kiq('b')
    pr = []
    if kind == 'falsy' and runs != ['a', 'a']: pr.append(f"C11: a retry-enabled task whose first attempt failed with a falsy exception (an aggregate error raised with no sub-errors) ran {len(runs)} time(s), expected 2")
    if kind == 'acks' and sorted(acks) != list(range(len(kicked))): pr.append(f"C11: {len(kicked)} attempts were delivered by an acknowledging broker, acknowledged (by delivery index): {sorted(acks)} - an attempt that is never acknowledged is redelivered by an at-least-once broker and runs again, beyond max_retries")
    if kind == 'two':
        want = [('id-a', {'tenant': 'a'}), ('id-a', {'tenant': 'a'}), ('id-b', {'region': 'b'}), ('id-b', {'region': 'b'})]
        if seen != want: pr.append(f"C11: two messages of one task with different per-call labels, each failing once: attempts ran as (task id, user labels) {seen}, expected {want}")
    return pr

async def history_inplace_limit():
    """configuration: InMemoryBroker(await_inplace=True, max_async_tasks=2) - a retry is delivered while the failing attempt is still inside its on_error hook;
    the chain of max_retries=4 executions must still complete"""
    from taskiq import InMemoryBroker, SimpleRetryMiddleware
    from taskiq.abc.broker import AsyncBroker
    AsyncBroker.global_task_registry = {}
    b = InMemoryBroker(await_inplace=True, max_async_tasks=2); b.add_middlewares(SimpleRetryMiddleware(default_retry_count=4)); runs = []
    async def t(): runs.append(1); raise ValueError("always")
    task = b.register_task(t, task_name='t', retry_on_error=True)
    try: await asyncio.wait_for(task.kiq(), 5)
    except asyncio.TimeoutError: return [f"C11: InMemoryBroker(await_inplace=True, max_async_tasks=2), max_retries=4, every attempt fails: only {len(runs)} of 4 executions happened, then the chain hung (no further attempt within 5 s)"]
    except BaseException: pass
    return [] if len(runs) == 4 else [f"C11: InMemoryBroker(await_inplace=True, max_async_tasks=2), max_retries=4, every attempt fails: {len(runs)} executions, expected 4"]

async def history_model():
    """the arguments of a retried task are the caller's on EVERY attempt - also a pydantic argument whose field has a default factory the caller did not set"""
    import pydantic, uuid
    from taskiq import InMemoryBroker, SimpleRetryMiddleware
    from taskiq.abc.broker import AsyncBroker
    AsyncBroker.global_task_registry = {}
    class Order(pydantic.BaseModel):
        item: str
        idempotency_key: str = pydantic.Field(default_factory=lambda: uuid.uuid4().hex)
    b = InMemoryBroker(await_inplace=True); b.add_middlewares(SimpleRetryMiddleware(default_retry_count=3)); keys = []
    async def t(order: Order):
        keys.append(order.idempotency_key)
        if len(keys) < 3: raise ValueError("again")
    task = b.register_task(t, task_name='t', retry_on_error=True)
    o = Order(item='book'); await task.kiq(o)
    return [] if keys == [o.idempotency_key] * 3 else [f"C11: a task called with Order(item='book') (idempotency_key {o.idempotency_key!r} from the field's default factory) failed twice and was retried: the attempts ran with keys {keys} - not the same arguments"]

def expected(m, enabled, outcomes):
    n = 0
    while True:
        o = outcomes[n] if n < len(outcomes) else 'ok'; n += 1
        if o != 'fail' or not enabled or n >= m: return n, o

def run(sc):
    fails = []; n = 0
    for m in range(0, 7):
        for m_as_label in (True, False):
            for roe in ('true', 'false', 'str_true', 'str_false', 'str_lower_true', 'str_upper_true', 'str_other', 'default_true', 'default_false'):
                for nror in (True, False):
                    for outcomes in (['fail'] * 8, ['fail', 'ok'], ['ok'], ['fail', 'fail', 'noresult'], ['noresult'], ['fail', 'fail', 'fail', 'ok']):
                        enabled = roe in ('true', 'str_true', 'str_lower_true', 'str_upper_true', 'default_true')
                        runs, stored, seen = asyncio.run(one(m, m_as_label, roe, nror, outcomes)); n += 1
                        want_n, last = expected(m, enabled, outcomes)
                        pr = []
                        if len(runs) != want_n: pr.append(f"C11: {len(runs)} executions, expected {want_n} (max_retries={m} as {'label' if m_as_label else 'default'}, retry_on_error={roe}, outcomes={outcomes[:want_n + 1]})")
                        if any(s[0] != 'the-id' or s[1] != [41] or s[2] != {} for s in seen): pr.append(f"C11: an attempt ran with other id/args: {seen}")
                        if any(s[3].get('user') != 'u1' for s in seen): pr.append(f"C11: user label lost on a retry: {[s[3] for s in seen]}")
                        want_stored = [] if last == 'noresult' else [('the-id', last == 'fail', None if last == 'fail' else ('done', 41, want_n))]
                        if not nror: want_stored = [('the-id', True, None)] * (want_n - 1) + want_stored
                        if len(runs) == want_n and stored != want_stored: pr.append(f"C11: stored results {stored}, expected {want_stored} (no_result_on_retry={nror})")
                        if nror and len(runs) == want_n and len(stored) > len(want_stored): pr.append(f"C07: {len(stored)} results were stored although only the final attempt has an outcome to store (re-sent attempts signal no-result): {stored}")
                        if pr and len(fails) < 40: fails.append({'key': f"m={m}/{m_as_label}/{roe}/{nror}/{outcomes[:3]}", 'failed_clauses': pr})
    for kind in ('falsy', 'acks', 'two'):
        pr = asyncio.run(history(kind)); n += 1
        if pr: fails.append({'key': 'history/' + kind, 'failed_clauses': pr + ([c.replace('C11:', 'C09:', 1) for c in pr] if kind == 'two' else [])})
    pr = asyncio.run(history_inplace_limit()); n += 1
    if pr: fails.append({'key': 'history/inplace-small-limit', 'failed_clauses': pr})
    pr = asyncio.run(history_model()); n += 1
    if pr: fails.append({'key': 'history/model-argument', 'failed_clauses': pr})
    # the same through the REAL in-memory result backend: what a client reads back under the task id is the final attempt's outcome
    for nror in (True, False):
        for outcomes, want in ((['fail', 'ok'], ('ok', 2)), (['fail', 'fail', 'ok'], ('ok', 3)), (['fail'] * 8, ('err', 3))):
            got = asyncio.run(one_inmemory(3, nror, outcomes)); n += 1
            if got != want:
                for pid in ('C11', 'C07'): fails.append({'key': f"inmemory-backend/{nror}/{outcomes[:3]}", 'failed_clauses': [f"{pid}: InMemoryBroker with its own result backend, max_retries=3, no_result_on_retry={nror}, outcomes {outcomes[:3]}: the result read back under the task id is {got}, expected the final attempt's outcome {want}"]})
    return {'reproduced': bool(fails), 'runs': n, 'n_failures': len(fails), 'failures': fails[:400]}

if __name__ == '__main__':
    sc = json.load(open(sys.argv[1])) if len(sys.argv) > 1 else {}
    print(json.dumps(run(sc.get('scenario', sc)), default=str))
