#!/usr/bin/env python3
"""tools/import_seed.py <src-dir> <seed-id> <property>  : verify a seeded change in a scratch worktree of /repo ($SEED_WT, default /tmp/wt/verify), run all
20 checks against that worktree (PYVC_REPO; the patch is undone straight afterwards) and store it as seeded/<seed-id>/{patch.diff, demo.py, notes.md, meta.json}.
(tools/seedtest.py does the same with the patch applied to /repo itself: same verdicts, but nothing else may use /repo meanwhile.)"""
import sys, os, subprocess, json, shutil, re
ROOT = os.path.dirname(os.path.dirname(os.path.abspath(__file__)))
src, sid, prop = sys.argv[1], sys.argv[2], sys.argv[3]
dst = os.path.join(ROOT, 'seeded', sid); os.makedirs(dst, exist_ok=True)
for f in ('patch.diff', 'demo.py', 'notes.md'):
    if os.path.exists(os.path.join(src, f)): shutil.copy(os.path.join(src, f), os.path.join(dst, f))
notes = open(os.path.join(src, 'notes.md')).read() if os.path.exists(os.path.join(src, 'notes.md')) else ''
v = subprocess.run([os.path.join(ROOT, 'tools', 'verify_seed.sh'), src], capture_output=True, text=True).stdout.strip().splitlines()
WT = os.environ.get('SEED_WT', '/tmp/wt/verify')
s = subprocess.run([sys.executable, os.path.join(ROOT, 'tools', 'refactortest.py'), os.path.join(src, 'patch.diff')], capture_output=True, text=True, env=dict(os.environ, DEVTREE=WT)).stdout.replace('FALSE ALARMS:', 'CAUGHT by:')
caught = re.search(r"CAUGHT by: (\[.*?\]|NONE|none)", s); und = re.search(r"undecided: (\[.*?\])", s)
viol = [l.strip() for l in s.splitlines() if 'VIOLATION' in l]
files = sorted(set(re.findall(r"^\+\+\+ b/(.*)$", open(os.path.join(dst, 'patch.diff')).read(), re.M)))
m = re.search(r"(?is)(needs?[^\n]*manifest[^\n]*\n(?:.+\n){0,8})", notes)
meta = {'seed': sid, 'property': prop, 'files_changed': files, 'origin': 'independent sub-agent given only the property text and its own scratch worktree',
        'what_it_needs_to_manifest': (m.group(1).strip()[:900] if m else notes[:900]),
        'verification_in_scratch_worktree': v[:1], 'ran': ['tools/verify_seed.sh (git apply in the scratch worktree; baseline test-suite; demo with and without the patch)', 'tools/refactortest.py with DEVTREE=<scratch worktree> (git apply there; ./check for all 20 properties with PYVC_REPO=<scratch worktree>; git checkout -- .)'],
        'checks_reporting_a_violation': eval(caught.group(1)) if caught and caught.group(1) not in ('NONE', 'none') else [], 'checks_undecided': eval(und.group(1)) if und else [],
        'violation_lines': viol[:12], 'replayed_natively': any('no-failing-input-found' not in l for l in viol)}
json.dump(meta, open(os.path.join(dst, 'meta.json'), 'w'), indent=1)
print(sid, prop, 'caught by', meta['checks_reporting_a_violation'], 'native', meta['replayed_natively'], '|', v[:1])
