"""
Demo for property C03 (concurrency limit respected, execution slots never leaked).

For several limits and several pseudo-random (fixed seed) histories of
per-message outcomes

    success / sync success / exception / timeout / NoResultError /
    malformed message / unknown task / failing result backend /
    failing pre_execute, post_execute, post_save, on_error hooks

the script runs a real ``Receiver.listen`` loop over a queue broker and checks:

  * at no instant more than ``max_async_tasks`` messages are in processing
    (measured on ``Receiver.callback`` entry/exit and inside the task bodies);
  * with a limit of 1 messages are processed one at a time in delivery order;
  * after the history a saturation probe of ``2 * limit + 1`` blocking
    messages reaches exactly ``limit`` concurrently running bodies (no slot
    was leaked, none was gained) and all of them are executed (progress).

Extra smoke scenarios exercise the shutdown path with ``wait_tasks_timeout``
and, when the receiver supports it, the ``ack_discarded`` switch.

Exit code 0: property holds in all scenarios. Exit code 1: violation.
"""

import asyncio
import inspect
import io
import logging
import random
import sys
from typing import Any, AsyncGenerator, Dict, List, Optional, Union

from taskiq import AsyncBroker, BrokerMessage, TaskiqMessage, TaskiqMiddleware
from taskiq.abc.result_backend import AsyncResultBackend
from taskiq.acks import AckableMessage
from taskiq.exceptions import NoResultError
from taskiq.receiver import Receiver
from taskiq.result import TaskiqResult

# Log records are formatted (so logging code paths are exercised) but go
# to a buffer to keep the output of the demo readable.
LOG_BUFFER = io.StringIO()
logging.basicConfig(stream=LOG_BUFFER, level=logging.DEBUG)

OUTCOMES = [
    "ok",
    "ok_sync",
    "exception",
    "timeout",
    "no_result",
    "malformed",
    "unknown",
    "backend_fail",
    "pre_execute_fail",
    "post_execute_fail",
    "post_save_fail",
    "on_error_fail",
]
HAS_ACK_DISCARDED = "ack_discarded" in inspect.signature(Receiver.__init__).parameters


class FlakyBackend(AsyncResultBackend[Any]):
    """Result backend that fails for results labelled ``backend_fail``."""

    async def set_result(self, task_id: str, result: TaskiqResult[Any]) -> None:
        if result.labels.get("backend_fail"):
            raise ConnectionError("injected result backend failure")

    async def is_result_ready(self, task_id: str) -> bool:
        return False

    async def get_result(self, task_id: str, with_logs: bool = False) -> Any:
        raise KeyError(task_id)


class QueueBroker(AsyncBroker):
    """Broker that keeps raw messages in an asyncio.Queue."""

    def __init__(self, failing_ack: bool = False) -> None:
        super().__init__(FlakyBackend(), None)
        self.queue: "asyncio.Queue[bytes]" = asyncio.Queue()
        self.delivered: List[bytes] = []
        self.acked: List[bytes] = []
        self.failing_ack = failing_ack

    async def kick(self, message: BrokerMessage) -> None:
        await self.queue.put(message.message)

    async def listen(self) -> AsyncGenerator[AckableMessage, None]:
        while True:
            data = await self.queue.get()
            self.delivered.append(data)

            def ack(data: bytes = data) -> None:
                if self.failing_ack:
                    raise ConnectionError("injected ack failure")
                self.acked.append(data)

            yield AckableMessage(data=data, ack=ack)


class FlakyHooks(TaskiqMiddleware):
    """Middleware whose hook named by the ``fail_hook`` label raises."""

    def _maybe_fail(self, hook: str, message: TaskiqMessage) -> None:
        if message.labels.get("fail_hook") == hook:
            raise RuntimeError(f"injected {hook} failure")

    def pre_execute(self, message: TaskiqMessage) -> TaskiqMessage:
        self._maybe_fail("pre_execute", message)
        return message

    async def post_execute(self, message: TaskiqMessage, result: Any) -> None:
        self._maybe_fail("post_execute", message)

    def post_save(self, message: TaskiqMessage, result: Any) -> None:
        self._maybe_fail("post_save", message)

    async def on_error(
        self,
        message: TaskiqMessage,
        result: Any,
        exception: BaseException,
    ) -> None:
        self._maybe_fail("on_error", message)


class ObservedReceiver(Receiver):
    """Receiver that records when processing of messages starts and ends."""

    def __init__(self, *args: Any, **kwargs: Any) -> None:
        super().__init__(*args, **kwargs)
        self.inflight = 0
        self.max_inflight = 0
        self.events: List[Any] = []
        self.finished = 0

    async def callback(
        self,
        message: Union[bytes, AckableMessage],
        raise_err: bool = False,
    ) -> None:
        data = message.data if isinstance(message, AckableMessage) else message
        self.inflight += 1
        self.max_inflight = max(self.max_inflight, self.inflight)
        self.events.append(("start", data))
        try:
            await super().callback(message, raise_err)
        finally:
            self.inflight -= 1
            self.finished += 1
            self.events.append(("end", data))


async def wait_until(cond: Any, timeout: float) -> bool:
    loop = asyncio.get_running_loop()
    deadline = loop.time() + timeout
    while loop.time() < deadline:
        if cond():
            return True
        await asyncio.sleep(0.01)
    return bool(cond())


async def scenario(  # noqa: C901
    limit: int,
    seed: int,
    history_len: int = 24,
    receiver_kwargs: Optional[Dict[str, Any]] = None,
    failing_ack: bool = False,
    stop_while_running: bool = False,
) -> List[str]:
    name = (
        f"limit={limit} seed={seed} kwargs={receiver_kwargs or {}} "
        f"failing_ack={failing_ack} stop_while_running={stop_while_running}"
    )
    problems: List[str] = []
    rnd = random.Random(seed)
    broker = QueueBroker(failing_ack=failing_ack).with_middlewares(FlakyHooks())
    state = {"running": 0, "max_running": 0}
    gate = asyncio.Event()
    gate_first = asyncio.Event()  # holds the first ``limit`` probe messages
    probe_started: List[int] = []

    def enter() -> None:
        state["running"] += 1
        state["max_running"] = max(state["max_running"], state["running"])

    def leave() -> None:
        state["running"] -= 1

    @broker.task(task_name="demo:work")
    async def work(delay: float, mode: str = "ok") -> str:
        enter()
        try:
            await asyncio.sleep(delay)
            if mode == "exception":
                raise ValueError("injected task failure")
            if mode == "no_result":
                raise NoResultError
            if mode == "hang":
                await asyncio.sleep(30)
            return mode
        finally:
            leave()

    @broker.task(task_name="demo:work_sync")
    def work_sync(value: int) -> int:
        return value + 1

    @broker.task(task_name="demo:probe")
    async def probe(idx: int) -> int:
        enter()
        probe_started.append(idx)
        try:
            await (gate_first if idx < limit else gate).wait()
        finally:
            leave()
        return idx

    # ---- history -------------------------------------------------------
    history = [rnd.choice(OUTCOMES) for _ in range(history_len)]
    # every outcome appears at least once
    history[: len(OUTCOMES)] = rnd.sample(OUTCOMES, len(OUTCOMES))
    for num, outcome in enumerate(history):
        delay = rnd.choice([0.0, 0.005, 0.02])
        if outcome == "ok":
            await work.kiq(delay)
        elif outcome == "ok_sync":
            await work_sync.kiq(num)
        elif outcome == "exception":
            await work.kiq(delay, "exception")
        elif outcome == "timeout":
            await work.kicker().with_labels(timeout=0.03).kiq(0.0, "hang")
        elif outcome == "no_result":
            await work.kiq(delay, "no_result")
        elif outcome == "malformed":
            await broker.queue.put(b"\xff garbage %d" % num)
        elif outcome == "unknown":
            unknown = TaskiqMessage(
                task_id=f"unknown-{num}",
                task_name="demo:not_registered",
                labels={},
                args=[],
                kwargs={},
            )
            await broker.queue.put(broker.formatter.dumps(unknown).message)
        elif outcome == "backend_fail":
            await work.kicker().with_labels(backend_fail="1").kiq(delay)
        elif outcome == "on_error_fail":
            await work.kicker().with_labels(fail_hook="on_error").kiq(
                delay,
                "exception",
            )
        else:
            hook = outcome[: -len("_fail")]
            await work.kicker().with_labels(fail_hook=hook).kiq(delay)

    receiver = ObservedReceiver(
        broker,
        max_async_tasks=limit,
        run_startup=False,
        **(receiver_kwargs or {}),
    )
    finish = asyncio.Event()
    listen_task = asyncio.create_task(receiver.listen(finish))

    if not await wait_until(lambda: receiver.finished == history_len, 8):
        problems.append(
            f"history stalled: {receiver.finished}/{history_len} messages processed",
        )

    # ---- saturation probe ----------------------------------------------
    n_probe = 2 * limit + 1
    for idx in range(n_probe):
        await probe.kiq(idx)
    if not await wait_until(lambda: state["running"] >= limit, 4):
        problems.append(
            f"slots leaked: only {state['running']} of {limit} probe messages "
            "run concurrently after the history",
        )
    await asyncio.sleep(0.15)
    if state["running"] != limit:
        problems.append(
            f"saturation: {state['running']} probe bodies run at once, "
            f"expected exactly {limit}",
        )
    if stop_while_running:
        # Shut down while the probe messages still occupy every slot; then
        # let the first ``limit`` of them go, so the runner reaches the end of
        # the stream while a later probe message is still being processed.
        finish.set()
        await asyncio.sleep(0.05)
        gate_first.set()
        try:
            await asyncio.wait_for(asyncio.shield(listen_task), timeout=10)
        except asyncio.TimeoutError:
            problems.append("listen() did not stop with a hanging task")
        if state["running"] < 1:
            problems.append("expected a probe message to be still running")
        gate.set()
        await wait_until(lambda: state["running"] == 0, 5)
    else:
        gate_first.set()
        gate.set()
        if not await wait_until(
            lambda: receiver.finished == history_len + n_probe,
            8,
        ):
            problems.append(
                f"no progress: {receiver.finished - history_len}/{n_probe} "
                "probe messages processed",
            )
        if sorted(probe_started) != list(range(n_probe)):
            problems.append(f"probe messages executed: {sorted(probe_started)}")
        finish.set()
    try:
        await asyncio.wait_for(listen_task, timeout=5)
    except (asyncio.TimeoutError, asyncio.CancelledError):
        listen_task.cancel()
        problems.append("listen() did not stop")

    # ---- checks over the whole run --------------------------------------
    if receiver.max_inflight > limit:
        problems.append(
            f"{receiver.max_inflight} messages were in processing at once "
            f"(max_async_tasks={limit})",
        )
    if state["max_running"] > limit:
        problems.append(
            f"{state['max_running']} task bodies ran at once "
            f"(max_async_tasks={limit})",
        )
    if limit == 1:
        # strictly one at a time, in delivery order
        expected: List[Any] = []
        for data in broker.delivered[: receiver.finished]:
            expected += [("start", data), ("end", data)]
        if receiver.events != expected:
            problems.append("limit=1: messages not processed one by one in order")
        if probe_started != sorted(probe_started):
            problems.append(f"limit=1: probe order {probe_started}")
    n_discarded = sum(outcome in ("malformed", "unknown") for outcome in history)
    counted = getattr(receiver, "discarded_messages", n_discarded)
    if counted != n_discarded:
        problems.append(f"discarded_messages={counted}, expected {n_discarded}")
    print(
        f"{name}: max in processing={receiver.max_inflight}, "
        f"max bodies={state['max_running']}, "
        f"processed={receiver.finished}/{history_len + n_probe}, "
        f"acked={len(broker.acked)} -> {'FAIL' if problems else 'ok'}",
    )
    if problems:
        # No point in going on: report and stop right away.
        print("C03 VIOLATED:")
        for problem in problems:
            print(f"  - {name}: {problem}")
        sys.exit(1)
    return []


async def main() -> int:
    problems: List[str] = []
    for limit in (1, 2, 3, 5):
        for seed in (0, 1):
            problems += await scenario(limit, seed)
    # Shutdown with a bounded wait while all slots are busy.
    problems += await scenario(
        2,
        7,
        receiver_kwargs={"wait_tasks_timeout": 0.05},
        stop_while_running=True,
    )
    # Failing acknowledgements (every ack raises).
    problems += await scenario(2, 3, failing_ack=True)
    problems += await scenario(1, 4, failing_ack=True)
    if HAS_ACK_DISCARDED:
        for limit in (1, 3):
            problems += await scenario(
                limit,
                5,
                receiver_kwargs={"ack_discarded": True},
            )
            problems += await scenario(
                limit,
                6,
                receiver_kwargs={"ack_discarded": True},
                failing_ack=True,
            )
    if problems:
        print("C03 VIOLATED:")
        for problem in problems:
            print("  -", problem)
        return 1
    print("C03 holds in all scenarios.")
    return 0


if __name__ == "__main__":
    sys.exit(asyncio.run(main()))
