"""
Demo / check for property C06 (negative control, behaviour-preserving w.r.t. C06).

C06: concurrent executions are isolated; results are bound to their own task id.
When several messages are processed concurrently, each task function and every
dependency resolved for it (cached / use_cache=False / nested / sync / async /
generator, at whatever moment it is resolved) observes the Context, message,
labels and arguments of its own message only, and the result stored under a task
id is the one produced by executing the message that carried that id.

The script drives `Receiver.callback` (and once `Receiver.runner`) with several
messages at the same time.  Every message can be paused at two suspension points
("dep": inside an awaited cached dependency, "body": inside the task function) and
the script enumerates the interleavings of start / release-dep / release-body
actions of the messages.  Fault and timing cases: a dependency that raises, a task
body that raises, a task that is cancelled by its `timeout` label, a sync task run
in the thread pool, a task without dependencies running in between, dependency
overrides that introduce un-cached dependencies.

Exit code 0: every observation belonged to the message's own execution and every
stored result was the one of its own message.  Exit code 1 otherwise.

The same script must pass on the original code and on the changed code; the parts
that need a feature of the changed code are enabled by feature detection only.
"""
import asyncio
import itertools
import logging
import sys
from typing import Any, AsyncGenerator, Dict, Generator, List, Optional, Tuple

from taskiq import Context, InMemoryBroker, TaskiqDepends
from taskiq.message import TaskiqMessage
from taskiq.receiver import Receiver

logging.disable(logging.CRITICAL)

# Changed code of keep1 can inject the TaskiqMessage itself.
HAS_MESSAGE_INJECTION = hasattr(Receiver, "_execution_dependency_context")

broker = InMemoryBroker(max_stored_results=100000, max_async_tasks=100)

gates: Dict[Tuple[str, str], asyncio.Event] = {}
entered: Dict[Tuple[str, str], asyncio.Event] = {}
# (kind, owner task id, what the teardown saw)
teardowns: List[Tuple[str, str, Any]] = []
failures: List[str] = []
checked = {"scenarios": 0, "results": 0, "observations": 0}


def fail(text: str) -> None:
    if len(failures) < 20:
        print("FAIL:", text)
    failures.append(text)


async def pause(stage: str, task_id: str) -> None:
    """Suspension point controlled by the driver."""
    entered[(stage, task_id)].set()
    await gates[(stage, task_id)].wait()


def observe(ctx: Context) -> Dict[str, Any]:
    """Everything that identifies the message a Context belongs to."""
    msg = ctx.message
    return {
        "obs": True,
        "id": msg.task_id,
        "tag": msg.labels.get("tag"),
        "args": list(msg.args),
        "k": msg.kwargs.get("k"),
    }


def expected(task_id: str, num: int) -> Dict[str, Any]:
    return {"obs": True, "id": task_id, "tag": f"tag-{task_id}", "args": [num], "k": num}


# --------------------------------------------------------------------------- deps
def sync_cached(ctx: Context = TaskiqDepends()) -> Dict[str, Any]:
    """Sync, cached, resolved before any suspension."""
    return observe(ctx)


async def gate_dep(ctx: Context = TaskiqDepends()) -> Dict[str, Any]:
    """Async, cached; suspends, then looks at the Context again."""
    await pause("dep", ctx.message.task_id)
    return observe(ctx)


def uncached_leaf(ctx: Context = TaskiqDepends()) -> Dict[str, Any]:
    """Sync, resolved with use_cache=False (own sub-context)."""
    if ctx.message.labels.get("fail") == "dep":
        raise RuntimeError(f"dep-fail-{ctx.message.task_id}")
    return observe(ctx)


async def uncached_async_leaf(ctx: Context = TaskiqDepends()) -> Dict[str, Any]:
    """Async, resolved with use_cache=False, has its own suspension point."""
    await asyncio.sleep(0)
    return observe(ctx)


def nested_mid(
    leaf: Dict[str, Any] = TaskiqDepends(uncached_leaf, use_cache=False),
    cached_leaf: Dict[str, Any] = TaskiqDepends(uncached_leaf),
    ctx: Context = TaskiqDepends(),
) -> Dict[str, Any]:
    """Un-cached dependency that has an un-cached and a cached one inside."""
    return {"mid": observe(ctx), "leaf": leaf, "cached_leaf": cached_leaf}


def gen_dep(ctx: Context = TaskiqDepends()) -> Generator[Dict[str, Any], None, None]:
    """Sync generator dependency; teardown runs after the task finished."""
    own = observe(ctx)
    try:
        yield own
    except BaseException as exc:
        teardowns.append(("gen-exc", own["id"], f"{type(exc).__name__}:{exc}"))
        raise
    teardowns.append(("gen", own["id"], observe(ctx)))


async def agen_dep(
    ctx: Context = TaskiqDepends(),
) -> AsyncGenerator[Dict[str, Any], None]:
    """Async generator dependency."""
    own = observe(ctx)
    await asyncio.sleep(0)
    try:
        yield own
    except BaseException as exc:
        teardowns.append(("agen-exc", own["id"], f"{type(exc).__name__}:{exc}"))
        raise
    await asyncio.sleep(0)
    teardowns.append(("agen", own["id"], observe(ctx)))


async def late(
    gate: Dict[str, Any] = TaskiqDepends(gate_dep),
    leaf: Dict[str, Any] = TaskiqDepends(uncached_leaf, use_cache=False),
    aleaf: Dict[str, Any] = TaskiqDepends(uncached_async_leaf, use_cache=False),
    nested: Dict[str, Any] = TaskiqDepends(nested_mid, use_cache=False),
    ugen: Dict[str, Any] = TaskiqDepends(gen_dep, use_cache=False),
    uagen: Dict[str, Any] = TaskiqDepends(agen_dep, use_cache=False),
    ctx: Context = TaskiqDepends(),
) -> Dict[str, Any]:
    """
    Cached dependency that needs `gate_dep`.

    Everything un-cached below is therefore resolved AFTER the suspension point,
    i.e. possibly after other messages have started.
    """
    return {
        "gate": gate,
        "leaf": leaf,
        "aleaf": aleaf,
        "nested": nested,
        "ugen": ugen,
        "uagen": uagen,
        "late": observe(ctx),
    }


# -------------------------------------------------------------------------- tasks
@broker.task(task_name="probe")
async def probe(  # noqa: PLR0913
    x: int,
    k: int = -1,
    ctx: Context = TaskiqDepends(),
    early: Dict[str, Any] = TaskiqDepends(sync_cached),
    gate: Dict[str, Any] = TaskiqDepends(gate_dep),
    late_: Dict[str, Any] = TaskiqDepends(late),
    gen: Dict[str, Any] = TaskiqDepends(gen_dep),
    agen: Dict[str, Any] = TaskiqDepends(agen_dep),
) -> Dict[str, Any]:
    before = observe(ctx)
    ctx.message.labels["seen_by"] = ctx.message.task_id
    await pause("body", ctx.message.task_id)
    if ctx.message.labels.get("fail") == "body":
        raise ValueError(f"body-fail-{ctx.message.task_id}")
    return {
        "x": x,
        "kw": k,
        "before": before,
        "after": observe(ctx),
        "seen_by": ctx.message.labels.get("seen_by"),
        "early": early,
        "gate": gate,
        "late": late_,
        "gen": gen,
        "agen": agen,
    }


@broker.task(task_name="probe_sync")
def probe_sync(
    x: int,
    k: int = -1,
    ctx: Context = TaskiqDepends(),
    gate: Dict[str, Any] = TaskiqDepends(gate_dep),
    late_: Dict[str, Any] = TaskiqDepends(late),
) -> Dict[str, Any]:
    """Sync task: runs in the thread pool, no 'body' suspension point."""
    return {"x": x, "kw": k, "after": observe(ctx), "gate": gate, "late": late_}


async def nodeps(x: int, k: int = -1, tid: str = "") -> Dict[str, Any]:
    """Task without any dependency; it learns its id from an argument."""
    await pause("body", tid)
    return {"x": x, "kw": k, "tid": tid}


broker.task(task_name="nodeps")(nodeps)


if HAS_MESSAGE_INJECTION:

    def msg_leaf(msg: TaskiqMessage = TaskiqDepends()) -> Dict[str, Any]:
        return {
            "obs": True,
            "id": msg.task_id,
            "tag": msg.labels.get("tag"),
            "args": list(msg.args),
            "k": msg.kwargs.get("k"),
        }

    async def msg_late(
        gate: Dict[str, Any] = TaskiqDepends(gate_dep),
        leaf: Dict[str, Any] = TaskiqDepends(msg_leaf, use_cache=False),
        cached: Dict[str, Any] = TaskiqDepends(msg_leaf),
        msg: TaskiqMessage = TaskiqDepends(),
        ctx: Context = TaskiqDepends(),
    ) -> Dict[str, Any]:
        return {
            "gate": gate,
            "leaf": leaf,
            "cached": cached,
            "same_object": msg is ctx.message,
            "late_id": {"obs": True, **{k: v for k, v in msg_leaf(msg).items()}},
        }

    @broker.task(task_name="probe_msg")
    async def probe_msg(
        x: int,
        k: int = -1,
        msg: TaskiqMessage = TaskiqDepends(),
        ctx: Context = TaskiqDepends(),
        late_: Dict[str, Any] = TaskiqDepends(msg_late),
    ) -> Dict[str, Any]:
        await pause("body", msg.task_id)
        return {
            "x": x,
            "kw": k,
            "after": observe(ctx),
            "msg": msg_leaf(msg),
            "late": late_,
            "same_object": msg is ctx.message,
        }


# ------------------------------------------------------------------------- driver
class Msg:
    """Description of one message of a scenario."""

    def __init__(
        self,
        task_id: str,
        num: int,
        task_name: str = "probe",
        fail_at: Optional[str] = None,
        timeout: Optional[float] = None,
        actions: Optional[List[str]] = None,
    ) -> None:
        self._actions = actions
        self.task_id = task_id
        self.num = num
        self.task_name = task_name
        self.fail_at = fail_at
        self.timeout = timeout
        labels: Dict[str, Any] = {"tag": f"tag-{task_id}"}
        if fail_at:
            labels["fail"] = fail_at
        if timeout is not None:
            labels["timeout"] = timeout
        kwargs: Dict[str, Any] = {"k": num}
        if task_name == "nodeps":
            kwargs["tid"] = task_id
        self.raw = broker.formatter.dumps(
            TaskiqMessage(
                task_id=task_id,
                task_name=task_name,
                labels=labels,
                args=[num],
                kwargs=kwargs,
            ),
        ).message
        for stage in ("dep", "body"):
            gates[(stage, task_id)] = asyncio.Event()
            entered[(stage, task_id)] = asyncio.Event()
        self.running: "Optional[asyncio.Task[Any]]" = None

    @property
    def actions(self) -> List[str]:
        if self._actions is not None:
            return list(self._actions)
        if self.task_name == "nodeps":
            return ["start", "body"]
        if self.task_name == "probe_sync":
            return ["start", "dep"]
        return ["start", "dep", "body"]

    async def settle(self) -> None:
        """Wait until the execution reaches its next pause or finishes."""
        assert self.running is not None
        for _ in range(20000):
            if self.running.done():
                return
            waiting = [
                stage
                for stage in ("dep", "body")
                if entered[(stage, self.task_id)].is_set()
                and not gates[(stage, self.task_id)].is_set()
            ]
            if waiting:
                return
            await asyncio.sleep(0 if _ < 2000 else 0.001)
        raise RuntimeError(f"{self.task_id} made no progress")

    async def act(self, action: str, receiver: Receiver) -> None:
        if action == "start":
            self.running = asyncio.create_task(receiver.callback(self.raw))
        elif action == "body" and self.timeout is not None:
            # The gate is never opened: the `timeout` label has to cancel the task.
            assert self.running is not None
            await asyncio.wait_for(self.running, 10)
        else:
            gates[(action, self.task_id)].set()
        await self.settle()


def interleavings(seqs: List[List[Tuple[int, str]]]) -> Generator[List[Tuple[int, str]], None, None]:
    """All merges of the given sequences that keep the order inside each one."""
    if all(not seq for seq in seqs):
        yield []
        return
    for idx, seq in enumerate(seqs):
        if seq:
            rest = [s[1:] if i == idx else s for i, s in enumerate(seqs)]
            for tail in interleavings(rest):
                yield [seq[0], *tail]


def check_obs(value: Any, want: Dict[str, Any], where: str, task_id: str) -> None:
    """Every observation found anywhere in the value must be the expected one."""
    if isinstance(value, dict):
        if value.get("obs") is True:
            checked["observations"] += 1
            if value != want:
                fail(
                    f"{task_id}: {where} observed {value}, "
                    f"but its own message is {want}",
                )
            return
        for key, sub in value.items():
            check_obs(sub, want, f"{where}.{key}", task_id)


async def check_message(msg: Msg, scenario: str, brk: InMemoryBroker) -> None:
    tid = msg.task_id
    want = expected(tid, msg.num)
    if not await brk.result_backend.is_result_ready(tid):
        fail(f"[{scenario}] no result stored under {tid}")
        return
    result = await brk.result_backend.get_result(tid)
    checked["results"] += 1
    if result.labels.get("tag") != want["tag"]:
        fail(f"[{scenario}] result of {tid} carries labels {result.labels}")
    if msg.fail_at:
        word = f"{msg.fail_at}-fail-{tid}"
        if not result.is_err or word not in str(result.error):
            fail(f"[{scenario}] {tid} must hold its own failure {word}: {result!r}")
        return
    if msg.timeout is not None:
        if not result.is_err or not isinstance(result.error, asyncio.TimeoutError):
            fail(f"[{scenario}] {tid} must hold its own timeout error: {result!r}")
        return
    if result.is_err:
        fail(f"[{scenario}] {tid} failed unexpectedly: {result.error!r}")
        return
    ret = result.return_value
    if ret.get("x") != msg.num or ret.get("kw") != msg.num:
        fail(f"[{scenario}] {tid} got arguments x={ret.get('x')} k={ret.get('kw')}")
    if "seen_by" in ret and ret["seen_by"] != tid:
        fail(f"[{scenario}] labels of {tid} were written by {ret['seen_by']}")
    if "seen_by" in ret and result.labels.get("seen_by") != tid:
        fail(f"[{scenario}] result labels of {tid}: {result.labels}")
    if ret.get("tid", tid) != tid:
        fail(f"[{scenario}] result under {tid} was produced for {ret.get('tid')}")
    if ret.get("same_object", True) is not True:
        fail(f"[{scenario}] {tid}: injected message is not the Context's message")
    if isinstance(ret.get("late"), dict) and ret["late"].get("same_object", True) is not True:
        fail(f"[{scenario}] {tid}: dependency got a message that is not its own")
    check_obs(ret, want, "return_value", tid)


def check_teardowns(scenario: str, msgs: List[Msg]) -> None:
    by_id = {m.task_id: m for m in msgs}
    for kind, owner, seen in teardowns:
        msg = by_id[owner]
        if kind.endswith("-exc"):
            if msg.timeout is not None:
                if "TimeoutError" not in seen:
                    fail(f"[{scenario}] {kind} of {owner} received {seen}")
            elif owner not in seen:
                fail(f"[{scenario}] {kind} of {owner} received a foreign error: {seen}")
        elif seen != expected(owner, msg.num):
            fail(f"[{scenario}] {kind} teardown of {owner} observed {seen}")
    # A failed execution must not throw its error into generators of the others.
    for msg in msgs:
        if msg.fail_at is None and msg.timeout is None:
            for kind, owner, seen in teardowns:
                if owner == msg.task_id and kind.endswith("-exc"):
                    fail(f"[{scenario}] {owner} got an exception it never raised: {seen}")
    teardowns.clear()


scenario_counter = itertools.count()


async def run_family(
    name: str,
    specs: List[Dict[str, Any]],
    brk: Optional[InMemoryBroker] = None,
) -> None:
    """Run every interleaving of the actions of the described messages."""
    brk = brk or broker
    receiver = brk.receiver
    probe_msgs = [Msg(f"shape-{name}-{i}", i, **spec) for i, spec in enumerate(specs)]
    seqs = [[(i, act) for act in m.actions] for i, m in enumerate(probe_msgs)]
    total = 0
    for order in interleavings(seqs):
        num = next(scenario_counter)
        scenario = f"{name}#{num}"
        msgs = [
            Msg(f"{name}-{num}-m{i}", 100 * (num % 7) + i + 1, **spec)
            for i, spec in enumerate(specs)
        ]
        for idx, action in order:
            await msgs[idx].act(action, receiver)
        for msg in msgs:
            assert msg.running is not None
            await asyncio.wait_for(msg.running, 10)
        for msg in msgs:
            await check_message(
                msg,
                scenario + " " + " ".join(f"{a}{i}" for i, a in order),
                brk,
            )
        check_teardowns(scenario, msgs)
        for msg in msgs:
            for stage in ("dep", "body"):
                gates.pop((stage, msg.task_id))
                entered.pop((stage, msg.task_id))
        total += 1
        checked["scenarios"] += 1
    for msg in probe_msgs:
        for stage in ("dep", "body"):
            gates.pop((stage, msg.task_id))
            entered.pop((stage, msg.task_id))
    print(f"family {name}: {total} interleavings checked")


async def run_runner_scenario() -> None:
    """The same through Receiver.runner with a queue of prefetched messages."""
    receiver = Receiver(broker, executor=broker.executor, max_async_tasks=5)
    msgs = [Msg(f"runner-m{i}", i + 1) for i in range(4)]
    msgs.append(Msg("runner-nodeps", 9, task_name="nodeps"))
    queue: "asyncio.Queue[Any]" = asyncio.Queue()
    for msg in msgs:
        queue.put_nowait(msg.raw)
    from taskiq.receiver.receiver import QUEUE_DONE

    queue.put_nowait(QUEUE_DONE)
    runner = asyncio.create_task(receiver.runner(queue))
    for msg in msgs[:4]:
        await asyncio.wait_for(entered[("dep", msg.task_id)].wait(), 10)
    await asyncio.wait_for(entered[("body", "runner-nodeps")].wait(), 10)
    for msg in reversed(msgs[:4]):
        gates[("dep", msg.task_id)].set()
        await asyncio.wait_for(entered[("body", msg.task_id)].wait(), 10)
    gates[("body", "runner-nodeps")].set()
    for msg in (msgs[2], msgs[0], msgs[3], msgs[1]):
        gates[("body", msg.task_id)].set()
    await asyncio.wait_for(runner, 10)
    for msg in msgs:
        await check_message(msg, "runner", broker)
    check_teardowns("runner", msgs)
    checked["scenarios"] += 1
    print("runner scenario checked")


# ----------------------------------------------------- dependency overrides family
override_broker = InMemoryBroker(max_stored_results=100000)


def plain_tag() -> str:
    return "plain"


async def override_tag(
    gate: Dict[str, Any] = TaskiqDepends(gate_dep),
    seen: Dict[str, Any] = TaskiqDepends(uncached_leaf, use_cache=False),
    nested: Dict[str, Any] = TaskiqDepends(nested_mid, use_cache=False),
) -> Any:
    return {"gate": gate, "seen": seen, "nested": nested}


@override_broker.task(task_name="overridden_probe")
async def overridden(x: int, k: int = -1, tag: Any = TaskiqDepends(plain_tag)) -> Any:
    return {"x": x, "kw": k, "tag": tag}


async def run_override_family() -> None:
    """The task's own graph has no Context at all; the override brings it in."""
    override_broker.dependency_overrides[plain_tag] = override_tag
    override_broker.task(task_name="nodeps")(nodeps)
    spec = {"task_name": "overridden_probe", "actions": ["start", "dep"]}
    await run_family("override", [dict(spec), dict(spec), dict(spec)], override_broker)
    await run_family(
        "override-nodeps",
        [dict(spec), {"task_name": "nodeps"}, dict(spec)],
        override_broker,
    )
    await override_broker.shutdown()


async def report_shared_dict() -> None:
    """Informational only: implementation detail that C06 does not constrain."""
    brk = InMemoryBroker()
    brk.task(task_name="nodeps")(nodeps)
    msg = Msg("info-nodeps", 1, task_name="nodeps")
    gates[("body", "info-nodeps")].set()
    await brk.receiver.callback(msg.raw)
    result = await brk.result_backend.get_result("info-nodeps")
    if result.is_err or result.return_value != {"x": 1, "kw": 1, "tid": "info-nodeps"}:
        fail(f"dependency-less task alone: {result!r}")
    print(
        "info: broker-wide dependency dict holds a Context after a "
        f"dependency-less task: {Context in brk.custom_dependency_context}; "
        f"keys: {sorted(getattr(k, '__name__', str(k)) for k in brk.custom_dependency_context)}",
    )
    await brk.shutdown()


async def main() -> int:
    await report_shared_dict()
    # All interleavings of 3 concurrent messages of the task with the full graph.
    await run_family("async3", [{}, {}, {}])
    # Faults: a dependency raising after the suspension, a body raising.
    await run_family("faults", [{"fail_at": "dep"}, {}, {"fail_at": "body"}])
    # A sync task in the thread pool, a task without dependencies in between.
    await run_family(
        "mixed",
        [{}, {"task_name": "probe_sync"}, {"task_name": "nodeps"}],
    )
    await run_family(
        "nodeps",
        [{"task_name": "nodeps"}, {}, {"task_name": "nodeps"}],
    )
    # Timing: one execution is cancelled by its timeout while the others wait.
    await run_family("timeout", [{"timeout": 0.02}, {}])
    if HAS_MESSAGE_INJECTION:
        await run_family(
            "msg-injection",
            [{"task_name": "probe_msg"}, {"task_name": "probe_msg"}, {}],
        )
    else:
        print("family msg-injection: skipped (TaskiqMessage is not injectable here)")
    await run_override_family()
    await run_runner_scenario()
    await broker.shutdown()
    print(
        f"{checked['scenarios']} scenarios, {checked['results']} stored results, "
        f"{checked['observations']} observations checked, {len(failures)} failures",
    )
    return 1 if failures else 0


if __name__ == "__main__":
    sys.exit(asyncio.run(main()))
