"""Unit `compat`: taskiq/compat.py::create_type_adapter, parse_obj_as (pydantic v2 branch) — C08.

parse_params' contract treats the conversion as a FUNCTION conv(annotation, value) of its two arguments.  These two repo helpers sit
between parse_params and pydantic, so that assumption is an obligation here:
   parse_obj_as(annot, obj) == TypeAdapter-for-annot.validate_python(obj)        (the adapter applied is the one of the value's OWN annotation,
   whatever was converted before: no dependence on call history).
`functools.lru_cache` is trusted to memoise on argument equality (for types: identity); any other cache is executed symbolically with the
module-level state unconstrained."""
import ast
from z3 import *
from pyvc.core import *

PROPS = ['C08', 'C06', 'C19', 'C20']
REPLAY = {'driver': 'parse_params'}
REL = 'taskiq/compat.py'
TRUSTED = [
    "functools.lru_cache()(f)(x) returns f(x') for an x' equal to x (hash/eq); annotation objects that are equal denote the same type",
    "pydantic.TypeAdapter(annot).validate_python(obj) is a function of (annot, obj): the pydantic conversion conv(annot, obj)",
    "module-level mutable state (e.g. a hand-written cache dict) may hold anything earlier calls put there: reads from it are unconstrained",
]


def generate(src):
    CTA = src.func(REL, 'create_type_adapter'); POA = src.func(REL, 'parse_obj_as')
    adapter_for = Function('TypeAdapter_for', Val, Val); annot_of = Function('annotation_of_adapter', Val, Val); validate = Function('validate_python', Val, Val, Val)
    x_ = Const('x_', Val); AX = [ForAll([x_], annot_of(adapter_for(x_)) == x_)]
    decos = [ast.unparse(d) for d in CTA.decorator_list]
    class Ex(Exec):
        def ev_Name(self, e, st, k, K):
            if e.id not in st.env and e.id not in ('pydantic',): return k(st, PyObj(Int('global_' + e.id), 'module_state'))
            return super().ev_Name(e, st, k, K)
        def find_handler(self, name, recv=None):
            h = super().find_handler(name, recv)
            if h is None and (recv is None or (isinstance(recv, PyObj) and recv.kind == 'module_state')):
                self.unmodelled.add(name)
                return lambda ex_, st_, e, r, a, kw, k, K: k(st_, fresh('from_module_state'))          # unconstrained read of module-level state
            return h
        def assign(self, tgt, v, st, k, K):
            if isinstance(tgt, ast.Subscript): return k(st)                                            # writes into module-level caches: no constraint gained
            return super().assign(tgt, v, st, k, K)
    H = {'pydantic.TypeAdapter': lambda ex_, st_, e, r, a, kw, k, K: k(st_, adapter_for(to_val(a[0]))), 'repr': lambda ex_, st_, e, r, a, kw, k, K: k(st_, fresh('repr')),
         'id': lambda ex_, st_, e, r, a, kw, k, K: k(st_, fresh('id')), 'hash': lambda ex_, st_, e, r, a, kw, k, K: k(st_, fresh('hash')), 'str': lambda ex_, st_, e, r, a, kw, k, K: k(st_, fresh('str'))}
    ex = Ex(H); ex.allowed_decorators = ('lru_cache', 'cache'); annot = fresh('annot'); st = State(); st.env = {'annot': annot}; st.facts = list(AX); n = [0]   # the memoisation obligation below is what makes the cache transparent
    oblige(st, "create_type_adapter/memoisation: cached (if at all) by functools.lru_cache on the annotation itself  [C08]", BoolVal(all(d in ('lru_cache()', 'lru_cache', 'functools.lru_cache()', 'functools.lru_cache', 'lru_cache(maxsize=None)', 'cache', 'functools.cache') for d in decos)))
    def c_ret(s, v):
        n[0] += 1
        oblige(s, "create_type_adapter/post: returns an adapter for the annotation it was asked for - never one built for another annotation  [C08]", And(Val.is_ref(to_val(v)) if False else True, annot_of(to_val(v)) == annot))
        reach(s, f"create_type_adapter/reach@return#{n[0]}")
    ex.run(CTA, st, c_ret, lambda s, x: oblige(s, "create_type_adapter/raises: nothing of its own  [C08]", BoolVal(False)))
    # parse_obj_as: validate through create_type_adapter(annot) (contract above)
    def h_cta(ex_, st_, e, r, a, kw, k, K):
        ad = fresh('adapter'); st_.pc.append(annot_of(ad) == to_val(a[0])); return k(st_, ad)
    class Ex2(Exec):
        def find_handler(self, name, recv=None):
            if name.endswith('.validate_python'): return lambda ex_, st_, e, r, a, kw, k, K: k(st_, validate(annot_of(to_val(r)), to_val(a[0])))
            return super().find_handler(name, recv)
    ex2 = Ex2({'create_type_adapter': h_cta}); ex2.no_pure_fallback = True; obj = fresh('obj')
    oblige(State(), "parse_obj_as/memoisation: the CONVERSION RESULT is never cached (every call validates again: two messages with equal raw values must not share one parsed, possibly mutable, object)  [C06/C08]",
           BoolVal(not POA.decorator_list and not any(isinstance(n_, ast.Call) and ast.unparse(n_.func).split('.')[-1] in ('lru_cache', 'cache') for n_ in ast.walk(POA))
                   and not any(fd_.decorator_list for fd_ in ast.walk(src.tree(REL)) if isinstance(fd_, (ast.FunctionDef, ast.AsyncFunctionDef)) and fd_.name != CTA.name
                               and any(isinstance(n_, ast.Call) and isinstance(n_.func, ast.Name) and n_.func.id == fd_.name for n_ in ast.walk(POA))))); st2 = State(); st2.env = {'annot': annot, 'obj': obj}; st2.facts = list(AX)
    ex2.run(POA, st2, lambda s, v: (oblige(s, "parse_obj_as/post: the value is converted by the adapter of ITS annotation: result == conv(annot, obj)  [C08]", to_val(v) == validate(annot, obj)), reach(s, "parse_obj_as/reach@return")),
            lambda s, x: None)
    # ---------------- model_validate: result backends load a stored TaskiqResult through it - it must go through the model's validators
    MV = src.func(REL, 'model_validate'); mvals = Function('model_class_model_validate', Val, Val, Val); mc = fresh('model_class'); msg = fresh('message')
    class Ex3(Exec):
        def find_handler(self, name, recv=None):
            if name in ('model_class.model_validate', 'model_class.parse_obj'): return lambda ex_, st_, e, r, a, kw, k, K: k(st_, mvals(mc, to_val(a[0])) if len(a) == 1 and not kw else fresh('other'))
            return super().find_handler(name, recv)
    ex3 = Ex3({}); ex3.no_pure_fallback = True; st3 = State(); st3.env = {'model_class': mc, 'message': msg}
    try:
        ex3.run(MV, st3, lambda s, v: (oblige(s, "model_validate/post: the stored data goes through the model's own validation (model_class.model_validate(message)): the validators of TaskiqResult.error are what guards the loading of stored errors  [C20/C19]", to_val(v) == mvals(mc, msg)), reach(s, "model_validate/reach@return")),
                lambda s, x: oblige(s, "model_validate/raises: nothing of its own  [C20/C19]", BoolVal(False)))
    except Unsupported as ex_:
        oblige(State(), "model_validate/post: the stored data goes through the model's own validation (model_class.model_validate(message)): the validators of TaskiqResult.error are what guards the loading of stored errors  [C20/C19]", BoolVal(False), witness={})
    return {'decorators': decos}
