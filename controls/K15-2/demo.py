"""
Demo / check for property C15 (scheduler loop: every due schedule is sent once
per occurrence, minute after minute; a source that fails to list or a send that
fails affects only that source's / that schedule's occurrence and never stops
later polls).

`taskiq.cli.scheduler.run.run_scheduler_loop` is executed on a deterministic
virtual clock: an event loop whose time jumps to the next timer and a
`datetime` replacement (installed in taskiq.cli.scheduler.run only) derived from
that loop time.  Several scenarios are replayed (different sub-second start
instants, 1..3 sources, cron and one-shot schedules, cron offsets, a non-UTC
host, dynamic add/remove between polls, slow listings incl. a listing that
straddles a minute boundary, send latencies up to 90 s, failures injected into
get_schedules(), kick(), pre_send() and post_send()).

For every scenario the following is checked from the recorded history:
  * every source is polled at start and then exactly at every minute boundary,
    once per minute, until the end of the horizon (faults never stop polls);
  * every cron schedule that a source listed at a poll has exactly one kick()
    attempt in that minute if its expression matches the minute, none otherwise
    (the expected minutes are given as independent predicates, not recomputed
    with the code under test);
  * every one-shot schedule: no attempt before its time, first attempt within
    one second after it (or at the first poll that listed it when it was
    already past), a failed attempt is retried at the next poll, exactly one
    delivered send overall, nothing after it; removed schedules are never sent;
  * faults were really injected (each planned fault was hit).

Exit code 0 when the property holds in all scenarios, 1 otherwise.
Run: cd /tmp/wt/C15 && PYTHONPATH=/tmp/wt/C15 /venv/bin/python <this file>
"""

import asyncio
import logging
import sys
from dataclasses import dataclass, field
from datetime import datetime, timedelta, timezone
from typing import Any, AsyncGenerator, Callable, Dict, List, Optional, Set, Tuple

import taskiq.cli.scheduler.run as run_mod
from taskiq import AsyncBroker, BrokerMessage, ScheduleSource, TaskiqScheduler
from taskiq.scheduler.scheduled_task import ScheduledTask

UTC = timezone.utc
EPS = timedelta(milliseconds=1)


# --------------------------------------------------------------------------
# virtual clock
# --------------------------------------------------------------------------
class VirtualLoop(asyncio.SelectorEventLoop):
    """Event loop with virtual time: idle waiting jumps to the next timer."""

    def __init__(self) -> None:
        super().__init__()
        self._vtime = 0.0

    def time(self) -> float:
        return self._vtime

    def _run_once(self) -> None:  # type: ignore[override]
        sched = self._scheduled  # type: ignore[attr-defined]
        if not self._ready and sched:  # type: ignore[attr-defined]
            when = sched[0]._when
            if when > self._vtime:
                self._vtime = when
        super()._run_once()  # type: ignore[misc]


class Clock:
    loop: VirtualLoop
    base: datetime = datetime(2024, 1, 1, tzinfo=UTC)
    host_offset: timedelta = timedelta(0)


def vnow() -> datetime:
    """Current virtual instant (aware, UTC), exact to the microsecond."""
    return Clock.base + timedelta(microseconds=round(Clock.loop.time() * 1e6))


class VirtualDatetime(datetime):
    """datetime whose now()/utcnow() follow the virtual clock."""

    @classmethod
    def now(cls, tz: Any = None) -> datetime:  # type: ignore[override]
        cur = vnow()
        if tz is None:
            # naive local time of a host whose zone is UTC + host_offset
            return (cur + Clock.host_offset).replace(tzinfo=None)
        return cur.astimezone(tz)

    @classmethod
    def utcnow(cls) -> datetime:  # type: ignore[override]
        return vnow().replace(tzinfo=None)


def floor_minute(moment: datetime) -> datetime:
    return moment.replace(second=0, microsecond=0)


# --------------------------------------------------------------------------
# instrumented broker and source
# --------------------------------------------------------------------------
class InjectedFault(Exception):
    """Fault injected by the demo."""


class RecordingBroker(AsyncBroker):
    """Records every kick() attempt; selected attempts fail, some are slow."""

    def __init__(
        self,
        fail: Dict[Tuple[str, int], BaseException],
        latency: Dict[str, float],
    ) -> None:
        super().__init__(None, None)
        self.fail = fail
        self.latency = latency
        self.attempts: Dict[str, List[Tuple[datetime, bool]]] = {}
        self.hit: Set[Tuple[str, int]] = set()

    async def kick(self, message: BrokerMessage) -> None:
        sid = str(message.labels.get("schedule_id"))
        mine = self.attempts.setdefault(sid, [])
        number = len(mine)
        entry = [vnow(), True]
        mine.append(entry)  # type: ignore[arg-type]
        lat = self.latency.get(sid, 0.0)
        if lat:
            await asyncio.sleep(lat)
        if (sid, number) in self.fail:
            entry[1] = False
            self.hit.add((sid, number))
            raise self.fail[(sid, number)]

    async def listen(self) -> AsyncGenerator[bytes, None]:  # pragma: no cover
        return
        yield b""


@dataclass
class PollRecord:
    start: datetime
    finish: Optional[datetime] = None
    ok: bool = False
    listed: Dict[str, ScheduledTask] = field(default_factory=dict)


class DynSource(ScheduleSource):
    """In-memory source: dynamic add/remove, slow and failing listings."""

    def __init__(
        self,
        name: str,
        schedules: List[ScheduledTask],
        list_latency: float = 0.0,
        fail_polls: Optional[Dict[int, BaseException]] = None,
        pre_send_fail: Optional[Dict[Tuple[str, int], BaseException]] = None,
        post_send_fail: Optional[Dict[Tuple[str, int], BaseException]] = None,
    ) -> None:
        self.name = name
        self.items: Dict[str, ScheduledTask] = {s.schedule_id: s for s in schedules}
        self.list_latency = list_latency
        self.fail_polls = fail_polls or {}
        self.pre_send_fail = pre_send_fail or {}
        self.post_send_fail = post_send_fail or {}
        self.polls: List[PollRecord] = []
        self.pre_calls: Dict[str, int] = {}
        self.post_calls: Dict[str, int] = {}
        self.hit: Set[Any] = set()

    def __repr__(self) -> str:
        return f"<DynSource {self.name}>"

    async def get_schedules(self) -> List[ScheduledTask]:
        index = len(self.polls)
        rec = PollRecord(start=vnow())
        self.polls.append(rec)
        if self.list_latency:
            await asyncio.sleep(self.list_latency)
        rec.finish = vnow()
        if index in self.fail_polls:
            self.hit.add(("list", index))
            raise self.fail_polls[index]
        rec.ok = True
        # like a real source: fresh objects at every listing
        rec.listed = {k: v.model_copy(deep=True) for k, v in self.items.items()}
        return list(rec.listed.values())

    async def add_schedule(self, schedule: ScheduledTask) -> None:
        self.items[schedule.schedule_id] = schedule

    async def delete_schedule(self, schedule_id: str) -> None:
        self.items.pop(schedule_id, None)

    def pre_send(self, task: ScheduledTask) -> None:
        number = self.pre_calls.get(task.schedule_id, 0)
        self.pre_calls[task.schedule_id] = number + 1
        if (task.schedule_id, number) in self.pre_send_fail:
            self.hit.add(("pre", task.schedule_id, number))
            raise self.pre_send_fail[(task.schedule_id, number)]

    async def post_send(self, task: ScheduledTask) -> None:
        number = self.post_calls.get(task.schedule_id, 0)
        self.post_calls[task.schedule_id] = number + 1
        if task.time is not None:
            # one-shot schedules are removed once they were sent
            self.items.pop(task.schedule_id, None)
        if (task.schedule_id, number) in self.post_send_fail:
            self.hit.add(("post", task.schedule_id, number))
            raise self.post_send_fail[(task.schedule_id, number)]


def cron(sid: str, expr: str, offset: Any = None) -> ScheduledTask:
    return ScheduledTask(
        task_name=f"demo:{sid}",
        labels={},
        args=[],
        kwargs={},
        schedule_id=sid,
        cron=expr,
        cron_offset=offset,
    )


def oneshot(sid: str, due: datetime) -> ScheduledTask:
    return ScheduledTask(
        task_name=f"demo:{sid}",
        labels={},
        args=[],
        kwargs={},
        schedule_id=sid,
        time=due,
    )


# --------------------------------------------------------------------------
# scenario description
# --------------------------------------------------------------------------
@dataclass
class Scenario:
    name: str
    base: datetime
    minutes: int  # observed minute boundaries after the start
    make_sources: Callable[[], List[DynSource]]
    # cron schedule id -> predicate over the UTC minute: "is due in that minute"
    cron_due: Dict[str, Callable[[datetime], bool]]
    # one-shot id -> (due, expectation); expectation is "window" (first attempt
    # in [due, due + 1 s]), ("poll", k) (first attempt at the evaluation instant
    # of the k-th poll) or "never"
    oneshots: Dict[str, Tuple[datetime, Any]] = field(default_factory=dict)
    kick_fail: Dict[Tuple[str, int], BaseException] = field(default_factory=dict)
    kick_latency: Dict[str, float] = field(default_factory=dict)
    # (seconds after start, name of source, "add"/"del", schedule or id)
    events: List[Tuple[float, str, str, Any]] = field(default_factory=list)
    host_offset: timedelta = timedelta(0)
    # number of polls in the horizon; default: the start + one per boundary
    polls: Optional[int] = None


@dataclass
class Outcome:
    sources: List[DynSource]
    broker: RecordingBroker
    loop_alive: bool
    loop_errors: List[Dict[str, Any]]
    log_records: List[logging.LogRecord]


class ListHandler(logging.Handler):
    def __init__(self) -> None:
        super().__init__(level=logging.DEBUG)
        self.records: List[logging.LogRecord] = []

    def emit(self, record: logging.LogRecord) -> None:
        self.records.append(record)


def replay(sc: Scenario) -> Outcome:
    loop = VirtualLoop()
    Clock.loop = loop
    Clock.base = sc.base
    Clock.host_offset = sc.host_offset
    asyncio.set_event_loop(loop)
    errors: List[Dict[str, Any]] = []
    loop.set_exception_handler(lambda _l, ctx: errors.append(ctx))

    handler = ListHandler()
    tlog = logging.getLogger("taskiq")
    old_level = tlog.level
    tlog.setLevel(logging.DEBUG)
    tlog.addHandler(handler)
    tlog.propagate = False

    sources = sc.make_sources()
    by_name = {s.name: s for s in sources}
    broker = RecordingBroker(dict(sc.kick_fail), dict(sc.kick_latency))
    scheduler = TaskiqScheduler(broker, list(sources))
    alive = [False]

    async def apply_event(after: float, src: str, kind: str, what: Any) -> None:
        await asyncio.sleep(after)
        if kind == "add":
            await by_name[src].add_schedule(what)
        else:
            await by_name[src].delete_schedule(what)

    async def main() -> None:
        loop_task = asyncio.ensure_future(run_mod.run_scheduler_loop(scheduler))
        for event in sc.events:
            asyncio.ensure_future(apply_event(*event))
        first_boundary = floor_minute(sc.base) + timedelta(minutes=1)
        horizon = (first_boundary - sc.base).total_seconds()
        horizon += 60 * (sc.minutes - 1) + 30
        await asyncio.sleep(horizon)
        alive[0] = not loop_task.done()
        me = asyncio.current_task()
        rest = [t for t in asyncio.all_tasks() if t is not me]
        for task in rest:
            task.cancel()
        await asyncio.gather(*rest, return_exceptions=True)

    try:
        loop.run_until_complete(main())
        # let "never retrieved" reports of dead send tasks reach the handler
        import gc

        gc.collect()
        loop.run_until_complete(asyncio.sleep(0))
    finally:
        tlog.removeHandler(handler)
        tlog.setLevel(old_level)
        tlog.propagate = True
        loop.close()
    return Outcome(sources, broker, alive[0], errors, handler.records)


# --------------------------------------------------------------------------
# checking
# --------------------------------------------------------------------------
def check(sc: Scenario, out: Outcome) -> List[str]:
    bad: List[str] = []
    if not out.loop_alive:
        bad.append("the scheduler loop stopped before the end of the horizon")

    n_polls = sc.polls if sc.polls is not None else sc.minutes + 1
    first_boundary = floor_minute(sc.base) + timedelta(minutes=1)
    # -- polls: at start, then at every boundary, all sources, nothing else
    for src in out.sources:
        starts = [p.start for p in src.polls]
        if len(starts) != n_polls:
            bad.append(f"{src}: {len(starts)} polls, expected {n_polls}: {starts}")
            continue
        if starts[0] != sc.base:
            bad.append(f"{src}: first poll at {starts[0]}, expected at start")

    evals: List[datetime] = []  # instant at which poll k was evaluated
    for k in range(n_polls):
        recs = [s.polls[k] for s in out.sources if len(s.polls) > k]
        if not recs or any(r.finish is None for r in recs):
            bad.append(f"poll {k}: listing did not finish")
            return bad
        evals.append(max(r.finish for r in recs))  # type: ignore[type-var]
    for k in range(1, n_polls):
        boundary = floor_minute(evals[k - 1]) + timedelta(minutes=1)
        for src in out.sources:
            got = src.polls[k].start
            if abs(got - boundary) > EPS:
                bad.append(f"{src}: poll {k} at {got}, expected boundary {boundary}")
        if floor_minute(evals[k]) != boundary:
            bad.append(f"poll {k} evaluated in minute {evals[k]}, expected {boundary}")
    if floor_minute(evals[0]) not in (floor_minute(sc.base), first_boundary):
        bad.append(f"first poll evaluated at {evals[0]}")

    owner: Dict[str, DynSource] = {}
    for src in out.sources:
        for rec in src.polls:
            for sid in rec.listed:
                owner[sid] = src

    # -- cron schedules: once per listed & matching minute, never otherwise
    for sid, due in sc.cron_due.items():
        expected: List[datetime] = []
        for k in range(n_polls):
            for src in out.sources:
                rec = src.polls[k]
                if rec.ok and sid in rec.listed and due(floor_minute(evals[k])):
                    expected.append(evals[k])
        got_all = [t for t, _ok in out.broker.attempts.get(sid, [])]
        # a failing pre_send happens before kick(): that occurrence has no kick
        src0 = owner.get(sid)
        if src0 is not None:
            lost = sorted(n for (s, n) in src0.pre_send_fail if s == sid)
            for n in reversed(lost):
                if n < len(expected):
                    del expected[n]
        if len(got_all) != len(expected):
            bad.append(
                f"cron {sid}: {len(got_all)} send attempts {fmt(got_all)}, "
                f"expected {len(expected)} {fmt(expected)}",
            )
            continue
        for got, exp in zip(got_all, expected):
            if got < exp or got - exp > timedelta(seconds=1) or floor_minute(
                got,
            ) != floor_minute(exp):
                bad.append(f"cron {sid}: attempt at {got}, expected at {exp}")
        minutes_seen = [floor_minute(t) for t in got_all]
        if len(set(minutes_seen)) != len(minutes_seen):
            bad.append(f"cron {sid}: sent twice in one minute: {fmt(got_all)}")
    # every schedule id that was kicked is known to the scenario
    for sid in out.broker.attempts:
        if sid not in sc.cron_due and sid not in sc.oneshots:
            bad.append(f"unexpected schedule id {sid} was sent")

    # -- one-shot schedules
    for sid, (due_at, expect) in sc.oneshots.items():
        att = out.broker.attempts.get(sid, [])
        if expect == "never":
            if att:
                bad.append(f"one-shot {sid}: sent {fmt([t for t, _ in att])}, never due")
            continue
        if not att:
            bad.append(f"one-shot {sid}: never sent")
            continue
        first = att[0][0]
        if first < due_at:
            bad.append(f"one-shot {sid}: sent at {first}, before its time {due_at}")
        if expect == "window":
            if first - due_at > timedelta(seconds=1):
                bad.append(f"one-shot {sid}: sent at {first}, due {due_at} (> 1 s late)")
        else:
            want = evals[expect[1]]
            if abs(first - want) > EPS:
                bad.append(f"one-shot {sid}: sent at {first}, expected at poll {want}")
        src = owner[sid]
        for i in range(1, len(att)):
            prev_t, prev_ok = att[i - 1]
            if prev_ok:
                bad.append(f"one-shot {sid}: sent again at {att[i][0]} after delivery")
                continue
            # retried at the first later poll that listed the source
            nxt = [
                evals[k]
                for k in range(n_polls)
                if src.polls[k].ok and src.polls[k].start > prev_t
            ]
            if not nxt or abs(att[i][0] - nxt[0]) > EPS:
                bad.append(f"one-shot {sid}: retry at {att[i][0]}, expected {nxt[:1]}")
        delivered = [t for t, ok in att if ok]
        if len(delivered) != 1:
            bad.append(f"one-shot {sid}: delivered {len(delivered)} times, expected 1")

    # -- planned faults were hit
    for key in sc.kick_fail:
        if key not in out.broker.hit:
            bad.append(f"kick fault {key} was not injected")
    for src in out.sources:
        for idx in src.fail_polls:
            if ("list", idx) not in src.hit:
                bad.append(f"{src}: listing fault at poll {idx} was not injected")
        for s, n in src.pre_send_fail:
            if ("pre", s, n) not in src.hit:
                bad.append(f"{src}: pre_send fault {(s, n)} was not injected")
        for s, n in src.post_send_fail:
            if ("post", s, n) not in src.hit:
                bad.append(f"{src}: post_send fault {(s, n)} was not injected")
    return bad


def fmt(times: List[datetime]) -> List[str]:
    return [t.strftime("%H:%M:%S.%f")[:-3] for t in times]


# --------------------------------------------------------------------------
# scenarios
# --------------------------------------------------------------------------
def always(_m: datetime) -> bool:
    return True


def never(_m: datetime) -> bool:
    return False


def scenarios() -> List[Scenario]:
    out: List[Scenario] = []

    # 1. plain cron mix, one source, sub-second start
    b1 = datetime(2024, 3, 5, 12, 0, 20, 250000, tzinfo=UTC)
    out.append(
        Scenario(
            name="cron mix, one source",
            base=b1,
            minutes=8,
            make_sources=lambda: [
                DynSource(
                    "s1",
                    [
                        cron("every", "* * * * *"),
                        cron("even", "*/2 * * * *"),
                        cron("at3", "3 12 * * *"),
                        cron("newyear", "0 0 1 1 *"),
                        cron("broken", "not a cron"),
                    ],
                ),
            ],
            cron_due={
                "every": always,
                "even": lambda m: m.minute % 2 == 0,
                "at3": lambda m: (m.hour, m.minute) == (12, 3),
                "newyear": never,
                "broken": never,
            },
        ),
    )

    # 2. three sources, listing faults, kick / pre_send / post_send faults,
    #    send latencies (one longer than a minute), cron offsets
    b2 = datetime(2024, 3, 5, 12, 0, 41, 900000, tzinfo=UTC)
    out.append(
        Scenario(
            name="3 sources, listing + send faults, latencies, offsets",
            base=b2,
            minutes=9,
            make_sources=lambda: [
                DynSource(
                    "s1",
                    [cron("a", "* * * * *"), cron("b", "* * * * *")],
                    post_send_fail={("b", 2): InjectedFault("post_send b#2")},
                    pre_send_fail={("a", 6): InjectedFault("pre_send a#6")},
                ),
                DynSource(
                    "s2",
                    [cron("c", "* * * * *"), cron("odd", "1-59/2 * * * *")],
                    fail_polls={
                        2: InjectedFault("list s2#2"),
                        3: ConnectionError("list s2#3"),
                        4: asyncio.TimeoutError(),
                        7: KeyError("list s2#7"),
                    },
                ),
                DynSource(
                    "s3",
                    [
                        cron("kolkata", "32,34 17 * * *", "Asia/Kolkata"),
                        cron("plus1h", "3 13 * * *", timedelta(hours=1)),
                        cron("slow", "* * * * *"),
                    ],
                    fail_polls={0: InjectedFault("list s3#0")},
                ),
            ],
            cron_due={
                "a": always,
                "b": always,
                "c": always,
                "odd": lambda m: m.minute % 2 == 1,
                "kolkata": lambda m: (m.hour, m.minute) in ((12, 2), (12, 4)),
                "plus1h": lambda m: (m.hour, m.minute) == (12, 3),
                "slow": always,
            },
            kick_fail={
                ("a", 1): ConnectionError("kick a#1"),
                ("a", 2): InjectedFault("kick a#2"),
                ("b", 0): ValueError("kick b#0"),
                ("c", 3): OSError("kick c#3"),
                ("slow", 1): InjectedFault("kick slow#1"),
                ("kolkata", 0): InjectedFault("kick kolkata#0"),
            },
            kick_latency={"b": 0.3, "slow": 90.0, "c": 12.5},
        ),
    )

    # 3. one-shot schedules, dynamic add / remove between polls
    b3 = datetime(2024, 3, 5, 10, 0, 30, 700000, tzinfo=UTC)

    def at(h: int, m: int, s: int, us: int = 0) -> datetime:
        return datetime(2024, 3, 5, h, m, s, us, tzinfo=UTC)

    out.append(
        Scenario(
            name="one-shots, dynamic add/remove, kick faults",
            base=b3,
            minutes=8,
            make_sources=lambda: [
                DynSource(
                    "s1",
                    [
                        oneshot("first-minute", at(10, 0, 45, 200000)),
                        oneshot("later", at(10, 2, 30, 400000)),
                        oneshot("past", at(9, 59, 0)),
                        oneshot("naive", datetime(2024, 3, 5, 10, 3, 15)),
                        oneshot("far", at(11, 30, 0)),
                        oneshot("removed", at(10, 5, 20)),
                        cron("every", "* * * * *"),
                    ],
                ),
                DynSource(
                    "s2",
                    [oneshot("retry", at(10, 1, 10)), oneshot("exact", at(10, 4, 25))],
                    fail_polls={2: InjectedFault("list s2#2")},
                ),
            ],
            cron_due={"every": always, "dyn-cron": always},
            oneshots={
                "first-minute": (at(10, 0, 45, 200000), "window"),
                "later": (at(10, 2, 30, 400000), "window"),
                "past": (at(9, 59, 0), ("poll", 0)),
                "naive": (at(10, 3, 15), "window"),
                "far": (at(11, 30, 0), "never"),
                "removed": (at(10, 5, 20), "never"),
                "retry": (at(10, 1, 10), "window"),
                "exact": (at(10, 4, 25), "window"),
                "added-past": (at(10, 3, 5), ("poll", 4)),
                "added-future": (at(10, 6, 40, 500000), "window"),
                "added-same-minute": (at(10, 5, 50), ("poll", 6)),
            },
            # "retry" fails twice: at 10:01:10 and at the 10:02 poll ... but s2
            # cannot list at poll 2, so the second attempt is at poll 3.
            kick_fail={
                ("retry", 0): ConnectionError("kick retry#0"),
                ("retry", 1): ConnectionError("kick retry#1"),
                ("later", 0): InjectedFault("kick later#0"),
            },
            kick_latency={"first-minute": 2.5, "every": 0.1},
            events=[
                (150.0, "s1", "add", cron("dyn-cron", "* * * * *")),  # 10:03:00.7
                (170.0, "s1", "add", oneshot("added-past", at(10, 3, 5))),  # 10:03:20.7
                (240.0, "s1", "del", "removed"),  # 10:04:30.7
                (270.0, "s1", "del", "dyn-cron"),  # 10:05:00.7
                (275.0, "s2", "add", oneshot("added-future", at(10, 6, 40, 500000))),
                # added at 10:05:40.7, due 10:05:50 - no poll in between, so it
                # is already past at the first poll that lists it (10:06:00)
                (310.0, "s1", "add", oneshot("added-same-minute", at(10, 5, 50))),
            ],
        ),
    )

    # 4. slow listings, first listing straddles a minute boundary; non-UTC host
    b4 = datetime(2024, 3, 5, 10, 0, 59, 800000, tzinfo=UTC)
    out.append(
        Scenario(
            name="slow listings across a boundary, host at UTC+05:30",
            base=b4,
            minutes=6,
            # the start poll is evaluated at 10:01:00.3, the next one is 10:02
            polls=6,
            host_offset=timedelta(hours=5, minutes=30),
            make_sources=lambda: [
                DynSource(
                    "slow",
                    [cron("every", "* * * * *"), oneshot("o1", b4 + timedelta(seconds=200))],
                    list_latency=0.5,
                    fail_polls={2: InjectedFault("list slow#2")},
                ),
                DynSource(
                    "fast",
                    [cron("odd", "1-59/2 * * * *"), cron("h10", "* 10 * * *")],
                ),
                DynSource(
                    "dead",
                    [cron("unseen", "* * * * *")],
                    list_latency=0.2,
                    fail_polls={k: InjectedFault(f"list dead#{k}") for k in range(6)},
                ),
            ],
            cron_due={
                "every": always,
                "odd": lambda m: m.minute % 2 == 1,
                "h10": lambda m: m.hour == 10,
                "unseen": always,
            },
            oneshots={"o1": (b4 + timedelta(seconds=200), "window")},
            kick_fail={("odd", 1): InjectedFault("kick odd#1")},
        ),
    )

    # 5. start exactly on a boundary, everything fails for a while, then recovers
    b5 = datetime(2024, 12, 31, 23, 57, 0, 0, tzinfo=UTC)
    out.append(
        Scenario(
            name="start on a boundary, total outage, recovery, year change",
            base=b5,
            minutes=7,
            host_offset=timedelta(hours=-8),
            make_sources=lambda: [
                DynSource(
                    "s1",
                    [cron("every", "* * * * *"), cron("newyear", "0 0 1 1 *")],
                    fail_polls={k: InjectedFault(f"list s1#{k}") for k in (1, 2)},
                ),
                DynSource(
                    "s2",
                    [cron("q", "*/3 * * * *")],
                    fail_polls={k: OSError(f"list s2#{k}") for k in (1, 2, 5)},
                ),
            ],
            cron_due={
                "every": always,
                "newyear": lambda m: (m.month, m.day, m.hour, m.minute) == (1, 1, 0, 0),
                "q": lambda m: m.minute % 3 == 0,
            },
            kick_fail={
                ("every", 0): InjectedFault("kick every#0"),
                ("every", 1): InjectedFault("kick every#1"),
                ("newyear", 0): InjectedFault("kick newyear#0"),
            },
        ),
    )

    # 6. long and alternating outages of slow sources, schedules that fall due
    #    while their source cannot be listed, repeated kick faults
    b6 = datetime(2024, 6, 30, 23, 58, 7, 123456, tzinfo=UTC)
    during = datetime(2024, 7, 1, 0, 0, 30, tzinfo=UTC)
    before = datetime(2024, 6, 30, 23, 58, 40, tzinfo=UTC)
    o3_due = datetime(2024, 7, 1, 0, 4, 50, 500000, tzinfo=UTC)
    out.append(
        Scenario(
            name="long / alternating outages of slow sources, month change",
            base=b6,
            minutes=10,
            make_sources=lambda: [
                DynSource(
                    "s1",
                    [cron("every1", "* * * * *"), oneshot("during", during), oneshot("before", before)],
                    list_latency=0.25,
                    fail_polls={k: InjectedFault(f"list s1#{k}") for k in (1, 2, 3, 4)},
                ),
                DynSource(
                    "s2",
                    [
                        cron("every2", "* * * * *"),
                        cron("midnight", "0 0 1 7 *"),
                        cron("after", "1 0 1 7 *"),
                    ],
                    list_latency=0.1,
                    fail_polls={k: OSError(f"list s2#{k}") for k in (0, 2, 4, 6, 8, 10)},
                ),
                DynSource("s3", [cron("every3", "* * * * *"), oneshot("o3", o3_due)]),
            ],
            cron_due={
                "every1": always,
                "every2": always,
                "every3": always,
                "midnight": lambda m: (m.month, m.day, m.hour, m.minute) == (7, 1, 0, 0),
                "after": lambda m: (m.month, m.day, m.hour, m.minute) == (7, 1, 0, 1),
            },
            oneshots={
                "during": (during, ("poll", 5)),
                "before": (before, "window"),
                "o3": (o3_due, "window"),
            },
            kick_fail={("every3", k): InjectedFault(f"kick every3#{k}") for k in range(4)},
            kick_latency={"every3": 1.5},
        ),
    )
    return out


def main() -> int:
    run_mod.datetime = VirtualDatetime  # type: ignore[attr-defined]
    failed = 0
    for sc in scenarios():
        out = replay(sc)
        problems = check(sc, out)
        attempts = sum(len(v) for v in out.broker.attempts.values())
        faults = sum(1 for v in out.broker.attempts.values() for _t, ok in v if not ok)
        print(f"== {sc.name}")
        print(
            f"   polls per source: {[len(s.polls) for s in out.sources]}, "
            f"send attempts: {attempts} ({faults} failed in kick)",
        )
        # informational only (differs between versions of the code under test)
        warn = [r for r in out.log_records if r.levelno >= logging.WARNING]
        texts = [r.getMessage() for r in out.log_records if r.levelno >= logging.INFO]
        print(
            f"   info: {len(out.loop_errors)} unretrieved task exception(s) reported "
            f"by asyncio, {len(warn)} taskiq log record(s) >= WARNING, "
            f"{sum('Cannot update schedules' in t for t in texts)} listing warning(s), "
            f"{sum(t.startswith('Cannot send task') for t in texts)} send warning(s), "
            f"{sum('available again' in t for t in texts)} recovery message(s)",
        )
        if problems:
            failed += 1
            print("   C15 VIOLATED:")
            for problem in problems:
                print("     -", problem)
        else:
            print("   C15 holds")
    if failed:
        print(f"RESULT: property violated in {failed} scenario(s)")
        return 1
    print("RESULT: C15 holds in all scenarios")
    return 0


if __name__ == "__main__":
    sys.exit(main())
