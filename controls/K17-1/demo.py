"""Demo for negative control K1 (keep1) - property C17.

C17: the process manager keeps exactly one live worker per slot: never two
live processes for one slot (old one terminated and waited for before the
replacement starts), constant number of slots, every dead worker replaced
within two supervision ticks unless shutting down / failure budget exhausted.

The script drives the real ``ProcessManager.start()`` code

  1. against a deterministic model of multiprocessing (fake Process / Queue /
     Event / sleep / signal / os.kill), exhaustively for workers 1..3 over
     bounded event histories and over long seeded random histories;
  2. against real child processes (short ticks) as a smoke test.

If the code under test knows ``WorkerArgs.reload_kill_timeout`` (change K1),
every history is also replayed with the switch set and with workers that ignore
SIGTERM.  Exit status 0 = property holds in all scenarios.
"""
import dataclasses
import itertools
import logging
import os
import random
import signal as real_signal
import sys
import threading
import time
import types

import taskiq.cli.worker.process_manager as pm
from taskiq.cli.worker.args import WorkerArgs

logging.disable(logging.CRITICAL)

HAS_KILL_TIMEOUT = "reload_kill_timeout" in {
    f.name for f in dataclasses.fields(WorkerArgs)
}


class Violation(Exception):
    """Property C17 is violated."""


class EndOfScript(BaseException):
    """Raised from the fake sleep() when the scripted history is over."""


# --------------------------------------------------------------------------
# Part 1: deterministic model of multiprocessing
# --------------------------------------------------------------------------
class FakeProcess:
    """Deterministic stand-in for multiprocessing.Process.

    states: new -> alive -> (terminating ->) dead.
    A *stubborn* process ignores SIGTERM: terminate() has no effect on it, only
    kill() (SIGKILL) or the scripted death ends it.
    """

    world = None  # set per run

    def __init__(self, target=None, kwargs=None, name="", daemon=False):
        self.name = name
        self.state = "new"
        self.pid = None
        self.exitcode = None
        self.stubborn = False
        self.log = []

    def start(self):
        w = FakeProcess.world
        if self.state != "new":
            raise Violation(f"{self.name}: started twice")
        for other in w.procs:
            if other.name == self.name and other.state != "dead":
                raise Violation(
                    f"two live processes for slot {self.name}: pid {other.pid} is "
                    f"still {other.state} (not terminated and reaped) while its "
                    f"replacement is started",
                )
        w.next_pid += 1
        self.pid = w.next_pid
        self.state = "alive"
        self.stubborn = w.stubborn
        w.procs.append(self)
        w.started_in_tick += 1

    def is_alive(self):
        return self.state in ("alive", "terminating")

    def terminate(self):
        self.log.append("terminate")
        if self.state == "alive" and not self.stubborn:
            self.state = "terminating"

    def kill(self):
        self.log.append("kill")
        if self.state in ("alive", "terminating"):
            self.state = "terminating"
            self.stubborn = False

    def join(self, timeout=None):
        self.log.append(("join", timeout))
        if self.state == "alive":
            if timeout is None:
                raise Violation(
                    f"join() without timeout on running {self.name} "
                    f"(log={self.log}): the manager hangs, nothing is replaced",
                )
            if timeout < 0:
                raise Violation(f"negative join timeout {timeout}")
            return  # timed out
        if self.state == "terminating":
            self.state = "dead"
            self.exitcode = -15

    def die(self):
        self.state = "dead"
        self.exitcode = 1


class FakeQueue:
    def __init__(self, maxsize=0):
        self.items = []

    def put(self, item):
        self.items.append(item)

    def get(self):
        return self.items.pop(0)

    def empty(self):
        return not self.items

    def qsize(self):
        return len(self.items)


class FakeEvent:
    def wait(self, timeout=None):
        return False

    def set(self):
        pass

    def is_set(self):
        return False


class World:
    """One run of ProcessManager.start() against a scripted event history.

    script: list of per-tick dicts: die=(slots...), hup, file, term.
    After the script QUIET event-free ticks are appended so that every
    replacement obligation becomes due.
    """

    QUIET = 2

    def __init__(self, workers, max_fails, script, kill_timeout=None, stubborn=False):
        self.n = workers
        self.max_fails = max_fails
        self.kill_timeout = kill_timeout
        self.stubborn = stubborn
        self.script = list(script) + [{} for _ in range(self.QUIET)]
        self.procs = []
        self.next_pid = 1000
        self.handlers = {}
        self.tick = 0
        self.deaths = 0
        self.term_sent = False
        self.owed = {}
        self.manager = None
        self.started_in_tick = 0

    def fake_signal(self, signum, handler):
        self.handlers[signum] = handler

    def fake_kill(self, pid, signum):
        for proc in self.procs:
            if proc.pid == pid and proc.is_alive():
                proc.state = "dead"
                proc.exitcode = 0
                return
        raise ProcessLookupError(pid)

    def check_slots(self):
        mgr = self.manager
        if len(mgr.workers) != self.n:
            raise Violation(
                f"number of slots changed: {len(mgr.workers)} != {self.n} "
                f"after tick {self.tick}",
            )
        for slot, proc in enumerate(mgr.workers):
            if proc.name != f"worker-{slot}":
                raise Violation(f"slot {slot} holds process {proc.name}")
        live = {}
        for proc in self.procs:
            if proc.state != "dead":
                live.setdefault(proc.name, []).append(proc.pid)
        for name, pids in live.items():
            if len(pids) > 1:
                raise Violation(f"two live processes for {name}: {pids}")
            slot = int(name.split("-")[1])
            if mgr.workers[slot].pid != pids[0]:
                raise Violation(f"live process {pids[0]} of {name} is not tracked")

    def fake_sleep(self, _seconds):
        mgr = self.manager
        # ---- end of tick `self.tick` ----
        self.check_slots()
        for slot, corpse in self.owed.items():
            if mgr.workers[slot] is corpse:
                raise Violation(
                    f"worker-{slot} (pid {corpse.pid}) was dead at the end of tick "
                    f"{self.tick - 1} and is still not replaced at the end of tick "
                    f"{self.tick} (failures={self.deaths}, max_fails={self.max_fails})",
                )
        self.owed = {
            slot: proc for slot, proc in enumerate(mgr.workers) if not proc.is_alive()
        }
        # ---- next tick ----
        if self.tick >= len(self.script):
            raise EndOfScript
        events = self.script[self.tick]
        self.tick += 1
        self.started_in_tick = 0
        for slot in events.get("die", ()):
            proc = mgr.workers[slot]
            if proc.is_alive():
                proc.die()
                self.deaths += 1
        if events.get("hup"):
            self.handlers[real_signal.SIGHUP](real_signal.SIGHUP, None)
        if events.get("file"):
            pm.schedule_workers_reload(mgr.action_queue)
        if events.get("term"):
            self.term_sent = True
            self.handlers[real_signal.SIGTERM](real_signal.SIGTERM, None)

    def run(self):
        FakeProcess.world = self
        fake_signal_mod = types.SimpleNamespace(
            signal=self.fake_signal,
            SIGINT=real_signal.SIGINT,
            SIGTERM=real_signal.SIGTERM,
            SIGHUP=real_signal.SIGHUP,
            SIGKILL=real_signal.SIGKILL,
        )
        fake_os_mod = types.SimpleNamespace(kill=self.fake_kill)
        names = ("Process", "Queue", "Event", "sleep", "signal", "os")
        saved = {k: getattr(pm, k) for k in names}
        pm.Process = FakeProcess
        pm.Queue = FakeQueue
        pm.Event = FakeEvent
        pm.sleep = self.fake_sleep
        pm.signal = fake_signal_mod
        pm.os = fake_os_mod
        try:
            extra = {}
            if HAS_KILL_TIMEOUT:
                extra["reload_kill_timeout"] = self.kill_timeout
            args = WorkerArgs(
                broker="demo:broker",
                modules=[],
                workers=self.n,
                max_fails=self.max_fails,
                **extra,
            )
            self.manager = pm.ProcessManager(args=args, worker_function=lambda args: None)
            try:
                status = self.manager.start()
            except EndOfScript:
                return "running"
            self.check_slots()
            if status is None:
                if not self.term_sent:
                    raise Violation("manager stopped supervising without a shutdown request")
                return "shutdown"
            if self.max_fails < 1 or self.deaths < self.max_fails:
                raise Violation(
                    f"manager gave up with status {status} after only {self.deaths} "
                    f"worker failure(s) with max_fails={self.max_fails}",
                )
            return "budget"
        finally:
            for k, v in saved.items():
                setattr(pm, k, v)


def check(workers, max_fails, script, **kw):
    try:
        World(workers, max_fails, script, **kw).run()
    except Violation as exc:
        return str(exc)
    return None


def per_tick_events(n, kinds):
    slots = range(n)
    death_sets = [c for r in range(n + 1) for c in itertools.combinations(slots, r)]
    return [dict(die=d, **{k: True for k in ks}) for d in death_sets for ks in kinds]


def sweep(worker_counts, depth, max_fails_values, kinds, **kw):
    runs = 0
    for n in worker_counts:
        per_tick = per_tick_events(n, kinds)
        for mf in max_fails_values:
            for script in itertools.product(per_tick, repeat=depth):
                runs += 1
                msg = check(n, mf, script, **kw)
                if msg:
                    return runs, (n, mf, script, msg)
    return runs, None


def random_histories(count, length, seed, **kw):
    rng = random.Random(seed)
    for i in range(count):
        n = rng.randint(1, 3)
        mf = rng.choice((-1, -1, 0, 1, 2, 5, 30))
        script = []
        for _ in range(length):
            ev = {"die": tuple(s for s in range(n) if rng.random() < 0.25)}
            if rng.random() < 0.15:
                ev["hup"] = True
            if rng.random() < 0.15:
                ev["file"] = True
            if rng.random() < 0.01:
                ev["term"] = True
            script.append(ev)
        msg = check(n, mf, script, **kw)
        if msg:
            return i + 1, (n, mf, script, msg)
    return count, None


ALL_KINDS = [
    (), ("hup",), ("file",), ("term",),
    ("hup", "file"), ("hup", "term"), ("file", "term"), ("hup", "file", "term"),
]
MAIN_KINDS = [(), ("hup",), ("file",), ("term",)]


def model_part():
    # (configuration, deep sweep?)
    configs = [(dict(), True)]
    if HAS_KILL_TIMEOUT:
        configs += [
            (dict(kill_timeout=5.0, stubborn=True), True),
            (dict(kill_timeout=5.0), False),
            (dict(kill_timeout=0.0), False),
            (dict(kill_timeout=0.0, stubborn=True), False),
            (dict(kill_timeout=-1.0, stubborn=True), False),
        ]
    targeted = [
        (1, -1, [{"die": (0,)}, {}, {"die": (0,)}]),
        (2, -1, [{"hup": True}, {}, {"die": (1,)}]),
        (2, -1, [{"die": (0,), "hup": True}, {"die": (0, 1), "file": True}]),
        (3, 2, [{"die": (0,)}, {"hup": True}, {"die": (1, 2)}, {}]),
        (3, -1, [{"hup": True, "file": True}] * 4),
        (2, -1, [{"die": (1,)}, {"term": True}]),
    ]
    total = 0
    for kw, deep in configs:
        for n, mf, script in targeted:
            total += 1
            msg = check(n, mf, script, **kw)
            if msg:
                return f"config={kw} workers={n} max_fails={mf} history={script}: {msg}"
        # exhaustive: all event kinds to depth 2, the main kinds to depth 3
        plan = [((1, 2, 3), 2, (-1, 1, 2, 3), ALL_KINDS)]
        if deep:
            plan += [
                ((1,), 3, (-1, 2, 3), ALL_KINDS),
                ((2,), 3, (-1, 2), ALL_KINDS),
                ((3,), 3, (-1, 2), MAIN_KINDS),
            ]
        for wc, depth, mfs, kinds in plan:
            runs, bad = sweep(wc, depth, mfs, kinds, **kw)
            total += runs
            if bad:
                n, mf, script, msg = bad
                return f"config={kw} workers={n} max_fails={mf} history={script}: {msg}"
        runs, bad = random_histories(150, 80, seed=17, **kw)
        total += runs
        if bad:
            n, mf, script, msg = bad
            return f"config={kw} workers={n} max_fails={mf} random history: {msg}"
    print(f"model: {total} histories ok ({len(configs)} configuration(s))")
    return None


# --------------------------------------------------------------------------
# Part 2: real child processes
# --------------------------------------------------------------------------
def real_worker(args):
    """Worker body: idles; a 'stubborn' worker ignores SIGTERM."""
    real_signal.signal(real_signal.SIGHUP, real_signal.SIG_DFL)
    real_signal.signal(real_signal.SIGINT, lambda *_: os._exit(0))
    if args.broker == "stubborn":
        real_signal.signal(real_signal.SIGTERM, real_signal.SIG_IGN)
    else:
        real_signal.signal(real_signal.SIGTERM, real_signal.SIG_DFL)
    while True:
        time.sleep(0.05)


class RecordingProcess(pm.Process):
    """Real Process that checks the slot is free when it is started."""

    registry = {}
    errors = []
    starts = []

    def start(self):
        prev = RecordingProcess.registry.get(self.name)
        if prev is not None and prev.exitcode is None:
            RecordingProcess.errors.append(
                f"{self.name}: pid {prev.pid} not reaped when replacement starts",
            )
        super().start()
        RecordingProcess.registry[self.name] = self
        RecordingProcess.starts.append((self.name, self.pid))


def real_run(broker, extra, events, workers=2, max_fails=-1):
    """Run the manager with real processes; `events(mgr, errors)` drives it."""
    RecordingProcess.registry = {}
    RecordingProcess.errors = []
    RecordingProcess.starts = []
    saved = (pm.Process, pm.sleep)
    old_handlers = {
        s: real_signal.getsignal(s)
        for s in (real_signal.SIGINT, real_signal.SIGTERM, real_signal.SIGHUP)
    }
    pm.Process = RecordingProcess
    pm.sleep = lambda _s: time.sleep(0.15)
    errors = []
    result = {}
    try:
        args = WorkerArgs(
            broker=broker, modules=[], workers=workers, max_fails=max_fails, **extra,
        )
        mgr = pm.ProcessManager(args=args, worker_function=real_worker)

        def driver():
            try:
                events(mgr, errors)
            except Exception as exc:  # noqa: BLE001
                errors.append(f"driver failed: {exc!r}")
            finally:
                os.kill(os.getpid(), real_signal.SIGTERM)

        thread = threading.Thread(target=driver, daemon=True)
        watchdog = threading.Timer(25, lambda: os._exit(3))
        watchdog.daemon = True
        watchdog.start()
        thread.start()
        result["status"] = mgr.start()
        thread.join(5)
        watchdog.cancel()
        if len(mgr.workers) != workers:
            errors.append(f"slots changed: {len(mgr.workers)}")
        for proc in RecordingProcess.registry.values():
            proc.join(3)
            if proc.is_alive():
                proc.kill()
                proc.join()
    finally:
        pm.Process, pm.sleep = saved
        for s, h in old_handlers.items():
            real_signal.signal(s, h)
    return result.get("status"), errors + RecordingProcess.errors


def wait_for(cond, timeout=6.0):
    deadline = time.monotonic() + timeout
    while time.monotonic() < deadline:
        if cond():
            return True
        time.sleep(0.02)
    return False


def pids(mgr):
    return [p.pid for p in list(mgr.workers)]


def ready(mgr, n):
    return wait_for(lambda: len(mgr.workers) == n and all(p.is_alive() for p in mgr.workers))


def scenario_death_and_reload(mgr, errors):
    if not ready(mgr, 2):
        errors.append("workers did not start")
        return
    time.sleep(0.3)
    before = pids(mgr)
    os.kill(before[0], real_signal.SIGKILL)
    # two ticks of 0.15 s (+ start-up waits); generous bound for slow hosts
    if not wait_for(lambda: pids(mgr)[0] != before[0] and mgr.workers[0].is_alive()):
        errors.append("killed worker-0 was not replaced")
    if pids(mgr)[1] != before[1]:
        errors.append("worker-1 was restarted although it never died")
    before = pids(mgr)
    os.kill(os.getpid(), real_signal.SIGHUP)
    if not wait_for(
        lambda: all(a != b for a, b in zip(pids(mgr), before))
        and all(p.is_alive() for p in mgr.workers),
    ):
        errors.append("SIGHUP did not reload every worker")
    for pid in before:
        try:
            os.kill(pid, 0)
            errors.append(f"old pid {pid} still exists after reload")
        except ProcessLookupError:
            pass


def scenario_stubborn_reload(mgr, errors):
    if not ready(mgr, 2):
        errors.append("workers did not start")
        return
    time.sleep(0.3)  # let the children install SIG_IGN
    before = pids(mgr)
    os.kill(os.getpid(), real_signal.SIGHUP)
    if not wait_for(
        lambda: all(a != b for a, b in zip(pids(mgr), before))
        and all(p.is_alive() for p in mgr.workers),
        timeout=10,
    ):
        errors.append("stubborn workers were not replaced on SIGHUP")
    for pid in before:
        try:
            os.kill(pid, 0)
            errors.append(f"old stubborn pid {pid} still exists after reload")
        except ProcessLookupError:
            pass
    # a death of a replacement is still repaired
    victim = pids(mgr)[1]
    os.kill(victim, real_signal.SIGKILL)
    if not wait_for(lambda: pids(mgr)[1] != victim and mgr.workers[1].is_alive()):
        errors.append("killed worker-1 was not replaced")


def real_part():
    runs = [("plain", "plain", {}, scenario_death_and_reload)]
    if HAS_KILL_TIMEOUT:
        runs.append(("plain, kill timeout 2s", "plain", {"reload_kill_timeout": 2.0},
                     scenario_death_and_reload))
        runs.append(("SIGTERM-ignoring workers, kill timeout 0.3s", "stubborn",
                     {"reload_kill_timeout": 0.3}, scenario_stubborn_reload))
    for title, broker, extra, scenario in runs:
        status, errors = real_run(broker, extra, scenario)
        if status is not None:
            errors.append(f"manager returned {status} on SIGTERM")
        if errors:
            return f"real processes ({title}): {errors}"
        print(f"real processes ({title}): ok, {len(RecordingProcess.starts)} starts")
    return None


def main():
    print(f"reload_kill_timeout supported: {HAS_KILL_TIMEOUT}")
    started = time.monotonic()
    for part in (model_part, real_part):
        msg = part()
        if msg:
            print("C17 VIOLATED: " + msg)
            return 1
    print(f"C17 holds in all scenarios ({time.monotonic() - started:.1f}s)")
    return 0


if __name__ == "__main__":
    sys.exit(main())
