"""regenerate MANIFEST.json from pyvc/props.py (run after changing the property table)"""
import json, os, sys
ROOT = os.path.dirname(os.path.dirname(os.path.abspath(__file__))); sys.path.insert(0, ROOT)
from pyvc.props import PROPS, NOT_APPLICABLE
ids = [json.loads(l)['id'] for l in open(os.path.join(ROOT, 'properties.jsonl'))]
checks = []
for pid in ids:
    if pid not in PROPS: continue
    p = PROPS[pid]
    checks.append({"property_id": pid, "quick_cmd": f"./check {pid} --tier quick", "thorough_cmd": f"./check {pid} --tier thorough",
                   "evidence_file": f"evidence/{pid}.json", "replay_cmd_template": f"./check {pid} --replay {{path}}", "engine": "pyvc",
                   "level_claimed": {"category": "proof", "design_ref": p['design_ref'], "text": p['explanation']},
                   "level_note": "Trusted/assumed: " + "; ".join(p.get('assumptions', [])) + ". Not decided by this check: " + ("; ".join(p.get('not_decided', [])) or "nothing further") + ".",
                   "technique": "contract-based deductive verification: VCs generated from the real AST (pyvc), sidecar contracts, discharged by z3 (cvc5 for unknowns)"})
m = {"version": 1,
     "setup_cmd": "python3-vt -c 'import z3; print(z3.get_version_string())' && /venv/bin/python -c 'import taskiq'",
     "hooks": {"guard": "TASKIQ_VERIF", "enable": "no hooks: contracts are sidecar files under /verif/specs, replays drive the public API (guard unused)",
               "baseline_off_cmd": "cd /repo && /venv/bin/python -m pytest -ra -q -p no:cacheprovider --timeout=900 --continue-on-collection-errors", "source_commits": [], "add_only": True},
     "engines": [{"name": "pyvc", "path": "pyvc/", "serves_properties": [c['property_id'] for c in checks],
                  "kind_free_text": "self-made VC generator: symbolic execution of the real Python ASTs against sidecar contracts, obligations discharged by z3/cvc5; native replay drivers under replay/"}],
     "checks": checks,
     "not_applicable": [{"property_id": pid, "reason": NOT_APPLICABLE.get(pid, "check not built yet in this session (planned: DESIGN.md section 4)")} for pid in ids if pid not in PROPS],
     "notes": "See DESIGN.md. Exit codes of ./check: 0 held, 1 VIOLATION, 2 UNDECIDED, 3 machinery broken."}
json.dump(m, open(os.path.join(ROOT, 'MANIFEST.json'), 'w'), indent=1)
print(len(checks), "checks;", len(m['not_applicable']), "not applicable")
