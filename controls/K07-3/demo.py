"""
Demo for the "stored result reflects the outcome" property (C07).

Run as:  PYTHONPATH=<tree> /venv/bin/python demo.py

Every message goes through Receiver.callback (bytes in, result backend out).
A recording result backend and a recording wrapper around asyncio.wait_for let
us check, for each execution:
  * exactly one result stored under the message's task id (none for NoResultError)
  * is_err / return value / error reflect what the function did
  * the timeout that was enforced is float(<that message's own label>)
  * the result carries the message's labels
  * a failing backend neither breaks the callback nor later messages
"""

import asyncio
import logging
import sys
import warnings
from typing import Any, Dict, List, Optional, Tuple

import taskiq
from taskiq import InMemoryBroker, TaskiqMessage, TaskiqMiddleware
from taskiq.abc.result_backend import AsyncResultBackend
from taskiq.exceptions import NoResultError
from taskiq.receiver import Receiver
from taskiq.result import TaskiqResult

logging.disable(logging.CRITICAL)  # the library logs every task error; keep output short
warnings.simplefilter("ignore")  # 'coroutine never awaited' for unparsable labels

CHECKS = 0
SLOW = 0.4  # how long the slow task sleeps


def check(cond: bool, what: str) -> None:
    global CHECKS
    CHECKS += 1
    if not cond:
        print("FAILED:", what)
        sys.exit(1)


class RecordingBackend(AsyncResultBackend[Any]):
    """Records every set_result; can be told to fail."""

    def __init__(self) -> None:
        self.stored: List[Tuple[str, TaskiqResult[Any]]] = []
        self.fail_ids: set = set()

    async def set_result(self, task_id: str, result: TaskiqResult[Any]) -> None:
        if task_id in self.fail_ids:
            raise RuntimeError("backend is down")
        self.stored.append((task_id, result))

    async def is_result_ready(self, task_id: str) -> bool:
        return any(t == task_id for t, _ in self.stored)

    async def get_result(self, task_id: str, with_logs: bool = False) -> Any:
        return [r for t, r in self.stored if t == task_id][-1]


# --- record which timeout is really enforced -------------------------------
WAITED: List[Any] = []
_orig_wait_for = asyncio.wait_for


async def _recording_wait_for(fut: Any, timeout: Any) -> Any:
    WAITED.append(timeout)
    return await _orig_wait_for(fut, timeout)


asyncio.wait_for = _recording_wait_for  # type: ignore


class RewriteTimeout(TaskiqMiddleware):
    """pre_execute middleware that changes the label between calls."""

    def __init__(self) -> None:
        super().__init__()
        self.new_value: Any = "unset"

    def pre_execute(self, message: TaskiqMessage) -> TaskiqMessage:
        if self.new_value != "unset":
            message.labels["timeout"] = self.new_value
        return message


backend = RecordingBackend()
rewriter = RewriteTimeout()
broker = InMemoryBroker().with_result_backend(backend).with_middlewares(rewriter)


@broker.task(task_name="slow")
async def slow(x: int) -> int:
    await asyncio.sleep(SLOW)
    return x * 2


@broker.task(task_name="fast")
async def fast(x: int) -> int:
    return x + 1


@broker.task(task_name="boom")
async def boom(x: int) -> int:
    raise KeyError(x)


@broker.task(task_name="nores")
async def nores(x: int) -> int:
    raise NoResultError


@broker.task(task_name="syncfast")
def syncfast(x: int) -> int:
    return x - 1


def make(task_id: str, name: str, labels: Dict[str, Any], x: int = 1) -> bytes:
    return broker.formatter.dumps(
        TaskiqMessage(task_id=task_id, task_name=name, labels=labels, args=[x], kwargs={}),
    ).message


async def run_one(
    receiver: Receiver,
    task_id: str,
    name: str,
    labels: Dict[str, Any],
    x: int = 1,
) -> Optional[TaskiqResult[Any]]:
    """Run one message; check exactly-one-stored; return the stored result."""
    before = len(backend.stored)
    waited_before = len(WAITED)
    await receiver.callback(make(task_id, name, labels, x))
    new = backend.stored[before:]
    if name == "nores":
        check(new == [], f"{task_id}: no result stored for NoResultError")
        return None
    check(len(new) == 1, f"{task_id}: exactly one result stored, got {len(new)}")
    check(new[0][0] == task_id, f"{task_id}: stored under own id")
    res = new[0][1]
    effective = dict(labels)
    if rewriter.new_value != "unset":
        effective["timeout"] = rewriter.new_value
    check(res.labels == effective, f"{task_id}: result carries the message's labels")
    tmo = effective.get("timeout")
    waits = WAITED[waited_before:]
    if tmo is None:
        check(waits == [], f"{task_id}: no timeout enforced without a label")
    else:
        try:
            expected = float(tmo)
        except Exception:
            expected = None
        if expected is not None:
            check(len(waits) == 1, f"{task_id}: one timeout enforced")
            got = waits[0]
            same = (got == expected) or (got != got and expected != expected)
            check(
                type(got) is float and same,
                f"{task_id}: enforced {got!r}, label says {tmo!r}",
            )
    return res


def is_timeout(res: TaskiqResult[Any]) -> bool:
    return res.is_err and isinstance(res.error, (asyncio.TimeoutError, TimeoutError))


async def main() -> None:
    print("taskiq from", taskiq.__file__)
    receiver = Receiver(broker, max_async_tasks=10, run_startup=False)

    # H1: the same task name AND the same task id again and again, label changes
    # between calls: short, long, short, long - each run obeys its own label.
    for rnd, (label, expect_timeout) in enumerate(
        [("0.05", True), ("5", False), ("0.05", True), (5, False), (0.05, True), ("5", False)],
    ):
        res = await run_one(receiver, "same-id", "slow", {"timeout": label}, x=rnd)
        assert res is not None
        if expect_timeout:
            check(is_timeout(res), f"H1 round {rnd}: label {label!r} -> timeout error")
        else:
            check(
                not res.is_err and res.return_value == rnd * 2,
                f"H1 round {rnd}: label {label!r} -> returned {rnd * 2}",
            )
    print("H1 ok: same id / same name reused with alternating labels")

    # H2: values that compare equal / hash equal but are different labels.
    for label in [1, "1", 1.0, True, "1.0", " 1 ", "1e0", 10**3, "1_0"]:
        res = await run_one(receiver, f"eq-{label!r}", "fast", {"timeout": label}, x=7)
        assert res is not None
        check(not res.is_err and res.return_value == 8, f"H2 {label!r}: returned 8")
    for label in [0, "0", 0.0, -0.0, False, "-0.0", -1, "-1", "0.0"]:
        res = await run_one(receiver, f"zero-{label!r}", "slow", {"timeout": label})
        assert res is not None
        check(is_timeout(res), f"H2 {label!r}: non-positive timeout -> timeout error")
    res = await run_one(receiver, "inf", "fast", {"timeout": "inf"}, x=1)
    assert res is not None
    check(not res.is_err and res.return_value == 2, "H2 'inf': returned")
    print("H2 ok: 1 / '1' / 1.0 / True and 0 / '0' / -0.0 / False families")

    # H3: labels float() rejects - every run gets its OWN fresh exception, the
    # same kind and text float() gives, and a good label afterwards still works.
    seen_errors = []
    for rnd, bad in enumerate(["abc", "abc", "", [1], [1], {"a": 1}, "1,5", 10**400, 10**400]):
        res = await run_one(receiver, f"bad-{rnd}", "fast", {"timeout": bad})
        assert res is not None
        try:
            float(bad)
        except Exception as exc:  # noqa: BLE001
            ref = exc
        check(
            res.is_err and type(res.error) is type(ref) and str(res.error) == str(ref),
            f"H3 {bad!r}: error is {type(ref).__name__}({ref})",
        )
        check(all(res.error is not e for e in seen_errors), f"H3 {bad!r}: fresh exception")
        seen_errors.append(res.error)
        check(res.return_value is None, f"H3 {bad!r}: no return value")
    res = await run_one(receiver, "bad-then-good", "fast", {"timeout": "3"}, x=1)
    assert res is not None
    check(not res.is_err and res.return_value == 2, "H3: good label after bad ones")
    print("H3 ok: unparsable / unhashable / overflowing labels")

    # H4: concurrent messages, same name, different labels, interleaved.
    before = len(backend.stored)
    labels = ["0.05", "5", 0.05, 5, "0.05", "5.0"]
    await asyncio.gather(
        *[
            receiver.callback(make(f"conc-{i}", "slow", {"timeout": lab}, x=i))
            for i, lab in enumerate(labels)
        ],
    )
    new = dict(backend.stored[before:])
    check(len(backend.stored) - before == len(labels), "H4: one result per message")
    for i, lab in enumerate(labels):
        res = new[f"conc-{i}"]
        check(res.labels == {"timeout": lab}, f"H4 conc-{i}: own labels")
        if float(lab) < SLOW:
            check(is_timeout(res), f"H4 conc-{i}: label {lab!r} -> timeout")
        else:
            check(not res.is_err and res.return_value == i * 2, f"H4 conc-{i}: returned")
    print("H4 ok: six concurrent messages with interleaved labels")

    # H5: state changed between calls - a middleware rewrites the label.
    for new_value, expect_timeout in [("0.05", True), ("5", False), (None, False), ("0.05", True)]:
        rewriter.new_value = new_value
        res = await run_one(receiver, "rewritten", "slow", {"timeout": "5"}, x=3)
        assert res is not None
        check(
            is_timeout(res) if expect_timeout else (not res.is_err and res.return_value == 6),
            f"H5 rewritten to {new_value!r}",
        )
    rewriter.new_value = "unset"
    print("H5 ok: label rewritten by pre_execute between calls")

    # H6: many distinct labels (more than any small memo holds), then old ones again.
    many = [f"{10 + i}.5" for i in range(300)] + list(range(20, 320))
    for lab in many + many[:5] + ["0.05"]:
        name = "slow" if lab == "0.05" else "fast"
        res = await run_one(receiver, "churn", name, {"timeout": lab}, x=2)
        assert res is not None
        if lab == "0.05":
            check(is_timeout(res), "H6: short label after churn -> timeout")
        else:
            check(not res.is_err and res.return_value == 3, f"H6 {lab!r}: returned")
    print("H6 ok: 600 distinct labels, then early ones and a short one again")

    # H7: other outcomes next to timeouts: raise, no-result, sync, no label,
    # a second receiver in the same process.
    res = await run_one(receiver, "boom", "boom", {"timeout": "5"}, x=4)
    assert res is not None
    check(res.is_err and isinstance(res.error, KeyError) and res.error.args == (4,), "H7 raise")
    await run_one(receiver, "nores", "nores", {"timeout": "5"})
    res = await run_one(receiver, "sync", "syncfast", {"timeout": "5"}, x=4)
    assert res is not None
    check(not res.is_err and res.return_value == 3, "H7 sync task with timeout label")
    res = await run_one(receiver, "nolabel", "slow", {}, x=4)
    assert res is not None
    check(not res.is_err and res.return_value == 8, "H7 no label: not cut short")
    other = Receiver(broker, max_async_tasks=10, run_startup=False)
    res = await run_one(other, "same-id", "slow", {"timeout": "0.05"})
    assert res is not None
    check(is_timeout(res), "H7 second receiver, short label")
    res = await run_one(other, "same-id", "slow", {"timeout": "5"}, x=5)
    assert res is not None
    check(not res.is_err and res.return_value == 10, "H7 second receiver, long label")
    print("H7 ok: raise / NoResultError / sync / no label / second receiver")

    # H8: failing backend: callback completes, later messages are processed.
    backend.fail_ids.add("down")
    before = len(backend.stored)
    await receiver.callback(make("down", "slow", {"timeout": "0.05"}))
    await receiver.callback(make("down", "fast", {"timeout": "5"}))
    check(len(backend.stored) == before, "H8: nothing stored while backend fails")
    res = await run_one(receiver, "after-down", "slow", {"timeout": "0.05"})
    assert res is not None
    check(is_timeout(res), "H8: later message processed, own label enforced")
    backend.fail_ids.clear()
    res = await run_one(receiver, "down", "fast", {"timeout": "5"}, x=1)
    assert res is not None
    check(not res.is_err and res.return_value == 2, "H8: same id stored once backend is back")
    print("H8 ok: failing result backend")

    print(f"ALL OK - {CHECKS} checks passed")


if __name__ == "__main__":
    asyncio.run(main())
