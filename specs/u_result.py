"""Unit `result`: taskiq/result/v2.py::TaskiqResult.serialize_error, __getstate__, _validate_error — C19 / C20 (wiring of the stored-result paths).

The statement's three round trips all go through these three methods: JSON (text and dict) serialises the error with
prepare_exception(value, json), pickle with prepare_exception(vals['error'], pickle), and every load path validates the stored error with
exception_to_python - the gate of C20. Obligations: the right coder on the right path, the error handed over is the result's own, a falsy
error is stored as None, and nothing but exception_to_python's result is accepted as the loaded error."""
import ast
from z3 import *
from pyvc.core import *

PROPS = ['C19', 'C20']
REPLAY = {'driver': 'ser'}
REL = 'taskiq/result/v2.py'
TRUSTED = [
    "pydantic calls the @field_serializer('error') for every JSON/dict dump, __getstate__ for pickling and the mode='before' @field_validator for every construction/validation of TaskiqResult",
    "prepare_exception / exception_to_python contracts (units u_ser, u_gate)",
    "super().__getstate__() returns a dict whose '__dict__' entry holds the field values",
]


def generate(src):
    SER = src.func(REL, 'TaskiqResult.serialize_error'); GST = src.func(REL, 'TaskiqResult.__getstate__'); VAL = src.func(REL, 'TaskiqResult._validate_error')
    prep = Function('prepare_exception', Val, Val, Val); topy = Function('exception_to_python', Val, Val)
    JSON, PICKLE = STR.get('<module json>'), STR.get('<module pickle>')
    def decos(fd): return [ast.unparse(d) for d in fd.decorator_list]
    class Ex(Exec):
        def ev_Name(self, e, st, k, K):
            if e.id == 'json' and e.id not in st.env: return k(st, JSON)
            if e.id == 'pickle' and e.id not in st.env: return k(st, PICKLE)
            return super().ev_Name(e, st, k, K)
    H = {'prepare_exception': lambda ex_, st_, e, r, a, kw, k, K: k(st_, prep(to_val(a[0]), to_val(a[1]))), 'exception_to_python': lambda ex_, st_, e, r, a, kw, k, K: k(st_, topy(to_val(a[0])))}
    # serialize_error
    v = fresh('error_value'); st = State(); st.env = {'self': PyObj(Int('res_self')), 'value': v}
    s0 = State()
    oblige(s0, "serialize_error/wiring: registered as the serializer of the `error` field  [C19]", BoolVal(any(d.startswith('field_serializer') and "'error'" in d for d in decos(SER))))
    n = [0]
    def s_ret(s, r):
        n[0] += 1
        oblige(s, "serialize_error/post: a present error is stored as prepare_exception(error, json), an absent one as None  [C19]", to_val(r) == If(to_val(v) != Val.none, prep(v, JSON), Val.none))
        reach(s, f"serialize_error/reach@return#{n[0]}")
    Ex(H).run(SER, st, s_ret, lambda s, x: oblige(s, "serialize_error/raises: nothing of its own  [C19]", BoolVal(False)))
    # _validate_error
    oblige(s0, "_validate_error/wiring: registered as a mode='before' validator of the `error` field (runs for every load path)  [C20/C19]",
           BoolVal(any(d.startswith('field_validator') and "'error'" in d and "mode='before'" in d for d in decos(VAL)) and 'classmethod' in decos(VAL)))
    val = fresh('stored_error'); st2 = State(); st2.env = {'cls': fresh('cls'), 'value': val}
    Ex(H).run(VAL, st2, lambda s, r: (oblige(s, "_validate_error/post: the loaded error is exactly exception_to_python(stored value) - nothing bypasses the gate  [C20/C19]", to_val(r) == topy(val)), reach(s, "_validate_error/reach@return")),
              lambda s, x: oblige(s, "_validate_error/raises: nothing of its own  [C20]", BoolVal(False)))
    # __getstate__
    st3 = State(); h = st3.heap; d_a, vals_a = Ints('state_dict vals_dict'); st3.pc += [d_a != vals_a, d_a >= 0, vals_a >= 0, h.next > d_a, h.next > vals_a]
    ERR, DD = STR.get('error'), STR.get('__dict__')
    st3.pc += [h.dhas[d_a][DD], h.dval[d_a][DD] == Val.ref(vals_a)]
    E0, EH0 = h.dval[vals_a][ERR], h.dhas[vals_a][ERR]
    class Ex3(Ex):
        def ev_Call(self, e, st_, k, K):
            if ast.unparse(e) == 'super().__getstate__()': return k(st_, PyDict(d_a))
            return super().ev_Call(e, st_, k, K)
        def ev_Subscript(self, e, st_, k, K):
            def got(s2, vs):
                base, idx = vs
                if isinstance(base, PyDict):
                    r = s2.heap.dval[base.addr][to_val(idx)]
                    if isinstance(idx, str) and idx == '__dict__': return k(s2, PyDict(Val.a(r)))
                    return k(s2, r)
                raise Unsupported("subscript in __getstate__")
            return self.ev_list([e.value, e.slice], st_, got, K)
    st3.env = {'self': PyObj(Int('res_self'))}; key = Const('key', Val)
    def g_ret(s, r):
        hh = s.heap
        oblige(s, "__getstate__/post: returns the state dict with `error` replaced by prepare_exception(error, pickle) when present and not None, every other entry unchanged  [C19]",
               And(to_val(r) == Val.ref(d_a), hh.dval[vals_a][ERR] == If(And(EH0, E0 != Val.none), prep(E0, PICKLE), E0),
                   ForAll([key], Implies(key != ERR, And(hh.dval[vals_a][key] == h.dval[vals_a][key], hh.dhas[vals_a][key] == h.dhas[vals_a][key])))))
        reach(s, "__getstate__/reach@return")
    Ex3(H).run(GST, st3, g_ret, lambda s, x: oblige(s, "__getstate__/raises: nothing of its own  [C19]", BoolVal(False)))
    return {}
