"""
Demo for property C08 (negative control K1).

C08: arguments reach the task function unchanged and bound to the right
parameters.  Un-annotated / ``Any`` parameters receive what was sent (models
and dataclasses in their dict form), annotated parameters receive the value
converted to the annotated type when it is convertible and the value as sent
otherwise, with parsing disabled everything arrives as sent, and a
formatter/serializer round trip yields an equal message.

The script exercises the whole client -> formatter -> receiver -> function
path (``task.kiq`` on an ``InMemoryBroker``) for several task signatures, all
positional/keyword splits, both ``validate_params`` settings, all importable
bundled formatter/serializer combinations, and a number of fault / timing
cases (non convertible values, user validators raising ValueError and
RuntimeError, the same failure repeated many times, concurrent executions,
sync tasks, tasks registered after the receiver was created).

The expected values are computed by an independent oracle (``inspect`` binding
plus a fresh ``pydantic.TypeAdapter``), not by taskiq code.

Exit code 0 = property holds in every scenario, 1 = property broken.
"""
import asyncio
import dataclasses
import inspect
import logging
import sys
from typing import Any, Callable, Dict, List, Optional, Tuple, Union, get_type_hints

import pydantic
from pydantic import BaseModel, field_validator

from taskiq import Context, InMemoryBroker, TaskiqDepends
from taskiq.formatters.json_formatter import JSONFormatter
from taskiq.formatters.proxy_formatter import ProxyFormatter
from taskiq.message import TaskiqMessage
from taskiq.receiver import Receiver
from taskiq.serializers import (
    CBORSerializer,
    JSONSerializer,
    MSGPackSerializer,
    ORJSONSerializer,
    PickleSerializer,
)

logging.disable(logging.CRITICAL)

FAILURES: List[str] = []
CHECKS = 0


# --------------------------------------------------------------------------
# Types used in task signatures.
# --------------------------------------------------------------------------
class Point(BaseModel):
    x: int
    y: int = 0


@dataclasses.dataclass
class Pair:
    left: int
    right: str = "r"


SERVICE_UP = True


class Order(BaseModel):
    sku: str
    qty: int

    @field_validator("sku")
    @classmethod
    def known(cls, value: str) -> str:
        # user code running during conversion; may fail
        if not SERVICE_UP:
            raise RuntimeError("catalog is down")
        if value == "bad":
            raise ValueError("unknown sku")
        return value


def get_dep() -> int:
    return 4242


# --------------------------------------------------------------------------
# Canonical form: type sensitive deep comparison (1 != True != 1.0).
# --------------------------------------------------------------------------
def canon(value: Any) -> Any:
    if isinstance(value, BaseModel):
        return ("model", type(value).__qualname__, canon(value.model_dump()))
    if dataclasses.is_dataclass(value) and not isinstance(value, type):
        return ("dc", type(value).__qualname__, canon(dataclasses.asdict(value)))
    if isinstance(value, dict):
        return ("dict", tuple((canon(k), canon(v)) for k, v in value.items()))
    if isinstance(value, (list, tuple)):
        return (type(value).__name__, tuple(canon(v) for v in value))
    return (type(value).__name__, repr(value))


def dict_form(value: Any) -> Any:
    """What the client is documented to send for a model / dataclass."""
    if isinstance(value, BaseModel):
        return value.model_dump(mode="json")
    if dataclasses.is_dataclass(value) and not isinstance(value, type):
        return dataclasses.asdict(value)
    return value


def oracle_convert(annot: Any, sent: Any) -> Any:
    """Converted value when convertible, the sent value otherwise."""
    if sent is None:
        return None
    try:
        return pydantic.TypeAdapter(annot).validate_python(sent)
    except (ValueError, RuntimeError):
        return sent


# --------------------------------------------------------------------------
# Task functions.  Every function records its locals.
# --------------------------------------------------------------------------
RECORDS: Dict[str, List[Dict[str, Any]]] = {}


def record(name: str, values: Dict[str, Any]) -> None:
    RECORDS.setdefault(name, []).append(values)


async def t_mixed(a, b: int, c: Any = None, d: str = "dflt", *, e: float = 0.5, f=None):  # type: ignore
    record("t_mixed", dict(a=a, b=b, c=c, d=d, e=e, f=f))


async def t_models(p: Point, q: Pair, r: List[int], s: Dict[str, int], o: Optional[int] = None, u=None, any_: Any = None):  # type: ignore
    record("t_models", dict(p=p, q=q, r=r, s=s, o=o, u=u, any_=any_))


async def t_deps(
    a: int,
    ctx: Context = TaskiqDepends(),
    b: str = "bdef",
    dep: int = TaskiqDepends(get_dep),
    *,
    k: bool = False,
    raw=None,  # type: ignore
) -> None:
    record("t_deps", dict(a=a, b=b, dep=dep, k=k, raw=raw, ctx_ok=isinstance(ctx, Context)))


def t_sync(raw, n: int, fl: float = 1.0, flag: bool = False, text: str = "", u: Union[int, str] = 0):  # type: ignore
    record("t_sync", dict(raw=raw, n=n, fl=fl, flag=flag, text=text, u=u))


async def t_order(note, order: Optional[Order] = None, priority: int = 0):  # type: ignore
    record("t_order", dict(note=note, order=order, priority=priority))


async def t_slow(tag, n: int, delay: float = 0.0, payload: Any = None):  # type: ignore
    seen = dict(tag=tag, n=n, delay=delay, payload=payload)
    await asyncio.sleep(float(delay))
    record("t_slow", seen)


FUNCS: Dict[str, Callable[..., Any]] = {
    "t_mixed": t_mixed,
    "t_models": t_models,
    "t_deps": t_deps,
    "t_sync": t_sync,
    "t_order": t_order,
    "t_slow": t_slow,
}
DEP_PARAMS = {"ctx", "dep"}


def expected_call(
    func: Callable[..., Any],
    args: Tuple[Any, ...],
    kwargs: Dict[str, Any],
    validate: bool,
) -> Dict[str, Any]:
    """Independent oracle: what must the function observe."""
    sig = inspect.signature(func)
    hints = get_type_hints(func)
    sent_args = [dict_form(v) for v in args]
    sent_kwargs = {k: dict_form(v) for k, v in kwargs.items()}
    bound = sig.bind_partial(*sent_args, **sent_kwargs)
    out: Dict[str, Any] = {}
    for name, param in sig.parameters.items():
        if name in bound.arguments:
            sent = bound.arguments[name]
            annot = hints.get(name)
            if validate and annot is not None and annot is not Any:
                out[name] = oracle_convert(annot, sent)
            else:
                out[name] = sent
        elif name == "dep":
            out[name] = 4242
        elif name == "ctx":
            continue
        else:
            out[name] = param.default
    if "ctx" in sig.parameters:
        out.pop("ctx", None)
        out["ctx_ok"] = True
    return out


def check(label: str, got: Any, want: Any) -> None:
    global CHECKS
    CHECKS += 1
    if canon(got) != canon(want):
        FAILURES.append(f"{label}: expected {want!r}, got {got!r}")


def splits(
    func: Callable[..., Any],
    values: Dict[str, Any],
) -> List[Tuple[Tuple[Any, ...], Dict[str, Any]]]:
    """All ways to pass `values` as a positional prefix + keywords."""
    sig = inspect.signature(func)
    positional = [
        name
        for name, p in sig.parameters.items()
        if p.kind is inspect.Parameter.POSITIONAL_OR_KEYWORD
    ]
    out = []
    for cut in range(len(positional) + 1):
        prefix = positional[:cut]
        if any(name not in values for name in prefix):
            break
        args = tuple(values[name] for name in prefix)
        kwargs = {k: v for k, v in values.items() if k not in prefix}
        out.append((args, kwargs))
    return out


def make_broker(validate: bool, fmt: str, serializer: Any) -> InMemoryBroker:
    broker = InMemoryBroker(cast_types=validate, await_inplace=True)
    if serializer is not None:
        broker.with_serializer(serializer)
    if fmt == "json":
        broker.with_formatter(JSONFormatter())
    for name, func in FUNCS.items():
        broker.register_task(func, task_name=name)
    return broker


def serializers() -> List[Tuple[str, Any]]:
    out: List[Tuple[str, Any]] = []
    for cls in (
        JSONSerializer,
        PickleSerializer,
        ORJSONSerializer,
        MSGPackSerializer,
        CBORSerializer,
    ):
        try:
            out.append((cls.__name__, cls()))
        except ImportError:
            continue
    return out


async def run_one(
    broker: InMemoryBroker,
    name: str,
    args: Tuple[Any, ...],
    kwargs: Dict[str, Any],
    validate: bool,
    label: str,
) -> None:
    RECORDS.pop(name, None)
    task = broker.find_task(name)
    assert task is not None
    try:
        await task.kiq(*args, **kwargs)
    except BaseException as exc:  # noqa: BLE001
        FAILURES.append(f"{label}: kiq crashed with {type(exc).__name__}: {exc}")
        return
    calls = RECORDS.get(name, [])
    if len(calls) != 1:
        FAILURES.append(f"{label}: function invoked {len(calls)} times, args={args} kwargs={kwargs}")
        return
    check(label, calls[0], expected_call(FUNCS[name], args, kwargs, validate))


# --------------------------------------------------------------------------
# Scenario 1: sweep over signatures x splits x values x validate x codecs.
# --------------------------------------------------------------------------
VALUE_SETS: Dict[str, List[Dict[str, Any]]] = {
    "t_mixed": [
        dict(a="1", b="2", c="3", d=4, e="1.5", f="6"),
        dict(a=1, b=2, c=[1, "x", None], d="text", e=2.5, f={"k": [1, 2]}),
        dict(a={"n": 1}, b="not-int", c={"z": None}, d=None, e="nope", f=None),
        dict(a=True, b=True, c=0, d="", e=3, f=0),
        dict(a=[1], b=10**30, c=1.5, d="é中", e=1e308, f=False),
        dict(a=None, b=2.0, c=None),
        dict(a=0, b="0", e=-0.0),
        dict(a="only", b=-7),
    ],
    "t_models": [
        dict(p=Point(x=1, y=2), q=Pair(left=3), r=["1", 2], s={"a": "1"}, o="5", u=Point(x=9), any_=Pair(left=1, right="z")),
        dict(p={"x": "7"}, q={"left": "8", "right": "w"}, r=[1, 2, 3], s={}, o=None, u=[Point(x=1).model_dump()], any_={"x": 1}),
        dict(p={"bogus": 1}, q="not-a-pair", r="nope", s=[1], o="x", u=1, any_="5"),
        dict(p=Point(x=0), q=Pair(left=0, right=""), r=[], s={"k": 0}),
        dict(p={"x": 1, "y": 2, "extra": 3}, q={"left": 1}, r=[True, 2.0], s={"t": True}, o=0),
    ],
    "t_deps": [
        dict(a="5", b=6, k="true", raw="9"),
        dict(a=5, b="six", k=True, raw=[1]),
        dict(a="x", k="maybe"),
        dict(a=1, b="b", dep="77", k=0, raw=None),
        dict(a="3", dep="not-int", raw={"a": 1}),
    ],
    "t_sync": [
        dict(raw="1", n="2", fl="3.5", flag="yes", text=5, u="7"),
        dict(raw=1, n=2, fl=3.5, flag=True, text="t", u=7),
        dict(raw=None, n=True, fl=1, flag=1, text="", u=1.0),
        dict(raw=[1], n=1.0, fl=True, flag="x", text=["a"], u=[1]),
        dict(raw=0, n=-(2**70), fl=1e308, flag=False, text="a" * 300, u="s"),
        dict(raw=0.5, n="1.5", fl="1e3", flag=0, text=None, u=None),
    ],
    "t_order": [
        dict(note="n", order={"sku": "A", "qty": "2"}, priority="3"),
        dict(note="n", order={"sku": "bad", "qty": 1}, priority=3),
        dict(note=1, order=Order(sku="B", qty=4), priority="x"),
        dict(note=None, order=None, priority=None),
    ],
}


async def scenario_sweep() -> None:
    combos: List[Tuple[str, Any]] = [("json", None)]
    combos += [("proxy", ser) for _, ser in serializers()]
    for validate in (True, False):
        for fmt, ser in combos:
            broker = make_broker(validate, fmt, ser)
            codec = f"{fmt}/{type(ser).__name__ if ser else '-'}"
            for name, value_sets in VALUE_SETS.items():
                for idx, values in enumerate(value_sets):
                    for args, kwargs in splits(FUNCS[name], values):
                        await run_one(
                            broker,
                            name,
                            args,
                            kwargs,
                            validate,
                            f"sweep[{name}#{idx} validate={validate} {codec} npos={len(args)}]",
                        )
            await broker.shutdown()


# --------------------------------------------------------------------------
# Scenario 2: conversion faults, repeated and alternating with good values.
# --------------------------------------------------------------------------
async def scenario_faults() -> None:
    global SERVICE_UP
    broker = make_broker(True, "proxy", None)
    good = {"sku": "A", "qty": "2"}
    for rnd in range(12):
        SERVICE_UP = rnd % 3 != 1
        for args, kwargs in splits(t_order, dict(note=f"r{rnd}", order=dict(good), priority="4")):
            await run_one(broker, "t_order", args, kwargs, True, f"fault[user-validator up={SERVICE_UP} r={rnd} npos={len(args)}]")
        # value that is never convertible, same parameter, every round
        for args, kwargs in splits(t_order, dict(note=rnd, order={"sku": "bad", "qty": rnd}, priority="NaN!")):
            await run_one(broker, "t_order", args, kwargs, True, f"fault[non-convertible r={rnd} npos={len(args)}]")
        # right after a failure, a convertible value must still be converted
        for args, kwargs in splits(t_mixed, dict(a=rnd, b="oops" if rnd % 2 else str(rnd), c=rnd, d=rnd, e="bad" if rnd % 2 else "1.25")):
            await run_one(broker, "t_mixed", args, kwargs, True, f"fault[alternating r={rnd} npos={len(args)}]")
    SERVICE_UP = True
    await broker.shutdown()


# --------------------------------------------------------------------------
# Scenario 3: timing - interleaved concurrent executions of the same task,
# and of a sync task running in the thread pool.
# --------------------------------------------------------------------------
async def scenario_concurrent() -> None:
    for validate in (True, False):
        broker = InMemoryBroker(cast_types=validate, await_inplace=False)
        for name, func in FUNCS.items():
            broker.register_task(func, task_name=name)
        RECORDS.pop("t_slow", None)
        RECORDS.pop("t_sync", None)
        slow = broker.find_task("t_slow")
        sync = broker.find_task("t_sync")
        assert slow is not None and sync is not None
        sent_slow = []
        sent_sync = []
        for i in range(20):
            n: Any = str(i) if i % 2 else i
            if i % 5 == 0:
                n = f"bad{i}"
            delay: Any = "0.02" if i % 3 == 0 else 0.0
            payload = {"i": i, "l": [i, str(i)]}
            if i % 2:
                await slow.kiq(f"tag{i}", n, delay, payload)
                sent_slow.append(((f"tag{i}", n, delay, payload), {}))
                await sync.kiq(i, n, flag="1", text=i)
                sent_sync.append(((i, n), dict(flag="1", text=i)))
            else:
                await slow.kiq(f"tag{i}", n=n, delay=delay, payload=payload)
                sent_slow.append(((f"tag{i}",), dict(n=n, delay=delay, payload=payload)))
                await sync.kiq(raw=i, n=n, fl="2.5")
                sent_sync.append(((), dict(raw=i, n=n, fl="2.5")))
        await broker.wait_all()
        for fname, sent, key in (("t_slow", sent_slow, "tag"), ("t_sync", sent_sync, "raw")):
            got = sorted(RECORDS.get(fname, []), key=lambda r: str(r[key]))
            want = sorted(
                (expected_call(FUNCS[fname], a, k, validate) for a, k in sent),
                key=lambda r: str(r[key]),
            )
            check(f"concurrent[{fname} validate={validate}] count", len(got), len(want))
            for g, w in zip(got, want):
                check(f"concurrent[{fname} validate={validate} {w[key]}]", g, w)
        await broker.shutdown()


# --------------------------------------------------------------------------
# Scenario 4: task that the receiver has not seen at start-up, and a receiver
# driven directly with encoded bytes for both validate_params settings.
# --------------------------------------------------------------------------
async def scenario_late_and_direct() -> None:
    for validate in (True, False):
        broker = InMemoryBroker(cast_types=validate, await_inplace=True)
        receiver = Receiver(broker, executor=broker.executor, validate_params=validate, max_async_tasks=5)

        async def late(a, b: int = 0, *, c: Point = Point(x=0), d: Any = None):  # type: ignore
            record("late", dict(a=a, b=b, c=c, d=d))

        FUNCS["late"] = late
        broker.register_task(late, task_name="late")
        for args, kwargs in splits(late, dict(a="1", b="2", c={"x": "3"}, d="4")):
            await run_one(broker, "late", args, kwargs, validate, f"late[validate={validate} npos={len(args)}]")
            RECORDS.pop("late", None)
            message = TaskiqMessage(
                task_id="id",
                task_name="late",
                labels={},
                args=list(args),
                kwargs=dict(kwargs),
            )
            await receiver.callback(broker.formatter.dumps(message).message, raise_err=True)
            calls = RECORDS.get("late", [])
            check(f"direct[validate={validate} npos={len(args)}] count", len(calls), 1)
            if calls:
                check(
                    f"direct[validate={validate} npos={len(args)}]",
                    calls[0],
                    expected_call(late, args, kwargs, validate),
                )
        del FUNCS["late"]
        await broker.shutdown()


# --------------------------------------------------------------------------
# Scenario 5: encode/decode round trip with every bundled codec.
# --------------------------------------------------------------------------
JSON_VALUES: List[Any] = [
    None,
    True,
    False,
    0,
    1,
    -1,
    2**53 + 1,
    1.5,
    -0.0,
    1e-300,
    "",
    "text",
    "é中\U0001f600",
    "line\nbreak\t\"quoted\" \\ back",
    [],
    {},
    [1, [2, [3, [None, "x", {"k": []}]]]],
    {"a": {"b": {"c": [1, 2.5, "3", None, True]}}, "": 0},
    Point(x=1, y=2).model_dump(),
    dataclasses.asdict(Pair(left=1)),
]


def scenario_roundtrip() -> None:
    broker = InMemoryBroker()
    formatters: List[Tuple[str, Any]] = [("JSONFormatter", JSONFormatter())]
    for ser_name, ser in serializers():
        carrier = InMemoryBroker().with_serializer(ser)
        formatters.append((f"ProxyFormatter+{ser_name}", ProxyFormatter(carrier)))
    messages = []
    for i, value in enumerate(JSON_VALUES):
        messages.append(
            TaskiqMessage(
                task_id=f"id{i}",
                task_name="mod:task",
                labels={"l": value, "n": i},
                labels_types=None if i % 2 else {"n": 2},
                args=[value, i, JSON_VALUES[: i % 5]],
                kwargs={"v": value, "nested": {"v": [value]}},
            ),
        )
    messages.append(TaskiqMessage(task_id="e", task_name="t", labels={}, args=[], kwargs={}))
    for fname, formatter in formatters:
        for message in messages:
            encoded = formatter.dumps(message)
            decoded = formatter.loads(encoded.message)
            check(f"roundtrip[{fname} {message.task_id}] eq", decoded == message, True)
            check(f"roundtrip[{fname} {message.task_id}] typed", decoded.model_dump(), message.model_dump())
            check(f"roundtrip[{fname} {message.task_id}] envelope", (encoded.task_id, encoded.task_name, encoded.labels), (message.task_id, message.task_name, message.labels))
            # decoding twice / encoding the decoded message is stable
            again = formatter.loads(formatter.dumps(decoded).message)
            check(f"roundtrip[{fname} {message.task_id}] twice", again == message, True)
    del broker


async def main() -> int:
    await scenario_sweep()
    await scenario_faults()
    await scenario_concurrent()
    await scenario_late_and_direct()
    scenario_roundtrip()
    if FAILURES:
        print(f"C08 BROKEN: {len(FAILURES)} of {CHECKS} checks failed")
        for failure in FAILURES[:25]:
            print("  -", failure)
        return 1
    print(f"OK: C08 holds in all {CHECKS} checks.")
    return 0


if __name__ == "__main__":
    sys.exit(asyncio.run(main()))
