"""Native driver for units `ser` / `gate` (C19, C20).  Run with /venv/bin/python.  Prints one JSON line.
 part 'graphs' (C19, BOUNDED supplement - never counted as proved): exception graphs up to depth 3 over a fixed class/argument alphabet (builtin,
      module-level, nested, local, dynamically created classes, custom __init__ signatures, BaseException subclasses; args JSON-native, non-JSON,
      unpicklable, un-repr-able; cause/context/suppress combinations, shared nodes, cycles) through the JSON-text, JSON-dict and pickle round trips of
      TaskiqResult: storing and loading must never fail; class/args/links as the statement says.
 part 'gate' (C20): payloads (module, dotted type name, args, nested cause/context) whose name resolves to functions, builtins, non-exception classes,
      instances, modules, planted trap callables, exception classes or nothing: loading yields an exception instance or a security/validation error,
      never calls a trap, never imports a module."""
import sys, json, pickle, itertools, logging, math
logging.disable(logging.CRITICAL)

class EmptyAgg(Exception):          # a legal FALSY exception when raised without sub-errors (`if exc:` is not `if exc is not None:`)
    def __len__(self): return len(self.args)
import dataclasses as _dc
@_dc.dataclass(frozen=True)
class FrozenErr(Exception):          # an exception class that forbids attribute assignment (frozen dataclass): `exc.__cause__ = ...` from Python code raises FrozenInstanceError
    code: int = 0
class ModLevel(Exception): pass
def _with_lock(e):          # an importable exception whose ARGS pickle fine but whose INSTANCE carries an unpicklable attribute set after construction
    import threading; e.session_lock = threading.Lock(); return e
class CustomInit(Exception):
    def __init__(self, a, b=2): super().__init__(a, b); self.a = a
class KwOnlyInit(Exception):
    def __init__(self, *, code): super().__init__(code); self.code = code
class FromResponse(Exception):
    """constructor signature differs from the stored args: rebuilding it from its args raises AttributeError (not TypeError)"""
    def __init__(self, response): super().__init__(response.status)
import dataclasses as _dc
@_dc.dataclass
class DataErr(Exception):
    """a dataclass exception: @dataclass generates __eq__ and thereby removes __hash__ (instances are unhashable)"""
    code: int = 0
    def __post_init__(self): Exception.__init__(self, self.code)
class ValEq(Exception):
    """exceptions that compare (and hash) by value: two different exception objects can be equal"""
    def __eq__(self, other): return type(other) is ValEq and other.args == self.args
    def __hash__(self): return hash(self.args)
class Outer:
    class Nested(ValueError): pass
class MyBase(BaseException): pass
class BadRepr:
    def __repr__(self): raise RuntimeError("no repr")
    def __str__(self): raise RuntimeError("no str")
class Unpicklable:
    def __reduce__(self): raise TypeError("no pickle")
    def __repr__(self): return "<Unpicklable>"
def _refuse_to_load(): raise ValueError("this object pickles but cannot be loaded back")
class Unloadable:
    """dumps accepts it, loads rejects it (e.g. an object whose class needs constructor arguments pickle does not know)"""
    def __reduce__(self): return (_refuse_to_load, ())
    def __repr__(self): return "<Unloadable>"

def alphabet():
    def local_cls():
        class Local(KeyError): pass
        return Local
    Dyn = type('Dyn', (RuntimeError,), {'__module__': 'nowhere.at.all'})
    classes = {'ValueError': lambda *a: ValueError(*a), 'ModLevel': lambda *a: ModLevel(*a), 'Nested': lambda *a: Outer.Nested(*a), 'Local': lambda *a: local_cls()(*a), 'Dyn': lambda *a: Dyn(*a),
               'CustomInit': lambda *a: CustomInit(*(a[:2] or (1,))), 'KwOnly': lambda *a: KwOnlyInit(code=a[0] if a else 0), 'MyBase': lambda *a: MyBase(*a), 'KeyError': lambda *a: KeyError(*a),
               'FromResponse': lambda *a: FromResponse(type('Resp', (), {'status': a[0] if a else 0})()),
               'DataErr': lambda *a: DataErr(a[0] if a and isinstance(a[0], int) and not isinstance(a[0], bool) else 7), 'ValEq': lambda *a: ValEq(*a), 'EmptyAgg': lambda *a: EmptyAgg(*a), 'WithLock': lambda *a: _with_lock(ModLevel(*a)), 'FrozenErr': lambda *a: FrozenErr(a[0] if a and isinstance(a[0], int) and not isinstance(a[0], bool) else 3)}
    args = {'none': (), 'str': ('boom',), 'mixed': (1, 'x', None, 2.5, True), 'nested': ([1, {'k': [2]}],), 'bytes': (b'\xff\x00',), 'set': ({1, 2},), 'callable': (len,), 'badrepr': (BadRepr(),),
            'unpicklable': (Unpicklable(),), 'unloadable': (Unloadable(),), 'surrogate': ('\ud800',), 'inf': (float('inf'),), 'nan': (float('nan'),), 'intkey': ({1: 2},), 'tuple': ((1, 2),), 'big': (2 ** 80,)}
    return classes, args

def eq_args(a, b):
    try:
        if isinstance(a, float) and isinstance(b, float) and math.isnan(a) and math.isnan(b): return True
        if isinstance(a, (list, tuple)) and isinstance(b, (list, tuple)): return len(a) == len(b) and all(eq_args(x, y) for x, y in zip(a, b))
        return a == b
    except Exception: return False

def trips():
    from taskiq.result import TaskiqResult
    def js_text(e):
        r = TaskiqResult(is_err=True, return_value=None, execution_time=0.1, error=e); return TaskiqResult.model_validate_json(r.model_dump_json()).error
    def js_dict(e):
        r = TaskiqResult(is_err=True, return_value=None, execution_time=0.1, error=e); return TaskiqResult.model_validate(json.loads(json.dumps(r.model_dump(mode='json')))).error if False else TaskiqResult.model_validate(r.model_dump()).error
    def pk(e):
        r = TaskiqResult(is_err=True, return_value=None, execution_time=0.1, error=e); return pickle.loads(pickle.dumps(r)).error
    return {'json-text': js_text, 'json-dict': js_dict, 'pickle': pk}

def importable(e):
    m = sys.modules.get(type(e).__module__); c = m
    try:
        for part in type(e).__qualname__.split('.'): c = getattr(c, part)
    except Exception: return False
    return c is type(e)

def _s(f, x):
    try: return f(x)
    except Exception: return '<unprintable>'

def check_node(orig, back, trip, path, pr, json_reprable):
    if not isinstance(back, BaseException): pr.append(f"C19: {trip}: {path}: loaded error is {type(back).__name__}, not an exception"); return
    tn = type(orig).__name__
    if importable(orig):
        try:
            rebuilt_ok = True; type(orig)(*orig.args)
        except Exception: rebuilt_ok = False
        if rebuilt_ok and json_reprable and trip != 'pickle':
            if type(back) is not type(orig): pr.append(f"C19: {trip}: {path}: importable class {tn} with representable args came back as {type(back).__name__}({_s(repr, back.args)})")
            elif not eq_args(list(orig.args), list(back.args)): pr.append(f"C19: {trip}: {path}: {tn} args {_s(repr, orig.args)} came back as {_s(repr, back.args)}")
        if rebuilt_ok and trip == 'pickle':          # pickle: a fresh instance of the SAME class built from the same (picklable) args round-trips => the original class must come back
            try: fresh_ok = eq_args(list(pickle.loads(pickle.dumps(type(orig)(*orig.args))).args), list(orig.args))
            except Exception: fresh_ok = False
            if fresh_ok and type(back) is not type(orig): pr.append(f"C19: pickle: {path}: importable class {tn} whose fresh instance {tn}{_s(repr, orig.args)} pickles fine came back as {type(back).__name__}({_s(repr, back.args)})")
    else:
        # stand-ins allowed by the statement: a same-named synthetic class, the nearest reconstructible base class, or a generic/wrapper exception whose text names the class
        base_ok = any(type(back) is b for b in type(orig).__mro__[1:] if b not in (Exception, BaseException, object))
        if not base_ok and tn not in type(back).__name__ and tn not in _s(str, back) and tn not in _s(repr, back.args):
            pr.append(f"C19: {trip}: {path}: stand-in {type(back).__name__}({_s(repr, back.args)}) neither names the original class {tn} nor is one of its base classes")
    # arguments: equal, or (when the encoding cannot represent them) replaced by their text form - never silently changed
    if trip != 'pickle' and type(back).__name__ == type(orig).__name__ and len(back.args) == len(orig.args):
        for x, y in zip(orig.args, back.args):
            if eq_args(x, y) or (isinstance(y, str) and not isinstance(x, str)): continue
            if isinstance(x, (list, tuple)) and isinstance(y, (list, tuple)) and eq_args(list(x), list(y)): continue
            if type(back) is not type(orig) and isinstance(y, str) and tn in y: continue          # a stand-in (same-named or generic) whose text names the original class together with the stored arguments: allowed by the statement
            pr.append(f"C19: {trip}: {path}: argument {_s(repr, x)} of {tn} came back as {_s(repr, y)} (neither equal nor its text form)")

def graphs(seed):
    classes, args = alphabet(); T = trips(); fails = []; n = 0
    JSON_OK = {'none', 'str', 'mixed', 'nested', 'big'}      # args the JSON encoding represents faithfully (tuples come back as lists: compared as sequences)
    def build(spec):
        """spec: list of (class, args, cause_idx|None, context_idx|None, suppress) - indices into the node list (cycles allowed)"""
        nodes = [classes[c](*args[a]) for c, a, *_ in spec]
        for i, (_, _, ci, xi, sup) in enumerate(spec):
            put = BaseException.__setattr__          # what `raise ... from ...` does at C level (a frozen-dataclass exception forbids plain assignment)
            if ci is not None: put(nodes[i], '__cause__', nodes[ci])
            if xi is not None: put(nodes[i], '__context__', nodes[xi])
            put(nodes[i], '__suppress_context__', False if sup == 'keep' else (bool(sup) or ci is not None))          # 'keep': cause AND an un-suppressed context
        return nodes
    specs = []
    for c in classes:
        for a in args: specs.append([(c, a, None, None, False)])
    for c1, c2 in (('ValueError', 'ModLevel'), ('Local', 'ValueError'), ('MyBase', 'KeyError'), ('CustomInit', 'Dyn'), ('ValEq', 'ValEq'), ('DataErr', 'ValueError')):          # the last two: an exception raised from an EQUAL (but different) exception; an unhashable (dataclass) exception
        for a in ('str', 'badrepr', 'set'):
            specs.append([(c1, a, 1, None, False), (c2, 'str', None, None, False)])          # cause
            specs.append([(c1, a, None, 1, False), (c2, 'str', None, None, False)])          # context
            specs.append([(c1, a, None, 1, True), (c2, 'str', None, None, False)])           # suppressed context
            specs.append([(c1, a, 1, 2, False), (c2, 'str', 2, None, False), ('KeyError', 'mixed', None, None, False)])   # chain, shared node
            specs.append([(c1, a, 1, None, False), (c2, 'str', 0, None, False)])             # cycle through causes
            specs.append([(c1, a, 0, 0, False)])                                             # self cycle
            specs.append([(c1, a, None, 1, False), (c2, 'str', None, 2, False), ('ValueError', 'none', None, 0, False)])  # context cycle of length 3
            specs.append([(c1, a, 1, 2, 'keep'), (c2, 'str', 2, None, False), ('KeyError', 'str', 1, None, False)])        # a 2-cycle reachable over two different paths (cause and un-suppressed context)
            specs.append([(c1, a, 1, 2, 'keep'), (c2, 'str', None, 2, False), ('KeyError', 'str', None, 1, False)])        # the same through context links
            specs.append([(c1, a, 1, 2, False), (c2, 'set', None, 2, False), ('KeyError', 'badrepr', None, None, False)])  # diamond: shared node under cause and context
    for a in ('str',):          # an exception that forbids attribute assignment as root (with a cause, with a context) and as a link
        specs.append([('FrozenErr', 'none', 1, None, False), ('ValueError', a, None, None, False)])
        specs.append([('FrozenErr', 'none', None, 1, False), ('ValueError', a, None, None, False)])
        specs.append([('ValueError', a, 1, None, False), ('FrozenErr', 'none', None, None, False)])
    for a in ('str', 'set'):          # falsy exceptions as root, cause and context
        specs.append([('ValueError', a, 1, None, False), ('EmptyAgg', 'none', None, None, False)])
        specs.append([('ValueError', a, None, 1, False), ('EmptyAgg', 'none', None, None, False)])
        specs.append([('EmptyAgg', 'none', 1, None, False), ('ValueError', a, None, None, False)])
        specs.append([('ValueError', a, 1, 2, 'keep'), ('EmptyAgg', 'none', None, None, False), ('EmptyAgg', 'none', None, None, False)])
    for spec in specs:
        for trip, f in T.items():
            n += 1; pr = []
            try: nodes = build(spec)
            except Exception as ex: continue
            try: back = f(nodes[0])
            except BaseException as ex:
                pr.append(f"C19: {trip}: storing/loading {spec[0][0]}(args={spec[0][1]}) {'with links ' + str([(s[2], s[3], s[4]) for s in spec]) if len(spec) > 1 or spec[0][2] is not None else ''} failed with {type(ex).__name__}: {str(ex)[:120]}")
                back = None; pr.append(None)
            if back is None and pr == []: pr.append(f"C19: {trip}: the error {spec[0][0]}(args={spec[0][1]}) of an is_err result came back as None")
            pr = [x for x in pr if x is not None]
            if back is not None:
                check_node(nodes[0], back, trip, 'root', pr, spec[0][1] in JSON_OK)
                if trip != 'pickle' and isinstance(back, BaseException) and type(back).__name__ != '_UnpickleableExceptionWrapper':
                    o = nodes[0]; is_repr_path = True
                    # JSON: cause link, context link unless suppressed, suppress flag - only when the root went through ExceptionRepr (it always does for JSON)
                    if o.__cause__ is not None and o.__cause__ is not o and back.__cause__ is None and len(spec) > 1 and spec[0][2] not in (0,): pr.append(f"C19: {trip}: cause link lost")
                    if o.__cause__ is None and back.__cause__ is not None: pr.append(f"C19: {trip}: cause link invented")
                    if o.__context__ is not None and not o.__suppress_context__ and back.__context__ is None and spec[0][3] not in (0, None) and not any(s[3] == 0 for s in spec[1:]): pr.append(f"C19: {trip}: context link lost")
                    if o.__suppress_context__ and o.__cause__ is None and back.__context__ is not None: pr.append(f"C19: {trip}: suppressed context came back")
                    if bool(back.__suppress_context__) != bool(o.__suppress_context__): pr.append(f"C19: {trip}: __suppress_context__ {o.__suppress_context__} came back as {back.__suppress_context__}")
            if back is not None and trip != 'pickle' and isinstance(back, BaseException):
                # link topology: the JSON form must keep every cause link and every un-suppressed context link, cutting only links back to an exception ON THE CURRENT PATH
                def want(e, path):
                    if e is None or any(e is p_ for p_ in path): return None
                    return (want(e.__cause__, path + [e]), want(e.__context__, path + [e]) if not e.__suppress_context__ else None)
                def got(e, depth=0):
                    if e is None or depth > 12: return None
                    return (got(e.__cause__, depth + 1), got(e.__context__, depth + 1))
                w_, g_ = want(nodes[0], []), got(back)
                if w_ != g_: pr.append(f"C19: {trip}: cause/context links of the loaded error {g_} differ from the original graph cut at the current path {w_}")
            if pr: fails.append({'key': f"{trip}:{spec[0][0]}({spec[0][1]})" + ('' if len(spec) == 1 and spec[0][2] is None else ':links'), 'config': {'trip': trip, 'graph': spec}, 'failed_clauses': pr[:4]})
    return fails, n

TRAPPED = []
def trap(*a, **k): TRAPPED.append(('trap', a)); return ValueError("trap ran")
class TrapClass:
    def __init__(self, *a): TRAPPED.append(('TrapClass', a))
class TrapInstance:
    def __call__(self, *a): TRAPPED.append(('TrapInstance', a)); return ValueError("x")
trap_instance = TrapInstance()
class Holder:
    fn = staticmethod(trap); Exc = ModLevel; inst = trap_instance
class TrapMixin:          # a non-exception base class of an exception class: it must never be instantiated from a stored payload either
    def __init__(self, *a): TRAPPED.append(('TrapMixin', a))
class MixedError(TrapMixin, Exception):
    def __init__(self, first, second, third): Exception.__init__(self, first, second, third)          # rejects the stored argument tuples used below
class PickyError(Exception):
    def __init__(self, *, only_keywords): Exception.__init__(self, only_keywords)                     # rejects every positional argument tuple

def gate():
    from taskiq.serialization import ExceptionRepr, exception_to_python
    from taskiq.result import TaskiqResult
    import pydantic
    me = __name__ if __name__ in sys.modules else '__main__'
    sys.modules.setdefault('ser_replay_driver', sys.modules[me]); me = 'ser_replay_driver'
    names = [('os', 'system'), ('builtins', 'eval'), ('builtins', 'dict'), ('builtins', 'print'), ('subprocess', 'Popen'), (me, 'trap'), (me, 'TrapClass'), (me, 'trap_instance'), (me, 'Holder.fn'), (me, 'Holder.inst'),
             (me, 'Holder'), ('sys', 'modules'), ('os', 'path'), (me, 'Holder.Exc'), (me, 'ModLevel'), (me, 'MixedError'), (me, 'PickyError'), ('builtins', 'ValueError'), ('builtins', 'KeyboardInterrupt'), (me, 'NoSuchThing'), ('no.such.module', 'Boom'),
             ('json.tool', 'main'), ('antigravity', 'geohash'), ('this', 's'), (None, 'Whatever'), (me, 'NoSuchOuter.InnerError'), (None, 'Billing.NotFound'), ('builtins', 'ValueError.mro'), ('builtins', 'type'),
             ('json', 'tool.main'), ('wsgiref', 'simple_server.demo_app')]          # a LOADED package + a dotted type name that starts with a sub-module that is not loaded
    import json as _json_pkg, wsgiref as _wsgiref_pkg
    fails = []; n = 0
    # names that a LOADED module exports lazily (PEP 562 module __getattr__): getattr(module, name) runs that hook, which typically imports a sub-module
    for mname_, m_ in sorted(sys.modules.items()):
        if m_ is not None and mname_.split('.')[0] == 'taskiq' and '__getattr__' in vars(m_):
            names += [(mname_, a_) for a_ in list(getattr(m_, '__all__', [])) if a_ not in vars(m_)]
    for warm in (0, 1):          # warm-up: whatever the first load imports lazily inside pydantic/taskiq is loaded before anything is measured
        try: (TaskiqResult.model_validate if warm else __import__('taskiq.compat', fromlist=['model_validate']).model_validate.__call__)(*( [{'is_err': True, 'return_value': None, 'execution_time': 0.0, 'error': {'exc_type': 'ValueError', 'exc_message': ['w'], 'exc_module': 'builtins', 'exc_cause': None, 'exc_context': None, 'exc_suppress_context': False}}] if warm else [TaskiqResult, {'is_err': True, 'return_value': None, 'execution_time': 0.0, 'error': {'exc_type': 'NoSuch', 'exc_message': ['w'], 'exc_module': 'no.such.module', 'exc_cause': None, 'exc_context': None, 'exc_suppress_context': False}}]))
        except BaseException: pass
    for mod, typ in names:
        for nesting in ('root', 'cause', 'context'):
            for args in ((), ('echo pwned',), (1, 2)):
                for m_ in ('json.tool', 'wsgiref.simple_server'):
                    if sys.modules.pop(m_, None) is not None and hasattr(sys.modules.get(m_.split('.')[0]), m_.split('.')[1]): delattr(sys.modules[m_.split('.')[0]], m_.split('.')[1])
                n += 1; TRAPPED.clear(); before = set(sys.modules)
                leaf = {'exc_type': typ, 'exc_message': list(args), 'exc_module': mod, 'exc_cause': None, 'exc_context': None, 'exc_suppress_context': False}
                payload = leaf if nesting == 'root' else {'exc_type': 'ValueError', 'exc_message': ['outer'], 'exc_module': 'builtins', 'exc_cause': leaf if nesting == 'cause' else None,
                                                         'exc_context': leaf if nesting == 'context' else None, 'exc_suppress_context': False}
                pr = []; res = None; err = None
                data = {'is_err': True, 'return_value': None, 'execution_time': 0.0, 'error': payload}
                try:
                    if len(args) == 2:          # the way result backends load a stored result: taskiq.compat.model_validate(TaskiqResult, data)
                        from taskiq.compat import model_validate as _mv
                        res = _mv(TaskiqResult, data).error
                    else: res = TaskiqResult.model_validate(data).error
                except BaseException as ex: err = ex
                if TRAPPED: pr.append(f"C20: loading ({mod}, {typ}, args={args}) at {nesting} level CALLED a non-exception: {TRAPPED[:2]}")
                new = {m for m in set(sys.modules) - before if not m.startswith('pydantic')}
                if new: pr.append(f"C20: loading ({mod}, {typ}) imported modules {sorted(new)[:4]}")
                if err is not None:
                    from taskiq.exceptions import SecurityError
                    if not isinstance(err, (SecurityError, pydantic.ValidationError, ValueError)): pr.append(f"C20: loading ({mod}, {typ}) failed with {type(err).__name__}: {str(err)[:100]}")
                else:
                    if not isinstance(res, BaseException): pr.append(f"C20: loading ({mod}, {typ}) produced {type(res).__name__}, not an exception")
                    else:
                        leaf_res = res if nesting == 'root' else (res.__cause__ if nesting == 'cause' else res.__context__)
                        resolves_to_exc = (mod, typ) in ((me, 'Holder.Exc'), (me, 'ModLevel'), (me, 'MixedError'), (me, 'PickyError'), ('builtins', 'ValueError'), ('builtins', 'KeyboardInterrupt'))
                        unresolvable = mod is None or (mod, typ) in ((me, 'NoSuchThing'), (me, 'NoSuchOuter.InnerError'), ('no.such.module', 'Boom'), ('json.tool', 'main'), ('antigravity', 'geohash'), ('this', 's'), ('json', 'tool.main'), ('wsgiref', 'simple_server.demo_app'))
                        if unresolvable and isinstance(leaf_res, BaseException) and type(leaf_res).__name__ != typ: pr.append(f"C20: unresolvable type ({mod}, {typ}) did not yield a synthetic class of that name but {type(leaf_res).__name__}")
                if pr: fails.append({'key': f"{mod}:{typ}@{nesting}", 'config': {'module': mod, 'type': typ, 'args': list(args), 'level': nesting}, 'failed_clauses': pr[:3]})
    # histories: a class that passed the exception-class check earlier must not vouch for another object later (e.g. a cache keyed on id(): ids are
    # reused once the object is gone). Load an unresolvable type (its synthetic class dies with the result), then plant a NEW non-exception class under a
    # name the next payload asks for, many times.
    import gc
    mod_obj = sys.modules[me]; hist_bad = None
    for attempt in range(60):
        n += 1
        try: TaskiqResult.model_validate({'is_err': True, 'return_value': None, 'execution_time': 0.0, 'error': {'exc_type': f'Gone{attempt}', 'exc_message': ['x'], 'exc_module': 'no.such.module.at.all', 'exc_cause': None, 'exc_context': None, 'exc_suppress_context': False}})
        except BaseException: pass
        gc.collect()
        planted = [type(f'Planted{attempt}_{j}', (), {'__init__': (lambda self, *a: TRAPPED.append(('planted class instantiated', a)))}) for j in range(8)]
        TRAPPED.clear()
        for j, cls_ in enumerate(planted):
            setattr(mod_obj, cls_.__name__, cls_)
            try: TaskiqResult.model_validate({'is_err': True, 'return_value': None, 'execution_time': 0.0, 'error': {'exc_type': cls_.__name__, 'exc_message': ['echo pwned'], 'exc_module': me, 'exc_cause': None, 'exc_context': None, 'exc_suppress_context': False}})
            except BaseException: pass
            delattr(mod_obj, cls_.__name__)
        if TRAPPED: hist_bad = (attempt, TRAPPED[:1]); break
    if hist_bad: fails.append({'key': 'history:id-reuse', 'config': {'history': 'load an unresolvable type, drop it, then load a payload naming a freshly created non-exception class', 'attempt': hist_bad[0]}, 'failed_clauses': [f"C20: after an unresolvable type had been loaded and dropped, a payload naming a NEW non-exception class got that class instantiated with the stored arguments (attempt {hist_bad[0]}): {hist_bad[1]}"]})
    return fails, n

def histories():
    from taskiq.result import TaskiqResult
    fails = []; n = 0
    # history: an error class is loaded once while its module is not imported yet (a stand-in is right), THEN the module is imported: from now on the class is
    # importable and a loaded error must be of the original class - and, the other way round, a name that resolved to an exception class earlier says nothing
    # about what it resolves to now (the module attribute was replaced by something that is no exception class).
    import types as _types
    def load(modn, typn, args):
        return TaskiqResult.model_validate({'is_err': True, 'return_value': None, 'execution_time': 0.0, 'error': {'exc_type': typn, 'exc_message': list(args), 'exc_module': modn, 'exc_cause': None, 'exc_context': None, 'exc_suppress_context': False}}).error
    n += 1; sys.modules.pop('ser_replay_late_module', None)
    try:
        first = load('ser_replay_late_module', 'QuotaError', ['acct', 3])
        late = _types.ModuleType('ser_replay_late_module'); late.QuotaError = type('QuotaError', (Exception,), {'__module__': 'ser_replay_late_module'}); sys.modules['ser_replay_late_module'] = late
        second = load('ser_replay_late_module', 'QuotaError', ['acct', 3])
        if type(second) is not late.QuotaError: fails.append({'key': 'history:late-import', 'config': {'history': ['load error of a class whose module is not imported (stand-in)', 'import the module', 'load the same class again']},
                                                            'failed_clauses': [f"C19: the class ser_replay_late_module.QuotaError is importable now, but an error of that class loads as {type(second).__module__}.{type(second).__qualname__} (first load, before the import: {type(first).__module__}.{type(first).__qualname__})"]})
        TRAPPED.clear(); late.QuotaError = type('QuotaError', (), {'__init__': (lambda self, *a: TRAPPED.append(('replaced class instantiated', a)))})
        try: load('ser_replay_late_module', 'QuotaError', ['echo pwned'])
        except BaseException: pass
        if TRAPPED: fails.append({'key': 'history:replaced-attribute', 'config': {'history': ['load an error class', 'replace the module attribute by a non-exception class', 'load again']}, 'failed_clauses': [f"C20: a name that resolved to an exception class earlier now names a non-exception class, and loading instantiated it: {TRAPPED[:1]}"]})
    finally: sys.modules.pop('ser_replay_late_module', None)
    return fails, n

def run(sc):
    parts = sc.get('parts') or ['graphs', 'gate']; fails = []; n = 0
    if 'graphs' in parts:
        f, k = graphs(sc.get('seed', 0)); fails += f; n += k
    if 'gate' in parts:
        f, k = gate(); fails += f; n += k
    if 'histories' in parts or 'gate' in parts or 'graphs' in parts:
        f, k = histories(); fails += f; n += k
    # group identical clause shapes so that a known finding can be keyed by its specific input
    return {'reproduced': bool(fails), 'runs': n, 'n_failures': len(fails), 'failures': fails[:400], 'bound': 'graphs: depth <= 3 over 12 classes x 16 argument kinds x link shapes; gate: 29 names x 3 nesting levels x 3 arg tuples + id-reuse histories'}

if __name__ == '__main__':
    sc = json.load(open(sys.argv[1])) if len(sys.argv) > 1 else {}
    print(json.dumps(run(sc.get('scenario', sc)), default=str))
