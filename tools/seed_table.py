#!/usr/bin/env python3
"""print the markdown table of seeded changes (DESIGN.md 10.7) from seeded/*/meta.json"""
import json, glob, os, re
ROOT = os.path.dirname(os.path.dirname(os.path.abspath(__file__)))
print("| seed | property | files | needs (short) | checks reporting a VIOLATION | replayed natively | first failing obligation |")
print("|---|---|---|---|---|---|---|")
for f in sorted(glob.glob(os.path.join(ROOT, 'seeded', '*', 'meta.json'))):
    m = json.load(open(f))
    needs = re.sub(r"\s+", " ", m.get('what_it_needs_to_manifest', ''))[:140].replace('|', '/')
    first = ''
    for l in m.get('violation_lines', []):
        mm = re.search(r"replay=replays/(\S+)\.json", l)
        if mm and m['property'] in mm.group(1)[:4]: first = mm.group(1)[4:70]; break
    print(f"| {m['seed']} | {m['property']} | {', '.join(os.path.basename(x) for x in m['files_changed'])} | {needs} | {', '.join(m['checks_reporting_a_violation']) or '**none**'} | {'yes' if m['replayed_natively'] else 'no'} | {first} |")
