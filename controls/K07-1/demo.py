"""
Demo for property C07 (the stored result faithfully reflects the outcome).

Run as:
    cd /tmp/wt/C07 && PYTHONPATH=/tmp/wt/C07 /venv/bin/python <path>/demo.py

It exits 0 iff every scenario satisfies the property.  It does not depend on
anything that differs between the original code and the keep-change (log
messages, which post_save hooks are reached after a failing one, ...).
"""
import asyncio
import itertools
import logging
import sys
import time
from concurrent.futures import ThreadPoolExecutor
from typing import Any, Callable, Dict, List, Optional, Set, Tuple

from taskiq_dependencies import Depends

from taskiq.abc.broker import AckableMessage
from taskiq.abc.middleware import TaskiqMiddleware
from taskiq.abc.result_backend import AsyncResultBackend
from taskiq.acks import AcknowledgeType
from taskiq.brokers.inmemory_broker import InMemoryBroker
from taskiq.exceptions import NoResultError
from taskiq.message import TaskiqMessage
from taskiq.receiver import Receiver
from taskiq.receiver.receiver import QUEUE_DONE
from taskiq.result import TaskiqResult

logging.disable(logging.CRITICAL)

FAILURES: List[str] = []
CHECKS = 0


def check(cond: bool, what: str) -> None:
    global CHECKS
    CHECKS += 1
    if not cond:
        FAILURES.append(what)
        print("FAIL:", what)


class BackendDown(Exception):
    """Failure of the result backend."""


class RecordingBackend(AsyncResultBackend[Any]):
    """Backend that records every save and fails on a chosen subset of them."""

    def __init__(
        self,
        fail_saves: Optional[Set[int]] = None,
        fail_ids: Optional[Set[str]] = None,
        exc_factory: Callable[[], Exception] = BackendDown,
    ) -> None:
        self.fail_saves = fail_saves or set()
        self.fail_ids = fail_ids or set()
        self.exc_factory = exc_factory
        self.attempts: List[str] = []
        self.stored: List[Tuple[str, TaskiqResult[Any]]] = []

    async def set_result(self, task_id: str, result: TaskiqResult[Any]) -> None:
        idx = len(self.attempts)
        self.attempts.append(task_id)
        await asyncio.sleep(0)
        if idx in self.fail_saves or task_id in self.fail_ids:
            raise self.exc_factory()
        self.stored.append((task_id, result))

    async def is_result_ready(self, task_id: str) -> bool:
        return any(tid == task_id for tid, _ in self.stored)

    async def get_result(self, task_id: str, with_logs: bool = False) -> Any:
        return [res for tid, res in self.stored if tid == task_id][-1]

    def of(self, task_id: str) -> List[TaskiqResult[Any]]:
        return [res for tid, res in self.stored if tid == task_id]


class MyError(Exception):
    """Ordinary exception."""


class MyTimeout(asyncio.TimeoutError):
    """Subclass of the timeout error, raised by task functions themselves."""


class MyBase(BaseException):
    """BaseException subclass that is not an Exception."""


LABELS: Dict[str, Any] = {"queue": "high", "attempt": 3, "ratio": 0.5, "tag": ""}


def make(
    broker: InMemoryBroker,
    max_async_tasks: Optional[int] = 10,
    ack_type: Optional[AcknowledgeType] = None,
) -> Receiver:
    return Receiver(
        broker,
        executor=ThreadPoolExecutor(max_workers=4),
        max_async_tasks=max_async_tasks,
        ack_type=ack_type,
    )


def dump(
    broker: InMemoryBroker,
    task_id: str,
    task_name: str,
    labels: Optional[Dict[str, Any]] = None,
    args: Optional[List[Any]] = None,
) -> bytes:
    return broker.formatter.dumps(
        TaskiqMessage(
            task_id=task_id,
            task_name=task_name,
            labels=dict(LABELS if labels is None else labels),
            args=args or [],
            kwargs={},
        ),
    ).message


def ackable(data: bytes, acked: List[bytes]) -> AckableMessage:
    return AckableMessage(data=data, ack=lambda: acked.append(data))


def same_exc(stored: Any, raised: BaseException) -> bool:
    return type(stored) is type(raised) and stored.args == raised.args


# --------------------------------------------------------------------------
# 1. returned values / raised exceptions, sync and async, through callback()
# --------------------------------------------------------------------------
async def scenario_outcomes() -> None:
    returned_values: List[Any] = [
        None,
        0,
        False,
        "",
        "text",
        [1, 2, 3],
        {"a": {"b": None}},
        3.25,
        MyError("returned, not raised"),
        NoResultError,  # the class as a *value* is an ordinary return value
    ]
    raised: List[BaseException] = [
        ValueError("bad value"),
        MyError("boom", 42),
        KeyError("k"),
        MyBase("base"),
        KeyboardInterrupt("ctrl-c"),
        SystemExit(3),
        TimeoutError("raised by the task itself"),
        asyncio.TimeoutError("raised by the task itself (asyncio)"),
        MyTimeout("subclass", 1),
    ]
    for is_async in (False, True):
        for n, value in enumerate(returned_values):
            await one_outcome(is_async, f"ret{n}", value, None)
        for n, exc in enumerate(raised):
            await one_outcome(is_async, f"exc{n}", None, exc)
    # CancelledError / GeneratorExit raised by an async function itself.  (They
    # are not used with sync functions: there CPython itself treats a
    # GeneratorExit coming out of the executor future specially.)
    await one_outcome(True, "cancelled", None, asyncio.CancelledError("c"))
    await one_outcome(True, "genexit", None, GeneratorExit("gen"))
    # NoResultError: nothing is stored.
    for is_async in (False, True):
        await one_outcome(is_async, "nores", None, NoResultError(), no_result=True)


async def one_outcome(
    is_async: bool,
    name: str,
    value: Any,
    exc: Optional[BaseException],
    no_result: bool = False,
) -> None:
    backend = RecordingBackend()
    broker = InMemoryBroker().with_result_backend(backend)
    calls: List[int] = []

    if is_async:

        async def fn() -> Any:
            calls.append(1)
            await asyncio.sleep(0)
            if exc is not None:
                raise exc
            return value

    else:

        def fn() -> Any:  # type: ignore
            calls.append(1)
            if exc is not None:
                raise exc
            return value

    task = broker.register_task(fn, task_name=f"t_{name}")
    receiver = make(broker)
    acked: List[bytes] = []
    tid = f"id-{name}-{'a' if is_async else 's'}"
    where = f"[outcome {tid}]"
    data = dump(broker, tid, task.task_name)
    await receiver.callback(ackable(data, acked))
    check(calls == [1], f"{where} function executed exactly once")
    check(acked == [data], f"{where} message acked (processing completed)")
    if no_result:
        check(backend.attempts == [], f"{where} no save for the no-result signal")
        check(backend.stored == [], f"{where} nothing stored for no-result signal")
        return
    check(backend.attempts == [tid], f"{where} exactly one save under task id")
    results = backend.of(tid)
    check(len(results) == 1, f"{where} exactly one stored result")
    if not results:
        return
    res = results[0]
    check(res.labels == LABELS, f"{where} result carries the message labels")
    if exc is None:
        check(res.is_err is False, f"{where} is_err false on return")
        check(res.error is None, f"{where} no error on return")
        same = res.return_value is value or res.return_value == value
        check(same, f"{where} return value is the function's return value")
    else:
        check(res.is_err is True, f"{where} is_err true on raise")
        check(same_exc(res.error, exc), f"{where} error is the raised exception")
        check(res.return_value is None, f"{where} no return value on raise")


# --------------------------------------------------------------------------
# 2. timeout label on async tasks: enforced, reported as a timeout error
# --------------------------------------------------------------------------
async def scenario_timeouts() -> None:
    # (timeout label, duration of the task, expect timeout)
    cases: List[Tuple[Any, float, bool]] = [
        (0.1, 5.0, True),
        ("0.1", 5.0, True),
        (1, 5.0, True),
        (0.05, 0.4, True),
        (2.0, 0.05, False),
        ("2", 0.0, False),
        (30, 0.1, False),
    ]
    for n, (label, duration, expect_timeout) in enumerate(cases):
        backend = RecordingBackend()
        broker = InMemoryBroker().with_result_backend(backend)
        state = {"started": 0, "finished": 0, "cancelled": 0}

        async def fn(duration: float = duration, state: Any = state) -> str:
            state["started"] += 1
            try:
                await asyncio.sleep(duration)
            except asyncio.CancelledError:
                state["cancelled"] += 1
                raise
            state["finished"] += 1
            return "done"

        task = broker.register_task(fn, task_name=f"timeout_{n}")
        receiver = make(broker)
        labels = dict(LABELS, timeout=label)
        tid = f"id-timeout-{n}"
        where = f"[timeout {label!r} vs {duration}]"
        acked: List[bytes] = []
        data = dump(broker, tid, task.task_name, labels=labels)
        began = time.monotonic()
        await receiver.callback(ackable(data, acked))
        elapsed = time.monotonic() - began
        check(acked == [data], f"{where} message acked")
        check(backend.attempts == [tid], f"{where} exactly one save")
        results = backend.of(tid)
        check(len(results) == 1, f"{where} exactly one stored result")
        if not results:
            continue
        res = results[0]
        check(res.labels == labels, f"{where} labels carried (incl. timeout)")
        if expect_timeout:
            check(res.is_err is True, f"{where} is_err true")
            check(
                isinstance(res.error, asyncio.TimeoutError),
                f"{where} error is a timeout error, got {res.error!r}",
            )
            check(res.return_value is None, f"{where} no return value")
            check(
                state == {"started": 1, "finished": 0, "cancelled": 1},
                f"{where} timeout is enforced (task cancelled): {state}",
            )
            check(elapsed < duration, f"{where} did not wait for the task")
        else:
            check(res.is_err is False, f"{where} is_err false")
            check(res.error is None, f"{where} no error")
            check(res.return_value == "done", f"{where} return value")
            check(state["finished"] == 1, f"{where} task finished")

    # An exception raised before the deadline is reported as itself; also a
    # timeout error raised by the *function* (with and without a label) and by
    # a dependency (i.e. before the target is even called).
    def failing_dep() -> int:
        raise TimeoutError("dependency timed out")

    async def raises_value_error() -> None:
        raise ValueError("early")

    async def raises_timeout() -> None:
        raise TimeoutError("own timeout")

    async def with_dep(dep: int = Depends(failing_dep)) -> int:
        return dep

    def sync_raises_timeout() -> None:
        raise MyTimeout("sync own timeout")

    def sync_with_dep(dep: int = Depends(failing_dep)) -> int:
        return dep

    extra: List[Tuple[str, Any, Dict[str, Any], BaseException]] = [
        ("s-own-l", sync_raises_timeout, {"timeout": 5}, MyTimeout("sync own timeout")),
        ("s-own-n", sync_raises_timeout, {}, MyTimeout("sync own timeout")),
        ("s-dep", sync_with_dep, {"timeout": "5"}, TimeoutError("dependency timed out")),
        ("early", raises_value_error, {"timeout": 5}, ValueError("early")),
        ("own-l", raises_timeout, {"timeout": 5}, TimeoutError("own timeout")),
        ("own-n", raises_timeout, {}, TimeoutError("own timeout")),
        ("dep-l", with_dep, {"timeout": 5}, TimeoutError("dependency timed out")),
        ("dep-n", with_dep, {}, TimeoutError("dependency timed out")),
    ]
    for name, fn2, extra_labels, expected in extra:
        backend = RecordingBackend()
        broker = InMemoryBroker().with_result_backend(backend)
        task = broker.register_task(fn2, task_name=f"extra_{name}")
        receiver = make(broker)
        labels = dict(LABELS, **extra_labels)
        tid = f"id-extra-{name}"
        where = f"[timeout-extra {name}]"
        acked = []
        data = dump(broker, tid, task.task_name, labels=labels)
        await receiver.callback(ackable(data, acked))
        check(acked == [data], f"{where} message acked")
        check(backend.attempts == [tid], f"{where} exactly one save")
        results = backend.of(tid)
        check(len(results) == 1, f"{where} exactly one stored result")
        if results:
            res = results[0]
            check(res.is_err is True, f"{where} is_err true")
            check(same_exc(res.error, expected), f"{where} error {res.error!r}")
            check(res.labels == labels, f"{where} labels carried")


# --------------------------------------------------------------------------
# 3. failing result backend on any subset of saves, through the real runner
# --------------------------------------------------------------------------
class HookRecorder(TaskiqMiddleware):
    """Middleware with all hooks; post_save may be told to fail."""

    def __init__(self, fail_post_save: bool = False) -> None:
        super().__init__()
        self.fail_post_save = fail_post_save
        self.post_saved: List[str] = []

    def post_execute(self, message: TaskiqMessage, result: Any) -> None:
        return None

    def on_error(self, message: TaskiqMessage, result: Any, exception: Any) -> None:
        return None

    async def post_save(self, message: TaskiqMessage, result: Any) -> None:
        self.post_saved.append(message.task_id)
        if self.fail_post_save:
            raise MyError("post_save hook is broken")


async def run_through_runner(
    fail_saves: Set[int],
    max_async_tasks: Optional[int],
    exc_factory: Callable[[], Exception],
    hooks: Optional[List[HookRecorder]] = None,
    ack_type: Optional[AcknowledgeType] = None,
) -> None:
    backend = RecordingBackend(fail_saves=fail_saves, exc_factory=exc_factory)
    broker = InMemoryBroker().with_result_backend(backend)
    if hooks:
        broker.add_middlewares(*hooks)
    executed: List[int] = []

    async def a_ok(n: int) -> int:
        executed.append(n)
        return n * 10

    def s_ok(n: int) -> int:
        executed.append(n)
        return n * 10

    async def a_bad(n: int) -> int:
        executed.append(n)
        raise MyError(n)

    async def a_nores(n: int) -> int:
        executed.append(n)
        raise NoResultError

    names = [
        broker.register_task(a_ok, task_name="a_ok").task_name,
        broker.register_task(s_ok, task_name="s_ok").task_name,
        broker.register_task(a_bad, task_name="a_bad").task_name,
        broker.register_task(a_ok, task_name="a_ok2").task_name,
        broker.register_task(a_nores, task_name="a_nores").task_name,
        broker.register_task(s_ok, task_name="s_ok2").task_name,
    ]
    receiver = make(broker, max_async_tasks=max_async_tasks, ack_type=ack_type)
    queue: "asyncio.Queue[Any]" = asyncio.Queue()
    acked: List[bytes] = []
    datas = []
    for n, name in enumerate(names):
        data = dump(broker, f"m{n}", name, args=[n])
        datas.append(data)
        queue.put_nowait(ackable(data, acked))
    queue.put_nowait(QUEUE_DONE)
    await asyncio.wait_for(receiver.runner(queue), 20)
    where = (
        f"[runner fail={sorted(fail_saves)} sem={max_async_tasks} "
        f"exc={exc_factory.__name__} hooks={bool(hooks)} ack={ack_type}]"
    )
    check(sorted(executed) == list(range(6)), f"{where} every message executed once")
    check(sorted(acked) == sorted(datas), f"{where} every message completed (acked)")
    saving = [f"m{n}" for n in range(6) if n != 4]
    check(sorted(backend.attempts) == saving, f"{where} one save attempt per result")
    failed = {backend.attempts[i] for i in fail_saves if i < len(backend.attempts)}
    for n in range(6):
        tid = f"m{n}"
        results = backend.of(tid)
        if n == 4 or tid in failed:
            check(results == [], f"{where} nothing stored for {tid}")
            continue
        check(len(results) == 1, f"{where} exactly one result for {tid}")
        if not results:
            continue
        res = results[0]
        check(res.labels == LABELS, f"{where} labels of {tid}")
        if n == 2:
            ok = res.is_err is True and same_exc(res.error, MyError(n))
            check(ok, f"{where} error result of {tid}")
        else:
            ok = res.is_err is False and res.return_value == n * 10
            check(ok and res.error is None, f"{where} value result of {tid}")
    for hook in hooks or []:
        check(
            set(hook.post_saved) <= {tid for tid, _ in backend.stored},
            f"{where} post_save only announced really saved results",
        )


async def scenario_backend_failures() -> None:
    # every subset of the 5 saves, sequential processing (later messages are
    # processed after an earlier one hit a broken backend).
    for k in range(6):
        for subset in itertools.combinations(range(5), k):
            await run_through_runner(set(subset), 1, BackendDown)
    # a few subsets with concurrency / other exception types / hooks / ack types
    for subset in ({0}, {1, 3}, {0, 1, 2, 3, 4}):
        await run_through_runner(subset, 10, ConnectionError)
        await run_through_runner(subset, None, OSError)
        await run_through_runner(subset, 2, TimeoutError)
        await run_through_runner(
            subset,
            1,
            BackendDown,
            hooks=[HookRecorder(fail_post_save=True), HookRecorder()],
        )
        for ack_type in AcknowledgeType:
            await run_through_runner(
                subset,
                3,
                RuntimeError,
                hooks=[HookRecorder(), HookRecorder(fail_post_save=True)],
                ack_type=ack_type,
            )


# --------------------------------------------------------------------------
# 4. raise_err=True (used by tests / InMemoryBroker style callers): the error
#    of the backend is re-raised, still exactly one save attempt, no result.
# --------------------------------------------------------------------------
async def scenario_raise_err() -> None:
    backend = RecordingBackend(fail_ids={"x1"})
    broker = InMemoryBroker().with_result_backend(backend)

    async def fn() -> int:
        return 7

    task = broker.register_task(fn, task_name="fn")
    receiver = make(broker)
    try:
        await receiver.callback(dump(broker, "x1", task.task_name), raise_err=True)
        check(False, "[raise_err] backend error must be re-raised")
    except BackendDown:
        check(True, "[raise_err] re-raised")
    check(backend.attempts == ["x1"], "[raise_err] one attempt")
    check(backend.stored == [], "[raise_err] nothing stored")
    # the next message is fine
    await receiver.callback(dump(broker, "x2", task.task_name), raise_err=True)
    res = backend.of("x2")
    check(len(res) == 1 and res[0].return_value == 7, "[raise_err] next message ok")


async def main() -> None:
    await scenario_outcomes()
    await scenario_timeouts()
    await scenario_backend_failures()
    await scenario_raise_err()


if __name__ == "__main__":
    started = time.monotonic()
    asyncio.run(main())
    print(f"{CHECKS} checks, {len(FAILURES)} failures, {time.monotonic() - started:.1f}s")
    sys.exit(1 if FAILURES else 0)
