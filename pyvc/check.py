"""./check <property> [--tier quick|thorough] [--replay FILE]

Decides one property from the proof obligations generated from /repo's CURRENT source:
  exit 0  every obligation of the property is discharged (KNOWN-FINDING lines allowed)
  exit 1  some obligation is refuted: `VIOLATION property=<id> replay=<path>[ no-failing-input-found]`
  exit 2  undecided (solver unknown/timeouts or a construct outside the supported subset) - never reported as a violation
  exit 3  the machinery is broken (crash, vacuous hypotheses, zero obligations)
Evidence is rewritten on every run: evidence/<id>.json."""
import sys, os, json, time, subprocess, tempfile, shutil, re, argparse, hashlib, collections
ROOT = os.path.dirname(os.path.dirname(os.path.abspath(__file__)))
sys.path.insert(0, ROOT)
from pyvc.props import PROPS

PYVT = shutil.which('python3-vt') or '/opt/veriftools/pyvenv/bin/python'
PYREPO = '/venv/bin/python'
REPO = os.environ.get('PYVC_REPO', '/repo')
OUT = os.environ.get('PYVC_OUT', ROOT)          # where evidence/ and replays/ are written (seed tests redirect it so that committed evidence is not disturbed)


def slug(s): return re.sub(r'[^A-Za-z0-9]+', '-', s).strip('-')[:90]

def run_units(units, extra_args=(), timeout=3000, extra_env=None):
    """run the verification units in parallel sub-processes; returns {unit: report}"""
    tmp = tempfile.mkdtemp(prefix='pyvc-'); procs = {}; out = {}
    cache = os.environ.get('PYVC_CACHE')          # only set by tools/seedtest.py: the 20 checks of one seed test share unit results for the SAME source state
    ckey = None
    if cache:
        hsh = hashlib.sha256()
        for base in (os.path.join(REPO, 'taskiq'), os.path.join(ROOT, 'specs'), os.path.join(ROOT, 'pyvc')):
            for dp, dn, fn in sorted(os.walk(base)):
                for f in sorted(fn):
                    if f.endswith('.py'): hsh.update(open(os.path.join(dp, f), 'rb').read())
        ckey = hsh.hexdigest()[:16] + '-' + hashlib.sha1(repr((extra_args, sorted((extra_env or {}).items()))).encode()).hexdigest()[:8]
        os.makedirs(cache, exist_ok=True)
        for u in sorted(units):          # one global lock order: two checks that share units in different orders cannot wait for each other
            cf = os.path.join(cache, f"{u}-{ckey}.json")
            for _ in range(1200):          # another check of the same seed test may be computing it right now
                if os.path.exists(cf) or not os.path.exists(cf + '.lock'): break
                time.sleep(0.5)
            if os.path.exists(cf):
                out[u] = json.load(open(cf)); units = [x for x in units if x != u]
            else: open(cf + '.lock', 'w').close()
    try:
        env = dict(os.environ); env['PYTHONPATH'] = ROOT; env.setdefault('PYVC_PROCS', str(max(4, 16 // max(1, len(units))))); env.update(extra_env or {})
        for u in units:
            f = os.path.join(tmp, u + '.json')
            procs[u] = (subprocess.Popen([PYVT, '-m', 'pyvc.unit', u, '--out', f, *extra_args], cwd=ROOT, env=env, stdout=subprocess.PIPE, stderr=subprocess.PIPE, text=True), f)
        for u, (p, f) in procs.items():
            try: so, se = p.communicate(timeout=timeout)
            except subprocess.TimeoutExpired:
                p.kill(); out[u] = {'unit': u, 'status': 'crash', 'error': 'unit timed out'}; continue
            if os.path.exists(f): out[u] = json.load(open(f))
            else: out[u] = {'unit': u, 'status': 'crash', 'error': (se or so)[-2000:]}
            if cache:
                cf = os.path.join(cache, f"{u}-{ckey}.json"); json.dump(out[u], open(cf + '.tmp', 'w')); os.replace(cf + '.tmp', cf)
                if os.path.exists(cf + '.lock'): os.unlink(cf + '.lock')
    finally:
        shutil.rmtree(tmp, ignore_errors=True)
    return out

def native(driver, scenario, timeout=300, prop=None, drop_known_keys=False):
    """run a replay driver on the real code under the repository's interpreter"""
    path = os.path.join(ROOT, 'replay', driver + '.py')
    if not os.path.exists(path): return {'reproduced': False, 'note': f'no replay driver {driver}'}
    tmp = tempfile.mkdtemp(prefix='pyvc-replay-')
    try:
        f = os.path.join(tmp, 'scenario.json'); json.dump(scenario, open(f, 'w'))
        env = dict(os.environ); env['PYTHONPATH'] = REPO + os.pathsep + os.path.join(ROOT, 'replay'); env['PYTHONDONTWRITEBYTECODE'] = '1'
        p = subprocess.run([PYREPO, path, f], capture_output=True, text=True, timeout=timeout, env=env, cwd=tmp)
        lines = [l for l in p.stdout.strip().splitlines() if l.startswith('{')]
        if not lines: return {'reproduced': False, 'note': 'replay driver produced no result', 'stderr': p.stderr[-1500:]}
        r = json.loads(lines[-1])
        if prop and isinstance(r.get('failures'), list) and all(isinstance(f, dict) and 'failed_clauses' in f for f in r['failures']):
            # keep only the natively failing clauses that speak about this property and are not an already listed open finding
            pats = [re.compile(kf['native_clause']) for kf in load_known() if kf.get('status') == 'open' and kf.get('native_clause')]
            kept = []; keys = [re.compile(kf['native_key']) for kf in load_known() if kf.get('status') == 'open' and kf.get('native_key')] if drop_known_keys else []
            for f in r['failures']:
                if any(kp.search(str(f.get('key', ''))) for kp in keys): continue          # the specific input of an open known finding
                cl = [c for c in f['failed_clauses'] if prop in c.split(':')[0] and not any(pt.search(c) for pt in pats)]
                if cl: kept.append(dict(f, failed_clauses=cl))
            r['n_failures_before_filter'] = r.get('n_failures', len(r['failures'])); r['failures'] = kept; r['reproduced'] = bool(kept); r['n_failures'] = len(kept)
            r['filter'] = f'clauses about {prop} only; clauses matching an open known finding (native_clause) are dropped'
        return r
    except subprocess.TimeoutExpired:
        return {'reproduced': False, 'note': 'replay driver timed out'}
    finally:
        shutil.rmtree(tmp, ignore_errors=True)

def load_known():
    p = os.path.join(ROOT, 'known_findings.json')
    return json.load(open(p)) if os.path.exists(p) else []

def do_replay(path):
    d = json.load(open(path)); drv = d.get('driver')
    if not drv: print(f"replay file {path}: obligation {d.get('obligation')} has no native driver; verifier output:\n{d.get('model_excerpt', '')}"); return 0
    r = native(drv, d['scenario'], prop=d.get('property')); print(json.dumps(r, indent=1))
    return 1 if r.get('reproduced') else 0

def main():
    ap = argparse.ArgumentParser(); ap.add_argument('prop'); ap.add_argument('--tier', default=os.environ.get('VERIF_TIER', 'quick')); ap.add_argument('--replay')
    ap.add_argument('--edit', action='append', default=[], help=argparse.SUPPRESS)
    a = ap.parse_args()
    if a.replay: sys.exit(do_replay(a.replay))
    pid = a.prop; spec = PROPS[pid]; t0 = time.time(); seed = int(os.environ.get('VERIF_SEED', '0'))
    os.makedirs(os.path.join(OUT, 'evidence'), exist_ok=True); os.makedirs(os.path.join(OUT, 'replays'), exist_ok=True)
    extra = [x for e in a.edit for x in ('--edit', e)]
    import concurrent.futures as _cf
    pool = _cf.ThreadPoolExecutor(4); sup_fut = []
    for sup in spec.get('supplements', []):          # bounded native supplements run alongside the deductive units
        if sup.get('tier', 'quick') == 'thorough' and a.tier != 'thorough': continue
        sup_fut.append((sup, pool.submit(native, sup['driver'], dict(sup.get('args', {}), tier=a.tier, seed=seed), sup.get('timeout', 900), pid)))
    reports = run_units(spec['units'], extra, extra_env={'PYVC_CROSS': '1', 'PYVC_PATH_MODELS': '1'} if a.tier == 'thorough' else None)
    broken = []; undecided = []; obls = []; functions = []; trusted = []; dropped = set(); infos = {}
    for i in range(len(a.edit)):
        if not any(i < len(r.get('edits_applied', [])) and r['edits_applied'][i] for r in reports.values()): broken.append(f"--edit #{i + 1} matched no source text of the units of {pid}")
    for u, r in reports.items():
        if r['status'] == 'crash': broken.append(f"unit {u} crashed: {r.get('error')}"); continue
        if r['status'] == 'unsupported': undecided.append(f"unit {u}: unsupported construct: {r.get('error')}"); continue
        mine = [o for o in r['obligations'] if pid in o['props']]
        for o in mine: o['unit'] = u
        if not [o for o in mine if o['kind'] == 'goal']: broken.append(f"unit {u} produced no obligation for {pid}")
        obls += mine; functions += [dict(f, unit=u) for f in r['functions']]; trusted += [t for t in r['trusted'] if t not in trusted]; dropped |= set(r.get('dropped', [])); infos[u] = r.get('info')
    goals = [o for o in obls if o['kind'] == 'goal']; guards = [o for o in obls if o['kind'] == 'mustfail']
    groups = collections.defaultdict(list)
    for o in guards: groups[(o['unit'], o['name'].split('/reach@')[0])].append(o['status'])
    vac = [f"{u}:{n}" for (u, n), sts in groups.items() if 'reachable' not in sts]        # every guarded path of the function is infeasible => contradictory contract/axioms
    if vac: broken.append("vacuous hypotheses (must-fail obligation was 'proved'): " + "; ".join(vac[:5]))
    if not guards and not broken and not undecided: broken.append("no vacuity guard was generated")
    # ---- supplements (bounded; never counted as proved)
    supplements = []
    for sup, fut in sup_fut:
        r = fut.result()
        # a bounded supplement that produced no verdict (its driver crashed - e.g. the changed code no longer imports - or ran out of time) decided nothing:
        # that is UNDECIDED, never silence
        if r.get('note') and 'runs' not in r: undecided.append(f"supplement {sup['name']}: {r['note']}" + (': ' + r['stderr'].strip().splitlines()[-1][:160] if r.get('stderr', '').strip() else ''))
        supplements.append({'name': sup['name'], 'bounded': True, 'bound': sup['bound'], 'driver': sup['driver'], 'args': sup.get('args', {}), 'result': {kx: vx for kx, vx in r.items() if kx != 'failures'}, 'failures': r.get('failures', [])})
    # ---- verdicts
    known = [kf for kf in load_known() if kf.get('property') == pid and kf.get('status') == 'open']
    refuted = collections.OrderedDict()
    for o in goals:
        if o['status'] == 'refuted': refuted.setdefault(o['name'], []).append(o)
    und = [o for o in goals if o['status'] == 'undecided']
    # escalation for `unknown`: a native bounded search by the obligation's replay driver; a failing input found there is a real,
    # replayed violation - otherwise the obligation stays UNDECIDED (never reported as a violation)
    und_names = collections.OrderedDict()
    for o in und: und_names.setdefault(o['name'], o)
    for name, o in und_names.items():
        drv = (o.get('replay') or {}).get('driver')
        nat = native(drv, {kx: vx for kx, vx in (o.get('replay') or {}).items() if kx != 'driver'}, prop=pid, drop_known_keys=True) if drv else {'reproduced': False}
        if nat.get('reproduced'):
            o['status'] = 'refuted'; o['raw'] = 'unknown (solver) + failing input found by the native bounded search'; o['witness'] = {}; refuted.setdefault(name, []).append(o)
            for x in und:
                if x['name'] == name: x['status'] = 'refuted'
        else: undecided.append(f"obligation {name}: solver returned unknown ({o['solver']}); native bounded search found nothing")
    und = [o for o in goals if o['status'] == 'undecided']
    lines = []; nviol = 0; nknown = 0
    for name, os_ in refuted.items():
        o = next((x for x in os_ if x.get('witness')), os_[0])
        drv = (o.get('replay') or {}).get('driver')
        scenario = dict(o.get('witness') or {}); scenario.update({kx: vx for kx, vx in (o.get('replay') or {}).items() if kx != 'driver'})
        nat = native(drv, scenario, prop=pid, drop_known_keys=True) if drv else {'reproduced': False, 'note': 'obligation has no input-level counterexample (no native driver)'}
        rel = f"replays/{pid}-{slug(name)}.json"
        json.dump({'property': pid, 'obligation': name, 'unit': o['unit'], 'paths_refuted': len(os_), 'solver': o['solver'], 'solver_verdict': o['raw'], 'driver': drv, 'scenario': scenario,
                   'model_excerpt': o.get('model_excerpt'), 'native': nat, 'functions': [f for f in functions if f['unit'] == o['unit']],
                   'rerun': f"./check {pid} --replay {rel}"}, open(os.path.join(OUT, rel), 'w'), indent=1, default=str)
        kf = next((kf for kf in known if kf.get('obligation') == name), None)
        if kf: lines.append(f"KNOWN-FINDING: property={pid} {name}: {kf['what']}"); nknown += 1
        else:
            lines.append(f"VIOLATION property={pid} replay={rel}" + ("" if nat.get('reproduced') else " no-failing-input-found")); nviol += 1
    for s in supplements:
        unknown_fl = []
        for i, fl in enumerate(s['failures']):
            key = f"supplement:{s['name']}:{fl.get('key', i)}"
            kf = next((kf for kf in known if kf.get('obligation') == key or (kf.get('obligation_regex') and re.search(kf['obligation_regex'], key))), None)
            if kf:
                if kf.get('id') not in s.setdefault('known_reported', []): s['known_reported'].append(kf.get('id')); lines.append(f"KNOWN-FINDING: property={pid} {kf.get('obligation') or kf.get('obligation_regex')}: {kf['what']}"); nknown += 1
            else: unknown_fl.append((key, fl))
        if unknown_fl:
            rel = f"replays/{pid}-supplement-{slug(s['name'])}.json"
            json.dump({'property': pid, 'obligation': f"supplement:{s['name']}", 'bounded': True, 'bound': s['bound'], 'driver': s.get('driver'), 'scenario': s.get('args', {}),
                       'failing_inputs': [dict(fl, key=key) for key, fl in unknown_fl], 'rerun': f"./check {pid} --replay {rel}"}, open(os.path.join(OUT, rel), 'w'), indent=1, default=str)
            lines.append(f"VIOLATION property={pid} replay={rel}"); nviol += 1
    proved = [o for o in goals if o['status'] == 'proved']
    n_known_refuted = sum(len(v) for n_, v in refuted.items() if any(kf.get('obligation') == n_ for kf in known))
    # ---- thorough tier extras: second solver on every proved obligation, CPython cross-check of path models, engine self-mutation
    thorough = {}
    if a.tier == 'thorough' and not a.edit:
        cross = collections.Counter(o['solver'].split('+cvc5:')[1] for o in goals if '+cvc5:' in o['solver'])
        thorough['second_solver_cvc5'] = dict(cross)
        if cross.get('sat'): broken.append(f"solver disagreement: cvc5 reports sat on {cross['sat']} obligations z3 proved")
        # CPython cross-check: one model per feasible path of a pure function is concretised and the REAL function is run natively; results must agree
        cc = {'paths': 0, 'agree': 0, 'disagreements': []}
        for o in guards:
            drv = (o.get('replay') or {}).get('driver'); w = o.get('witness')
            if not w or drv != 'delay' or 'result' not in w: continue
            nat = native(drv, w); cc['paths'] += 1
            got = nat.get('result', 'raised' if 'raised' in nat else None)
            if got == w['result'] and not nat.get('spec_failures'): cc['agree'] += 1
            else: cc['disagreements'].append({'path': o['name'], 'model': w, 'native': nat})
        thorough['cpython_cross_check'] = cc
        if cc['disagreements']: broken.append(f"CPython cross-check: the symbolic result differs from the real function on {len(cc['disagreements'])} sampled paths (encoding of Python is wrong)")
        # engine self-mutation (in-memory textual edits of the real source; nothing is written to /repo)
        from specs.mutants import MUTANTS, EQUIVALENT
        table = []
        jobs = [(u, m, True) for u in spec['units'] for m in MUTANTS.get(u, [])] + [(u, m, False) for u in spec['units'] for m in EQUIVALENT.get(u, [])]
        def run_mut(job):
            u, (old_, new_, note), should_kill = job
            r = run_units([u], ['--edit', old_ + '=>' + new_], extra_env={'PYVC_PROCS': '4'})[u]
            if r['status'] != 'ok': return {'unit': u, 'edit': note, 'outcome': r['status'], 'detail': r.get('error'), 'expected': 'refuted' if should_kill else 'proved'}
            if not all(r.get('edits_applied', [True])): return {'unit': u, 'edit': note, 'outcome': 'edit-not-applicable', 'expected': 'refuted' if should_kill else 'proved'}
            ref = sorted({o['name'] for o in r['obligations'] if o['kind'] == 'goal' and o['status'] == 'refuted' and not any(kf.get('obligation') == o['name'] for kf in load_known() if kf.get('status') == 'open')})
            mine = [n for n in ref if any(pid in o['props'] for o in r['obligations'] if o['name'] == n)]
            return {'unit': u, 'edit': note, 'outcome': 'refuted' if ref else 'proved', 'refuted_for_this_property': bool(mine), 'first_refuted': (mine or ref or [None])[0], 'expected': 'refuted' if should_kill else 'proved'}
        with _cf.ThreadPoolExecutor(4) as mp_: table = list(mp_.map(run_mut, jobs))
        thorough['self_mutation'] = {'mutants': len([x for x in table if x['expected'] == 'refuted']), 'killed': len([x for x in table if x['expected'] == 'refuted' and x['outcome'] == 'refuted']),
                                     'undecided_not_counted_as_killed': [x for x in table if x['expected'] == 'refuted' and x['outcome'] in ('unsupported', 'crash', 'edit-not-applicable')],
                                     'survivors': [x for x in table if x['expected'] == 'refuted' and x['outcome'] == 'proved'],
                                     'equivalent_edits_kept_green': len([x for x in table if x['expected'] == 'proved' and x['outcome'] == 'proved']),
                                     'false_alarms_on_equivalent_edits': [x for x in table if x['expected'] == 'proved' and x['outcome'] != 'proved'], 'table': table}
    # ---- evidence
    samples = []
    seen = set()
    for o in goals:
        if o['name'] not in seen and len(samples) < 12:
            seen.add(o['name']); samples.append({'name': o['name'], 'unit': o['unit'], 'status': o['status'], 'solver': o['solver'], 'ms': o['ms']})
    by_solver = collections.Counter(o['solver'] for o in proved)
    ev = {'property_id': pid, 'tier': a.tier if a.tier in ('quick', 'thorough') else 'quick', 'seed': seed, 'level': 'proof', 'wall_s': round(time.time() - t0, 2), 'violations': nviol,
          'coverage': {'obligations': len(goals) - n_known_refuted, 'discharged': len(proved), 'obligations_generated': len(goals), 'distinct_obligation_names': len({o['name'] for o in goals}),
                       'counting_rule': "obligations = obligations generated for this property minus those refuted AND listed as open known findings (reported as KNOWN-FINDING lines, listed under known_findings); "
                                        "with an open known finding the property as a whole does NOT hold - the proof covers the remaining obligations only",
                       'refuted_known_findings': n_known_refuted, 'known_findings': [{'id': kf.get('id'), 'obligation': kf.get('obligation') or kf.get('obligation_regex'), 'what': kf['what']} for kf in known if kf.get('obligation') in refuted or any(kf.get('id') in s.get('known_reported', []) for s in supplements)],
                       'undecided': len(und), 'checker_cmd': f"./check {pid} --tier {a.tier}   (units: " + ", ".join(f"python3-vt -m pyvc.unit {u}" for u in spec['units']) + ")",
                       'trusted_base': trusted + ['z3 ' + next((r.get('solvers', {}).get('z3', '?') for r in reports.values()), '?') + ' (unsat answers trusted); cvc5 1.0.3 for z3 unknowns'],
                       'discharged_by': dict(by_solver), 'solver_ms_total': sum(o['ms'] for o in goals),
                       'functions_under_contract': functions, 'unit_info': infos, 'samples': samples,
                       'vacuity': {'reachability_guards': len(guards), 'all_reachable': not vac},
                       'dropped_constructs': sorted(dropped), 'bounded_supplements': [dict(s_, failures=s_['failures'][:10], failures_total=len(s_['failures'])) for s_ in supplements],
                       'known_findings_reported': nknown, 'thorough': thorough,
                       'explanation': spec.get('explanation', '')},
          'assumptions': spec.get('assumptions', []) + ["Python semantics as encoded by pyvc (DESIGN 2.2): evaluation order, truthiness, exceptions, attribute reads are pure"],
          'not_decided': spec.get('not_decided', [])}
    json.dump(ev, open(os.path.join(OUT, 'evidence', pid + '.json'), 'w'), indent=1, default=str)
    for l in lines: print(l)
    print(f"{pid}: {len(goals)} obligations, {len(proved)} proved, {sum(len(v) for v in refuted.values())} refuted ({nknown} known findings), {len(und)} undecided; "
          f"{len(functions)} functions under contract; {ev['wall_s']} s")
    native_viol = any(l.startswith('VIOLATION') and not l.rstrip().endswith('no-failing-input-found') for l in lines)
    if broken:
        for b in broken: print("BROKEN " + b)
        if not native_viol: sys.exit(3)          # a violation reproduced on the real code stands whatever happened to a verification unit
    if nviol: sys.exit(1)
    if undecided:
        for u in undecided: print(f"UNDECIDED property={pid} {u}")
        sys.exit(2)
    sys.exit(0)


if __name__ == '__main__':
    main()
