"""Unit `og`: the receiver protocol — Receiver.__init__, listen, prefetcher, runner, runner.<locals>.task_cb
(C01 conservation/identity, C03 limit + slot conservation + stuck-freedom, C04 bound A+P+1, C05 shutdown).

Owicki-Gries over coroutine segments (DESIGN 2.8): asyncio is cooperative, so the code between two suspending awaits is atomic.
Segments are extracted mechanically from the REAL ASTs: the CPS executor stores the continuation at every suspending await
(sem.acquire, queue.get, asyncio.wait) and later resumes it from a FRESH symbolic state constrained by the global invariant,
the thread's location, the resume guard and the resume effect of the primitive's contract.  The asyncio primitives update
thread-tagged ghost counters; the invariant states the semaphore laws once over those counters.  Environment actions:
a message is delivered to the pending look-ahead, stop is requested, the wait_tasks_timeout timer fires, a callback task ends
(its done-callback, the REAL body of task_cb, runs atomically)."""
import ast, collections
from z3 import *
from pyvc.core import *

PROPS = ['C01', 'C03', 'C04', 'C05']
REPLAY = {'driver': 'og'}
REL = 'taskiq/receiver/receiver.py'
TRUSTED = [
    "asyncio is single-threaded and cooperative: code between two suspending awaits is atomic",
    "asyncio.Semaphore(n): value n >= 0; acquire() resumes only when value > 0 and decrements; release() increments (never suspends)",
    "asyncio.Queue() (maxsize 0): FIFO; put never suspends; get() resumes only when non-empty",
    "asyncio.create_task(coro): returns a pending handle; Task.result() of a done task returns its value; cancel() only affects a pending task and a cancelled pending __anext__ takes no message (broker contract)",
    "asyncio.wait({t}, timeout): resumes when t is done or on timeout; `done` reflects t's status at resume; asyncio.wait(tasks, timeout=T): resumes when all are done, or after T if T is not None",
    "task.add_done_callback(cb): cb runs atomically once after the task ended, for every way it can end (return, exception, cancellation)",
    "anyio task group: the `async with` block exits when both children have returned",
    "broker.listen() yields each taken message once and raises nothing but StopAsyncIteration (stream end: explored); CancelledError (external cancellation of listen()) is raised by no contract: that handler edge is not explored",
    "the handler task may end CANCELLED (a CancelledError raised by user code - result backend, hook, acknowledgement - passes through callback's `except Exception` clauses): Task.cancelled() is then true and Task.exception() raises CancelledError; nothing else cancels it (it is only awaited at shutdown)",
    "callback()/run_task() never touch self.sem, self.sem_prefetch or the queue (frame obligations of units u_callback/u_run_task)",
]
SENT = -1
INTS = "sp sa head tail enq taken la la_msg started done_cb acqP relP relR acqR fetched extra pcP pcR".split(); BOOLS = "qdone fin tmo".split(); ARRS = "hist cb_msg".split()
PC = {'P': {'entry': 0, 'self.sem_prefetch.acquire': 1, 'asyncio.wait': 2, 'done': 9}, 'R': {'entry': 0, 'self.sem.acquire': 1, 'queue.get': 2, 'asyncio.wait': 3, 'done': 9}}


def generate(src):
    FN = {n: src.func(REL, 'Receiver.' + n) for n in ('__init__', 'listen', 'prefetcher', 'runner')}
    # ---- role binding (locals are identified by what they do, not by their names)
    tcb = [n_ for n_ in ast.walk(FN['runner']) if isinstance(n_, ast.FunctionDef) and 'self.sem.release' in ast.unparse(n_)]
    if len(tcb) != 1: raise Unsupported("runner: expected exactly one nested done-callback that releases the execution slot")
    TCB = tcb[0].name; TASK_CB = src.func(REL, 'Receiver.runner', nested=TCB)
    cnt = {n_.left.id for n_ in ast.walk(FN['prefetcher']) if isinstance(n_, ast.Compare) and isinstance(n_.left, ast.Name) and len(n_.comparators) == 1 and ast.unparse(n_.comparators[0]) == 'self.max_tasks_to_execute'}
    if len(cnt) != 1: raise Unsupported("prefetcher: expected exactly one local compared with self.max_tasks_to_execute (the hand-over counter)")
    FETCHED = cnt.pop()
    sets_ = [(n_.target.id if isinstance(n_, ast.AnnAssign) else n_.targets[0].id) for n_ in ast.walk(FN['runner']) if isinstance(n_, (ast.AnnAssign, ast.Assign)) and n_.value is not None and ast.unparse(n_.value) == 'set()'
             and isinstance((n_.target if isinstance(n_, ast.AnnAssign) else n_.targets[0]), ast.Name)]
    if len(sets_) != 1: raise Unsupported("runner: expected exactly one local set of live callback tasks")
    TASKS = sets_[0]
    # ---- the sentinel object: `is` tells it from a broker payload only if no payload can BE it. CPython keeps one shared object for b"" and for
    # every 1-byte bytes value (any b"x" produced anywhere in the process is the same object), so such a literal is not private to the receiver.
    sent_defs = [n_.value for n_ in src.tree(REL).body if isinstance(n_, ast.Assign) and any(isinstance(t_, ast.Name) and t_.id == 'QUEUE_DONE' for t_ in n_.targets)]
    def private(v):
        if isinstance(v, ast.Constant): return isinstance(v.value, (bytes, str)) and len(v.value) >= 2 and not (isinstance(v.value, str) and v.value.isidentifier())
        return isinstance(v, ast.Call) and ast.unparse(v) == 'object()'
    oblige(State(), "module/QUEUE_DONE: the end-of-stream sentinel is one object private to the receiver (a bytes literal of >= 2 bytes, or object()): no payload a broker yields can be the very same object, so the identity test tells every message from the sentinel  [C01/C05]",
           BoolVal(len(sent_defs) == 1 and private(sent_defs[0])), props=['C01', 'C05'], replay={'driver': 'og'})
    A, P, N = Ints('A P N'); hasA, hasT = Bool('hasA'), Bool('has_wait_timeout')
    j_, k_ = Ints('j_ k_')
    def symstate(tag):
        g = {v: Int(v + tag) for v in INTS}; g.update({b: Bool(b + tag) for b in BOOLS}); g.update({a: Const(a + tag, I2I) for a in ARRS}); return g
    def wit(g): return {'A': A, 'P': P, 'N': N, 'hasA': hasA, 'has_wait_timeout': hasT, **{kx: g[kx] for kx in INTS + BOOLS if kx in g}}
    RP = {'driver': 'og'}

    def Inv(g):
        live = g['started'] - g['done_cb']; pP, pR = g['pcP'], g['pcR']
        c = collections.OrderedDict()
        c['cfg'] = And(A >= 1, P >= 0, N >= 0)
        c['sem_law_prefetch'] = And(g['sp'] == P - g['acqP'] + g['relP'] + g['relR'], g['sp'] >= 0)
        c['sem_law_slots'] = And(Implies(hasA, And(g['sa'] == A - g['acqR'] + g['done_cb'], g['sa'] >= 0)), Implies(Not(hasA), g['acqR'] == 0))
        c['queue'] = And(0 <= g['head'], g['head'] <= g['tail'], g['tail'] == g['enq'] + b2i(g['qdone']), g['enq'] >= 0)
        c['identity_queue'] = ForAll([j_], Implies(And(0 <= j_, j_ < g['enq']), g['hist'][j_] == j_))
        c['sentinel_last'] = Implies(g['qdone'], g['hist'][g['enq']] == SENT)
        c['taken'] = And(g['taken'] == g['enq'] + b2i(g['la'] == 2), Implies(g['la'] == 2, g['la_msg'] == g['enq']), g['la'] >= 0, g['la'] <= 3)
        c['started'] = And(g['started'] == g['head'] - b2i(pR >= 3), g['started'] >= 0, g['done_cb'] >= 0, g['done_cb'] <= g['started'])
        c['identity_callbacks'] = ForAll([k_], Implies(And(0 <= k_, k_ < g['started']), g['cb_msg'][k_] == k_))
        c['fetched'] = g['fetched'] == g['enq']
        d = g['acqP'] - g['relP'] - g['enq']
        c['P_locs'] = And(Or(pP == 0, pP == 1, pP == 2, pP == 9),
                          Implies(pP == 2, d == 1), Implies(pP == 1, d == 0),
                          Implies(pP == 9, And(d <= 0, d >= -1, g['la'] != 1, g['sp'] + d >= 0)),
                          Implies(pP == 0, And(g['acqP'] == 0, g['relP'] == 0, g['enq'] == 0, g['la'] == 0, g['taken'] == 0)))
        c['qdone'] = g['qdone'] == (pP == 9)
        c['R_locs'] = And(Or(pR == 0, pR == 1, pR == 2, pR == 3, pR == 9),
                          Implies(pR == 0, And(g['relR'] == 0, g['acqR'] == 0, g['head'] == 0)),
                          Implies(pR == 1, And(hasA, g['relR'] == g['head'], g['acqR'] == g['head'])),
                          Implies(pR >= 2, And(g['relR'] == g['head'] + b2i(pR == 2), g['acqR'] == If(hasA, g['relR'], 0))),
                          Implies(pR >= 3, And(g['qdone'], g['head'] == g['tail'])))
        c['stop'] = And(Implies(g['fin'], g['extra'] + b2i(g['la'] == 1) <= 1), Implies(Not(g['fin']), g['extra'] == 0), g['extra'] >= 0)
        c['waited'] = Implies(pR == 9, Or(live == 0, And(hasT, g['tmo'])))
        c['quota'] = Implies(N > 0, And(g['fetched'] <= N, Implies(g['fetched'] >= N, g['la'] == 0), Implies(pP == 2, g['fetched'] < N), g['taken'] <= N))
        c['no_stranded'] = Implies(pP == 9, g['la'] != 2)
        c['la_alive'] = Implies(And(Or(pP == 1, pP == 2), Not(And(N > 0, g['fetched'] >= N))), g['la'] != 0)
        return c
    CONJ_PROPS = {'quota': ['C01', 'C05'], 'no_stranded': ['C01', 'C05'], 'la_alive': ['C01', 'C05'], 'stop': ['C05'], 'waited': ['C05'],
                  'sem_law_slots': ['C03', 'C04'], 'sem_law_prefetch': ['C04'], 'identity_queue': ['C01'], 'identity_callbacks': ['C01'], 'sentinel_last': ['C01', 'C05']}
    CONJ_TEXT = {'quota': "with max_tasks_to_execute = N at most N messages are taken and no look-ahead is started once the quota is reached",
                 'no_stranded': "when the prefetcher exits no fetched message is left un-enqueued (nothing taken is dropped)",
                 'la_alive': "while prefetching a look-ahead fetch exists unless the quota is reached", 'stop': "after stop at most one further message is taken",
                 'waited': "the runner returns only when no callback is live or wait_tasks_timeout elapsed", 'sem_law_slots': "execution-slot semaphore law (A - acquired + released by done-callbacks)",
                 'sem_law_prefetch': "prefetch semaphore law (P - acquired + released)", 'identity_queue': "the j-th enqueued message is the j-th taken message",
                 'identity_callbacks': "the k-th callback task received the k-th message", 'sentinel_last': "the sentinel is the last queue item",
                 'taken': "taken = enqueued + [finished, unconsumed look-ahead]", 'started': "one callback task per dequeued message", 'queue': "FIFO queue view well-formed",
                 'fetched': "fetched_tasks counts the enqueued messages", 'P_locs': "prefetcher location assertions (permit held exactly at the poll)", 'R_locs': "runner location assertions",
                 'qdone': "sentinel enqueued iff the prefetcher exited", 'cfg': "configuration"}
    def PROPS_(g):
        live = g['started'] - g['done_cb']; qlen = g['enq'] - g['started']
        return {
         'unfinished (look-ahead + queued + running) <= A + P + 1  [C04]': Implies(hasA, b2i(g['la'] == 2) + qlen + live <= A + P + 1),
         'running callbacks <= max_async_tasks  [C03]': Implies(hasA, live <= A),
         'no slot leak: all callbacks done => all A permits are free or held by the runner  [C03]': Implies(And(hasA, live == 0), g['sa'] + b2i(g['acqR'] > g['started']) == A),
         'nothing stranded at prefetcher exit  [C01/C05]': Implies(g['pcP'] == 9, g['la'] != 2),
         'every taken message has its own callback task at runner exit  [C01/C05]': Implies(And(g['pcR'] >= 3, g['pcP'] == 9), And(g['started'] == g['taken'], ForAll([k_], Implies(And(0 <= k_, k_ < g['taken']), g['cb_msg'][k_] == k_)))),
         'at most one further message is taken after stop  [C05]': g['extra'] <= 1,
         'accepts at most N = max_tasks_to_execute  [C05/C01]': Implies(N > 0, g['taken'] <= N),
         'returns only when drained or wait_tasks_timeout elapsed  [C05]': Implies(g['pcR'] == 9, Or(live == 0, And(hasT, g['tmo']))),
         'limit 1 => strictly one at a time, in delivery order  [C03]': Implies(And(hasA, A == 1), And(live <= 1, ForAll([k_], Implies(And(0 <= k_, k_ < g['started']), g['cb_msg'][k_] == k_)))),
        }
    segments = []; conts = {}; nested = {}; task_coro = {}
    payload_equals_sentinel = Function('payload_equals_sentinel_bytes', IntSort(), BoolSort())
    class OG(Exec):
        def __init__(self, thread, handlers): super().__init__(handlers); self.thread = thread
        def setpc(self, st, label): st.ghost = dict(st.ghost); st.ghost['pc' + self.thread] = IntVal(PC[self.thread][label])
        def suspend(self, st, label, guard, effect, k):
            if label not in PC[self.thread]: raise Unsupported(f"unexpected suspension point {label} in thread {self.thread}")
            self.setpc(st, label); segments.append((self.thread, self.cur_from, self.cur_pre, list(st.pc), list(st.facts), dict(st.ghost), label))
            conts.setdefault((self.thread, label), (guard, effect, k, dict(st.env)))
        def finish(self, st):
            self.setpc(st, 'done'); segments.append((self.thread, self.cur_from, self.cur_pre, list(st.pc), list(st.facts), dict(st.ghost), 'done'))
    # ---- asyncio primitive contracts (trusted model); thread-tagged ghost counters
    def h_sp_acquire(ex, st, e, recv, args, kw, k, K):
        if ex.thread != 'P': raise Unsupported("sem_prefetch.acquire outside the prefetcher")
        def eff(s): g = G(s); setG(s, sp=g['sp'] - 1, acqP=g['acqP'] + 1)
        return k(st, Tok(lambda s, k2, K2: ex.suspend(s, 'self.sem_prefetch.acquire', lambda x: G(x)['sp'] > 0, eff, lambda x: k2(x, None))))
    def h_sp_release(ex, st, e, recv, args, kw, k, K):
        g = G(st)
        if ex.thread == 'E': oblige(st, "task_cb/frame: the done-callback does not touch the prefetch semaphore  [C04]", BoolVal(False), props=['C04']); return k(st, None)
        setG(st, sp=g['sp'] + 1, **({'relP': g['relP'] + 1} if ex.thread == 'P' else {'relR': g['relR'] + 1})); return k(st, None)
    def h_sa_acquire(ex, st, e, recv, args, kw, k, K):
        if ex.thread != 'R': raise Unsupported("sem.acquire outside the runner")
        def eff(s): g = G(s); setG(s, sa=g['sa'] - 1, acqR=g['acqR'] + 1)
        return k(st, Tok(lambda s, k2, K2: ex.suspend(s, 'self.sem.acquire', lambda x: G(x)['sa'] > 0, eff, lambda x: k2(x, None))))
    def h_sa_release(ex, st, e, recv, args, kw, k, K):
        g = G(st)
        if ex.thread != 'E': oblige(st, "slots: an execution slot is released only by the done-callback of a callback task  [C03]", BoolVal(False), props=['C03'], witness=wit(g), replay=RP)
        setG(st, sa=g['sa'] + 1, cb_released=g.get('cb_released', IntVal(0)) + 1); return k(st, None)
    def h_listen(ex, st, e, recv, args, kw, k, K): return k(st, 'ITER')
    def h_anext(ex, st, e, recv, args, kw, k, K): return k(st, 'CORO_ANEXT')
    def h_create_task(ex, st, e, recv, args, kw, k, K):
        g = G(st)
        if args and args[0] == 'CORO_ANEXT':
            oblige(st, "prefetcher/pre@create_task(__anext__): the previous look-ahead was consumed or cancelled (single look-ahead)  [C04/C01]", g['la'] == 0, props=['C04', 'C01'], witness=wit(g), replay=RP)
            setG(st, la=IntVal(1)); return k(st, 'HANDLE_LA')
        if args and isinstance(args[0], tuple) and args[0][0] == 'CORO_NESTED':
            # a local wrapper coroutine around self.callback: its REAL body is executed as the end of the callback task (environment action callback_done)
            _, nm, nargs, nkw = args[0]; fd = nested[nm]
            calls = [c for c in ast.walk(fd) if isinstance(c, ast.Call) and ast.unparse(c.func) == 'self.callback']
            params = [a_.arg for a_ in fd.args.args]
            if len(calls) != 1 or not params or len(nargs) != 1 or not isinstance(nargs[0], PyInt): raise Unsupported(f"wrapper coroutine {nm}: expected exactly one self.callback(...) call on its single message parameter")
            mk = [kw_ for kw_ in calls[0].keywords if kw_.arg == 'message']
            if not mk or ast.unparse(mk[0].value) != params[0]: raise Unsupported(f"wrapper coroutine {nm}: self.callback is not called with the wrapper's own message")
            rk = [kw_ for kw_ in calls[0].keywords if kw_.arg == 'raise_err']
            task_coro['wrapper'] = fd
            args = [('CORO_CALLBACK', nargs[0].e, ast.literal_eval(rk[0].value) if rk and isinstance(rk[0].value, ast.Constant) else False)]
        if not (args and isinstance(args[0], tuple) and args[0][0] == 'CORO_CALLBACK'): raise Unsupported("create_task of " + ast.unparse(e))
        kind, msg, raise_err = args[0]
        oblige(st, "runner/create_task(callback): the worker's own call passes raise_err=False  [C03/C07]", BoolVal(raise_err is False), props=['C03', 'C07'])
        setG(st, cb_msg=Store(g['cb_msg'], g['started'], msg), started=g['started'] + 1, cb_pending_attach=IntVal(1)); return k(st, 'HANDLE_CB')
    def h_callback(ex, st, e, recv, args, kw, k, K):
        if 'message' not in kw: raise Unsupported("self.callback call shape")
        m = kw['message']
        return k(st, ('CORO_CALLBACK', m.e if isinstance(m, PyInt) else Val.i(to_val(m)), kw.get('raise_err', False)))
    def h_add_done_callback(ex, st, e, recv, args, kw, k, K):
        g = G(st)
        ok = len(args) == 1 and isinstance(args[0], PyCallable) and args[0].name == TCB and recv == 'HANDLE_CB'
        oblige(st, "runner/add_done_callback: task_cb is attached to the callback task just created  [C03]", And(BoolVal(ok), g['cb_pending_attach'] == 1), props=['C03'], witness=wit(g), replay=RP)
        setG(st, cb_pending_attach=IntVal(0)); return k(st, None)
    def h_is_set(ex, st, e, recv, args, kw, k, K): return k(st, PyBool(G(st)['fin']))
    def h_wait(ex, st, e, recv, args, kw, k, K):
        if ex.thread == 'P':
            if not (args and args[0] == 'SET_LA'): raise Unsupported("prefetcher waits on something other than {current_message}")
            to = kw.get('timeout')
            oblige(st, "prefetcher/poll: the wait for the look-ahead has a finite timeout (so the stop event is polled)  [C05]", BoolVal(to is not None and not (is_expr(to) and False)), props=['C05'])
            return k(st, Tok(lambda s, k2, K2: ex.suspend(s, 'asyncio.wait', lambda x: BoolVal(True), lambda x: None, lambda x: k2(x, PyTuple([PyBool(Or(G(x)['la'] == 2, G(x)['la'] == 3)), None])))))
        tk = [x for x in e.keywords if x.arg == 'timeout']
        oblige(st, "runner/drain: waits for the live callback tasks with timeout=self.wait_tasks_timeout  [C05]",
               BoolVal(bool(tk) and ast.unparse(tk[0].value) == 'self.wait_tasks_timeout' and len(e.args) == 1 and ast.unparse(e.args[0]) == TASKS), props=['C05'])
        if not (args and isinstance(args[0], PyBool)): raise Unsupported("runner waits on something other than the set of live callback tasks")
        rw = [x for x in e.keywords if x.arg == 'return_when']
        all_completed = not rw or ast.unparse(rw[0].value) in ('asyncio.ALL_COMPLETED', 'ALL_COMPLETED')
        # contract of asyncio.wait: with the default ALL_COMPLETED it resumes when every task is done (or on timeout); with FIRST_COMPLETED / FIRST_EXCEPTION it may resume as soon as one task ended
        guard = (lambda x: Or(G(x)['started'] - G(x)['done_cb'] == 0, And(hasT, G(x)['tmo']))) if all_completed else (lambda x: BoolVal(True))
        return k(st, Tok(lambda s, k2, K2: ex.suspend(s, 'asyncio.wait', guard, lambda x: None, lambda x: k2(x, PyTuple([fresh('done_set'), fresh('pending_set')])))))
    def h_result(ex, st, e, recv, args, kw, k, K):
        g = G(st)
        if ex.thread == 'E':          # inside the done-callback, on the finished handler task: Task.result() re-raises whatever the handler raised (hooks/ack/backend are user code)
            if recv != 'HANDLE_CB': raise Unsupported("result() of " + ast.unparse(e.func.value) + " in the done-callback")
            ok = st.fork(); k(ok, None)
            f = st.fork(); return K['exc'](f, raise_any(f, 'BaseException'))
        oblige(st, "prefetcher/pre@current_message.result(): the look-ahead task is done  [C01]", Or(g['la'] == 2, g['la'] == 3), props=['C01'], witness=wit(g), replay=RP)
        ok = st.fork(); ok.pc.append(g['la'] == 2)
        if ex.feasible(ok): setG(ok, la=IntVal(0)); k(ok, PyInt(g['la_msg']))
        end = st.fork(); end.pc.append(g['la'] == 3)          # the broker's listen() stream ended: Task.result() re-raises StopAsyncIteration
        if ex.feasible(end): K['exc'](end, new_exc(end, 'StopAsyncIteration'))
    def h_done(ex, st, e, recv, args, kw, k, K):          # Task.done() of the look-ahead fetch: it finished (a message was delivered, or the stream ended)
        if ex.thread != 'P': raise Unsupported("done() of " + ast.unparse(e.func.value) + " outside the prefetcher")
        g = G(st); return k(st, PyBool(Or(g['la'] == 2, g['la'] == 3)))
    def h_exception(ex, st, e, recv, args, kw, k, K):          # Task.exception() of the finished handler task: None or the exception it raised; for a task that ended CANCELLED it raises CancelledError
        if ex.thread != 'E' or recv != 'HANDLE_CB': raise Unsupported("exception() of " + ast.unparse(e.func.value))
        c = G(st).get('cb_cancelled', BoolVal(False))
        ok = st.fork(); ok.pc.append(Not(c))
        if ex.feasible(ok): k(ok, fresh('handler_exception'))
        f = st.fork(); f.pc.append(c)
        if ex.feasible(f): K['exc'](f, new_exc(f, 'CancelledError'))
    def h_cancelled(ex, st, e, recv, args, kw, k, K):
        if ex.thread != 'E' or recv != 'HANDLE_CB': raise Unsupported("cancelled() of " + ast.unparse(e.func.value))
        return k(st, PyBool(G(st).get('cb_cancelled', BoolVal(False))))
    def h_cancel(ex, st, e, recv, args, kw, k, K): g = G(st); setG(st, la=If(g['la'] == 1, 0, g['la'])); return k(st, None)
    def h_put(ex, st, e, recv, args, kw, k, K):
        v = args[0]
        if not isinstance(v, PyInt): raise Unsupported("queue.put of a value that is neither a fetched message nor QUEUE_DONE")
        is_sentinel = is_int_value(v.e) and v.e.as_long() == SENT
        def eff(s, k2, K2):          # unbounded queue: put never suspends (maxsize 0 is an obligation on listen()); the effect happens at the await
            g = G(s)
            oblige(s, "prefetcher/pre@queue.put: nothing is enqueued after the sentinel  [C01/C05]", Not(g['qdone']), props=['C01', 'C05'], witness=wit(g), replay=RP)
            if not is_sentinel: setG(s, hist=Store(g['hist'], g['tail'], v.e), tail=g['tail'] + 1, enq=g['enq'] + 1)
            else: setG(s, hist=Store(g['hist'], g['tail'], IntVal(SENT)), tail=g['tail'] + 1, qdone=BoolVal(True))
            return k2(s, None)
        if e.func.attr == 'put_nowait':          # same effect, immediately; on the unbounded queue (obligation on listen()) it cannot raise QueueFull
            out = []; eff(st, lambda s, v: out.append(s), K)
            return k(out[0], None)
        return k(st, Tok(eff))
    def h_get(ex, st, e, recv, args, kw, k, K):
        def eff(s): g = G(s); s.env = dict(s.env); s.env['__got'] = g['hist'][g['head']]; setG(s, head=g['head'] + 1)
        return k(st, Tok(lambda s, k2, K2: ex.suspend(s, 'queue.get', lambda x: G(x)['head'] < G(x)['tail'], eff, lambda x: k2(x, PyInt(x.env['__got'])))))
    def h_set(ex, st, e, r, a, kw, k, K): return k(st, 'SET')
    class Ex(OG):
        def ev_Attribute(self, e, st, k, K):
            p = ast.unparse(e)
            if p == 'self.max_tasks_to_execute': return k(st, PyInt(N))
            if p == 'self.sem': return k(st, If(hasA, Val.ref(1), Val.none))
            if p in ('self.wait_tasks_timeout',): return k(st, fresh('wtt'))
            return super().ev_Attribute(e, st, k, K)
        def ev_Name(self, e, st, k, K):
            if e.id == 'QUEUE_DONE': return k(st, PyInt(IntVal(SENT)))
            if e.id == TASKS: return k(st, PyBool(G(st)['started'] - G(st)['done_cb'] > 0))
            if e.id == TCB: return k(st, PyCallable(TCB))
            return super().ev_Name(e, st, k, K)
        def ev_Set(self, e, st, k, K):
            if len(e.elts) == 1 and isinstance(e.elts[0], ast.Name) and st.env.get(e.elts[0].id) == 'HANDLE_LA': return k(st, 'SET_LA')
            return k(st, 'SET')
        def compare(self, op, l, r, st):
            if isinstance(op, (ast.Is, ast.IsNot)) and isinstance(l, PyInt) and isinstance(r, PyInt):
                return (l.e == r.e) if isinstance(op, ast.Is) else (l.e != r.e)
            if isinstance(op, (ast.Eq, ast.NotEq)) and isinstance(l, PyInt) and isinstance(r, PyInt):
                # == compares by VALUE: a broker message whose payload equals the sentinel's bytes is equal to it without being it
                def is_sent(x): return is_int_value(simplify(x.e)) and simplify(x.e).as_long() == SENT
                eq = l.e == r.e
                if is_sent(r): eq = Or(eq, And(l.e >= 0, payload_equals_sentinel(l.e)))
                elif is_sent(l): eq = Or(eq, And(r.e >= 0, payload_equals_sentinel(r.e)))
                return eq if isinstance(op, ast.Eq) else Not(eq)
            return super().compare(op, l, r, st)
        def st_While(self, s, st, k, K):
            if s.orelse: raise Unsupported("while/else in the receiver protocol")
            depth = [0]
            def loop(st2):
                depth[0] += 1
                if depth[0] > 60: raise Unsupported("a cycle of the receiver loop passes no suspending await (segment extraction does not terminate)")
                K2 = dict(K); K2['brk'] = k; K2['cont'] = loop
                def body(s3): return self.block(s.body, s3, loop, K2)
                if ast.unparse(s.test) == 'True': r = body(st2)
                else: r = self.ev(s.test, st2, lambda s3, v: self.branch(s3, truthy(v), body, k), K)          # `while cond:` == `while True: if not cond: break`
                depth[0] -= 1; return r
            return loop(st)
        def st_FunctionDef(self, s, st, k, K): nested[s.name] = s; return k(st)
        def st_AsyncFunctionDef(self, s, st, k, K): nested[s.name] = s; return k(st)
        def st_For(self, s, st, k, K):
            # loops that only log / inspect finished tasks: allowed when the body touches none of the protocol's primitives
            txt = ast.unparse(s)
            if any(w in txt for w in ('self.sem', 'queue.', 'create_task', 'self.callback', 'finish_event', '.cancel()', 'break', 'return', 'await ')): raise Unsupported("for loop touching the receiver protocol: " + ast.unparse(s.iter))
            return k(st)
        def find_handler(self, name, recv=None):
            if name in nested and name != TCB:
                def h_nested(ex_, st_, e, r_, args, kw, k, K): return k(st_, ('CORO_NESTED', name, args, kw))
                return h_nested
            return super().find_handler(name, recv)
        def _st_Try_raw(self, s, st, k, K):
            # exception edges are explored through the class lattice: StopAsyncIteration (stream end) is raised by the result() contract;
            # CancelledError (external cancellation of listen()) is raised by no contract here: outside the graceful-stop properties (TRUSTED)
            return Exec._st_Try_raw(self, s, st, k, K)
        def st_AugAssign(self, s, st, k, K):
            def done(s2):
                if ast.unparse(s.target) == FETCHED: setG(s2, fetched=self.as_int(s2.env[FETCHED]))
                return k(s2)
            return super().st_AugAssign(s, st, done, K)
    H = {'logger.*': noop, 'self.broker.listen': h_listen, '*.__anext__': h_anext, 'asyncio.create_task': h_create_task, 'self.callback': h_callback, '*.is_set': h_is_set,
         'self.sem_prefetch.acquire': h_sp_acquire, 'self.sem_prefetch.release': h_sp_release, 'self.sem.acquire': h_sa_acquire, 'self.sem.release': h_sa_release, 'asyncio.wait': h_wait,
         '*.result': h_result, '*.done': h_done, '*.exception': h_exception, '*.cancelled': h_cancelled, '*.cancel': h_cancel, 'queue.put': h_put, 'queue.put_nowait': h_put, 'queue.get': h_get, '*.add': noop, '*.add_done_callback': h_add_done_callback,
         '*.discard': noop, 'len': noop, 'set': h_set}

    # ---------------- Receiver.__init__: the semaphores are built from the configured limits  [C03/C04]
    init_vals = {}
    def run_init():
        maxA = Const('max_async_tasks', Val); maxP = Int('max_prefetch')
        def h_sem(ex, st, e, recv, args, kw, k, K):
            a = alloc(st); st.heap.fld['sem_value'] = Store(st.heap.field('sem_value'), a, to_val(args[0]) if args else Val.intv(1)); return k(st, PyObj(a, 'Semaphore'))
        class ExI(Exec):
            def st_For(self, s, st, k, K): return k(st)           # the task-preparation loop does not touch the semaphores (frame: checked below)
        exi = ExI({'logger.*': noop, 'asyncio.Semaphore': h_sem, 'set': lambda ex, st, e, r, a, kw, k, K: k(st, fresh('set'))})
        exi.ev_Dict = lambda e, st, k, K: k(st, fresh('dict'))
        st = State(); self_a = Int('self_a'); st.pc += [self_a >= 0, st.heap.next > self_a, Or(maxA == Val.none, Val.is_intv(maxA)), maxP >= 0]
        st.env = {'self': PyObj(self_a), 'max_async_tasks': maxA, 'max_prefetch': PyInt(maxP)}
        for a in FN['__init__'].args.args[1:]:
            if a.arg not in st.env: st.env[a.arg] = fresh(a.arg)
        loops = [n for n in ast.walk(FN['__init__']) if isinstance(n, ast.For)]
        for lp in loops:
            if 'sem' in ast.unparse(lp): raise Unsupported("Receiver.__init__: a loop touches the semaphores")
        def on_ret(s, v):
            h = s.heap; sem = h.field('sem')[self_a]; semp = h.field('sem_prefetch')[self_a]
            lim = And(Val.is_intv(maxA), Val.i(maxA) > 0)
            oblige(s, "__init__/post: self.sem is a semaphore with max_async_tasks permits iff that limit is a positive int, else None  [C03/C04]",
                   If(lim, And(Val.is_ref(sem), h.field('sem_value')[Val.a(sem)] == maxA), sem == Val.none), props=['C03', 'C04'], witness={'max_async_tasks': maxA, 'max_prefetch': maxP}, replay=RP)
            oblige(s, "__init__/post: self.sem_prefetch is a semaphore with max_prefetch permits  [C04]",
                   And(Val.is_ref(semp), h.field('sem_value')[Val.a(semp)] == Val.intv(maxP), semp != sem), props=['C04'], witness={'max_async_tasks': maxA, 'max_prefetch': maxP}, replay=RP)
            reach(s, "__init__/reach@return")
        exi.run(FN['__init__'], st, on_ret, lambda s, x: oblige(s, "__init__/raises: nothing  [C03]", BoolVal(False), props=['C03']))
    run_init()
    # ---------------- Receiver.listen: one unbounded queue, one prefetcher, one runner, returns after both  [C01/C05]
    def run_listen():
        started = []
        def h_queue(ex, st, e, recv, args, kw, k, K):
            oblige(st, "listen/queue: the hand-over queue is unbounded (asyncio.Queue() with no maxsize), so put() never suspends  [C05/C04]", BoolVal(not e.args and not e.keywords), props=['C04', 'C05'])
            return k(st, 'QUEUE')
        def h_start_soon(ex, st, e, recv, args, kw, k, K):
            started.append([ast.unparse(a) for a in e.args]); return k(st, None)
        class ExL(Exec):
            def st_AsyncWith(self, s, st, k, K):
                if len(s.items) != 1 or ast.unparse(s.items[0].context_expr) != 'anyio.create_task_group()': raise Unsupported("listen(): async with " + ast.unparse(s.items[0].context_expr))
                st.env = dict(st.env); st.env[s.items[0].optional_vars.id] = 'GROUP'
                return self.block(s.body, st, lambda s2: k(s2), K)
        exl = ExL({'logger.*': noop, 'asyncio.Queue': h_queue, '*.start_soon': h_start_soon, 'self.broker.startup': lambda ex, st, e, r, a, kw, k, K: k(st, Tok(lambda s, k2, K2: k2(s, None))),
                   'self.on_exit': noop})
        exl.ev_Attribute = (lambda orig: (lambda e, st, k, K: k(st, fresh('attr')) if ast.unparse(e) in ('self.run_startup', 'self.on_exit') else k(st, PyCallable(ast.unparse(e)))))(exl.ev_Attribute)
        st = State(); st.env = {'self': PyObj(Int('self_a')), 'finish_event': 'EVENT'}
        def on_ret(s, v):
            oblige(s, "listen/post: exactly one prefetcher(queue, finish_event) and one runner(queue) are started on the same queue  [C01/C05]",
                   BoolVal(sorted(started) == sorted([['self.prefetcher', 'queue', 'finish_event'], ['self.runner', 'queue']])), props=['C01', 'C05'])
            reach(s, "listen/reach@return")
        started.clear(); paths = []
        exl.run(FN['listen'], st, lambda s, v: paths.append((s, list(started))) or started.clear(), lambda s, x: None)
        for s, stt in paths[:1]:
            started[:] = stt; on_ret(s, None)
    run_listen()

    # ---------------- segments of prefetcher / runner
    def init_ghost():
        g = {v: IntVal(0) for v in INTS}; g.update({b: BoolVal(False) for b in BOOLS}); g.update(hist=K(IntSort(), IntVal(0)), cb_msg=K(IntSort(), IntVal(0)))
        g['sp'] = P; g['sa'] = If(hasA, A, 0); g['cb_pending_attach'] = IntVal(0); return g           # established by the __init__ obligations above (A = max_async_tasks, P = max_prefetch)
    base = [A >= 1, P >= 0, N >= 0]
    def run_thread(thread, fname):
        ex = Ex(thread, H); ex.inline_scope = (src, REL, 'Receiver'); f = FN[fname]
        st = State(); st.ghost = init_ghost(); st.env = {'self': PyObj(Int('self_a')), 'queue': 'QUEUE', 'finish_event': 'EVENT'}
        ex.cur_from = 'entry'; ex.cur_pre = None
        def escapes(s, x): oblige(s, f"{fname}/raises: no exception escapes the coroutine (a stream end must still hand over the sentinel; an escaping error would tear down listen())  [C01/C05]", BoolVal(False), props=['C01', 'C05'], witness=wit(G(s)), replay=RP)
        ex.block(f.body, st, ex.finish, {'ret': lambda s, v: ex.finish(s), 'exc': escapes})
        done = set()
        while True:
            todo = [kk for kk in conts if kk[0] == thread and kk not in done]
            if not todo: break
            key = todo[0]; done.add(key); guard, effect, k, env = conts[key]
            pre = symstate(f"_{thread}{len(done)}"); st = State(); st.ghost = dict(pre); st.ghost['cb_pending_attach'] = IntVal(0); st.env = dict(env)
            if thread == 'P':
                if FETCHED not in st.env: raise Unsupported("prefetcher: the hand-over counter is not bound at this cut point")
                st.env[FETCHED] = PyInt(pre['fetched'])
            st.pc.append(pre['pc' + thread] == PC[thread][key[1]]); st.pc += base
            for c in Inv(pre).values(): (st.facts if is_quantifier(c) else st.pc).append(c)
            st.pc.append(guard(st)); effect(st)
            ex.cur_from = key[1]; ex.cur_pre = pre; k(st)
        return ex
    run_thread('P', 'prefetcher'); run_thread('R', 'runner')
    # environment actions; task_cb's REAL body is executed for the done-callback
    def env_actions():
        out = []
        for name in ('deliver', 'stream_end', 'stop', 'timer', 'callback_done'):
            pre = symstate('_e' + name); post = dict(pre); pc = []
            if name == 'deliver': pc = [pre['la'] == 1]; post.update(la=IntVal(2), la_msg=pre['taken'], taken=pre['taken'] + 1, extra=pre['extra'] + b2i(pre['fin']))
            if name == 'stream_end': pc = [pre['la'] == 1]; post.update(la=IntVal(3))          # broker.listen() finished: the pending __anext__ ends with StopAsyncIteration, no message taken
            if name == 'stop': post['fin'] = BoolVal(True)
            if name == 'timer': post['tmo'] = BoolVal(True)
            if name == 'callback_done':
                pc = [pre['started'] - pre['done_cb'] > 0]
                ex = Ex('E', H); st = State(); st.ghost = dict(pre); st.ghost['cb_released'] = IntVal(0); st.env = {'self': PyObj(Int('self_a')), 'task': 'HANDLE_CB'}; res = []
                ends = [st]
                if 'wrapper' in task_coro:          # the callback task's own code after self.callback(...) returned or raised: the REAL wrapper body
                    fd = task_coro['wrapper']; ends = []
                    def h_cb_abstract(ex_, st_, e, r_, a_, kw_, k, K):
                        def eff(s2, k2, K2):
                            ok = s2.fork(); k2(ok, None)
                            f = s2.fork(); K2['exc'](f, raise_any(f, 'BaseException'))        # hooks / ack / backend are user code
                        return k(st_, Tok(eff))
                    exw = Ex('E', {**H, 'self.callback': h_cb_abstract}); stw = st.fork(); stw.env = dict(stw.env); stw.env[fd.args.args[0].arg] = PyInt(fresh('msg', IntSort()))
                    exw.block(fd.body, stw, lambda s: ends.append(s), {'ret': lambda s, v: ends.append(s), 'exc': lambda s, x: ends.append(s)})
                for st_end in ends:
                    st_end.env = {'self': PyObj(Int('self_a')), 'task': 'HANDLE_CB'}; setG(st_end, cb_cancelled=fresh('handler_task_ended_cancelled', BoolSort()))
                    ex.block(TASK_CB.body, st_end, lambda s: res.append(s), {'ret': lambda s, v: res.append(s),
                             'exc': lambda s, x: oblige(s, "task_cb/raises: the done-callback never raises (an exception there skips the release of the execution slot)  [C03]", BoolVal(False), props=['C03'], witness=wit(pre), replay=RP)})
                for s in res:
                    g = dict(s.ghost); g.pop('cb_cancelled', None); g['done_cb'] = g['done_cb'] + 1
                    oblige(s, "task_cb/post: releases exactly one execution slot iff a limit is set  [C03]", g['cb_released'] == If(hasA, 1, 0), props=['C03'], witness=wit(pre), replay=RP)
                    out.append(('E', name, pre, pc + list(s.pc), [], g, name))
                continue
            out.append(('E', name, pre, pc, [], post, name))
        return out
    allseg = segments + env_actions()
    def add(name, hyps, facts, goal, props, w, ap=()):
        OBL.append(Obl(name, props, hyps + facts, goal, w, 'goal', RP, approx=ap))
    for (t, frm, pre, pc, facts, post, to) in allseg:
        hyp = list(base) + list(pc); fx = list(facts)
        if pre is not None:
            for c in Inv(pre).values(): (fx if is_quantifier(c) else hyp).append(c)
        tn = {'P': 'prefetcher', 'R': 'runner', 'E': 'env'}[t]
        ap = tuple(post.get('__approx', ())) if isinstance(post, dict) else ()          # the segment was executed past code without a contract (core.approx): its refutations are undecided
        for cn, c in Inv(post).items():
            add(f"OG/{tn}:{frm}->{to}/{cn}: {CONJ_TEXT.get(cn, cn)}", hyp, fx, c, CONJ_PROPS.get(cn, PROPS), wit(pre) if pre is not None else {'A': A, 'P': P, 'N': N, 'hasA': hasA}, ap)
        if t != 'E' and 'cb_pending_attach' in post:
            add(f"OG/{tn}:{frm}->{to}/done-callback attached before the next suspension  [C03]", hyp, fx, post['cb_pending_attach'] == 0, ['C03'], wit(pre) if pre is not None else {}, ap)
    g = symstate('_p'); hyp = list(base); fx = []
    for c in Inv(g).values(): (fx if is_quantifier(c) else hyp).append(c)
    for pn, pr in PROPS_(g).items(): OBL.append(Obl("PROP/" + pn, [p for grp in re.findall(r"\[(C\d\d(?:/C\d\d)*)\]", pn) for p in grp.split('/')], hyp + fx, pr, wit(g), 'goal', RP))
    OBL.append(Obl("OG/reach@invariant", PROPS, hyp, BoolVal(False), {}, 'mustfail'))
    # stuck-state obligations from the registered resume guards
    def enabled(thread, g):
        st = State(); st.ghost = g
        return Or(*[And(g['pc' + thread] == PC[thread][lab], conts[(thread, lab)][0](st)) for (th, lab) in conts if th == thread])
    live = g['started'] - g['done_cb']
    OBL.append(Obl("STUCK/while running: the prefetcher or the runner can move, or a callback is running (the worker keeps making progress while the broker has messages)  [C03]", ['C03'],
                   hyp + [Not(g['fin']), g['pcP'] != 9, g['pcR'] <= 2, g['pcP'] != 0, g['pcR'] != 0] + fx, Or(enabled('P', g), enabled('R', g), live > 0), wit(g), 'goal', RP))
    OBL.append(Obl("STUCK/after stop with a wait_tasks_timeout: prefetcher, runner or the timer can make progress without any callback finishing  [C05]", ['C05'],
                   hyp + [g['fin'], hasT, g['pcR'] != 9, g['pcP'] != 0, g['pcR'] != 0] + fx, Or(enabled('P', g), enabled('R', g)), wit(g), 'goal', RP))
    segc = collections.Counter((t, f, to) for t, f, _, _, _, _, to in segments)
    for t, fname in (('P', 'prefetcher'), ('R', 'runner')): src.note_paths('::Receiver.' + fname, sum(v for (tt, _, _), v in segc.items() if tt == t))
    return {'segments': {f"{t}:{f}->{to}": v for (t, f, to), v in segc.items()}, 'cut_points': [f"{t}:{l}" for (t, l) in conts]}
import re
