"""Run one verification unit: generate the VCs from the real source, discharge them, print a JSON report.

  python3-vt -m pyvc.unit <unit> [--out FILE] [--edit 'old=>new']... [--timeout MS]

Exit status: 0 report written (whatever the verdicts), 2 unsupported construct (UNDECIDED), 3 engine crash."""
import sys, os, json, time, importlib, traceback, argparse
sys.setrecursionlimit(100000)
sys.path.insert(0, os.path.dirname(os.path.dirname(os.path.abspath(__file__))))
from pyvc import core


def main():
    ap = argparse.ArgumentParser()
    ap.add_argument('unit'); ap.add_argument('--out'); ap.add_argument('--edit', action='append', default=[])
    ap.add_argument('--timeout', type=int, default=int(os.environ.get('PYVC_TIMEOUT_MS', '10000'))); ap.add_argument('--procs', type=int, default=int(os.environ.get('PYVC_PROCS', '16')))
    ap.add_argument('-v', action='store_true')
    a = ap.parse_args()
    t0 = time.time()
    rep = {'unit': a.unit, 'repo': core.REPO, 'status': 'ok'}
    try:
        mod = importlib.import_module('specs.' + a.unit)
        core.DEFAULT_PROPS[:] = list(getattr(mod, 'PROPS', []))
        if getattr(mod, 'REPLAY', None): core.DEFAULT_REPLAY['replay'] = dict(mod.REPLAY)
        src = core.Source(edits=[tuple(e.split('=>', 1)) for e in a.edit])
        core.register_repo_classes(src)
        try:
            info = mod.generate(src) or {}
        except core.Unsupported: raise
        except (KeyError, AttributeError, IndexError, AssertionError, TypeError, StopIteration, core.Z3Exception) as ex:
            # the contract could not be bound to the code as it is written now (a renamed local, a changed call shape, ...): UNDECIDED, never a violation
            tb = traceback.extract_tb(ex.__traceback__)
            where = next((f"{os.path.basename(fr.filename)}:{fr.lineno}" for fr in reversed(tb) if '/specs/' in fr.filename), f"{os.path.basename(tb[-1].filename)}:{tb[-1].lineno}")
            raise core.Unsupported(f"contract binding failed at {where}: {type(ex).__name__}: {ex}")
        rep['functions'] = src.functions
        rep['edits_applied'] = [i in src.applied for i in range(len(src.edits))]
        rep['info'] = info
        rep['trusted'] = list(getattr(mod, 'TRUSTED', []))
        rep['dropped'] = list(getattr(mod, 'DROPPED', ['docstrings', 'type annotations', 'logger.* calls (no-ops)']))
        rep['gen_s'] = round(time.time() - t0, 2)
        res = core.discharge(timeout=a.timeout, procs=a.procs, verbose=a.v)
        rep['obligations'] = res
        rep['solver_s'] = round(time.time() - t0 - rep['gen_s'], 2)
    except core.Unsupported as ex:
        rep['status'] = 'unsupported'; rep['error'] = str(ex)
    except Exception as ex:
        tb = traceback.format_exc().splitlines()
        rep['status'] = 'crash'; rep['error'] = f"{type(ex).__name__}: {ex}"; rep['traceback'] = tb[-12:]
    rep['wall_s'] = round(time.time() - t0, 2)
    import z3
    rep['solvers'] = {'z3': z3.get_version_string(), 'cvc5': '/usr/bin/cvc5 (fallback for unknown)'}
    out = json.dumps(rep, indent=1, default=str)
    if a.out: open(a.out, 'w').write(out)
    else: print(out)
    sys.exit({'ok': 0, 'unsupported': 2, 'crash': 3}[rep['status']])


if __name__ == '__main__':
    main()
