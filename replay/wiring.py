"""Native replay for unit `wiring` (C02, C03, C04, C05, C08, C12): the REAL `taskiq worker` option parser and the REAL start_listen are run with a recording
receiver class; the options the receiver is built with are compared with the command line. Run with /venv/bin/python. Prints one JSON line."""
import sys, json, os, types, asyncio, logging, itertools, signal
logging.disable(logging.CRITICAL)

def run(sc):
    import taskiq.cli.worker.run as run_mod
    from taskiq.cli.worker.args import WorkerArgs
    from taskiq import InMemoryBroker
    from taskiq.acks import AcknowledgeType
    mod = types.ModuleType('wiring_replay_broker_module'); mod.broker = InMemoryBroker(); sys.modules[mod.__name__] = mod
    fails = []; n = 0
    saved = {s: signal.getsignal(s) for s in (signal.SIGINT, signal.SIGTERM, signal.SIGHUP)}
    for A, P, noprop, noparse, ack, N, wtt in itertools.product((1, 3, 7), (0, 2), (False, True), (False, True), ('when_received', 'when_executed', 'when_saved'), (None, 5), (None, 2.5)):
        n += 1; got = {}
        class Rec:
            def __init__(self, **kw): got.update(kw)
            async def listen(self, ev=None): return None
        argv = ['wiring_replay_broker_module:broker', '--max-async-tasks', str(A), '--max-prefetch', str(P), '--ack-type', ack]
        if noprop: argv.append('--no-propagate-errors')
        if noparse: argv.append('--no-parse')
        if N is not None: argv += ['--max-tasks-per-child', str(N)]
        if wtt is not None: argv += ['--wait-tasks-timeout', str(wtt)]
        orig = run_mod.get_receiver_type
        try:
            args = WorkerArgs.from_cli(argv)
            run_mod.get_receiver_type = lambda a: Rec
            run_mod.start_listen(args)
        except BaseException as ex:
            fails.append({'key': ' '.join(argv), 'failed_clauses': [f"C04: start_listen failed with {type(ex).__name__}: {str(ex)[:100]}"]}); continue
        finally:
            run_mod.get_receiver_type = orig
            for s, h in saved.items(): signal.signal(s, h)
        want = {'max_async_tasks': (A, 'C03'), 'max_prefetch': (P, 'C04'), 'propagate_exceptions': (not noprop, 'C12'), 'validate_params': (not noparse, 'C08'),
                'ack_type': (AcknowledgeType(ack), 'C02'), 'max_tasks_to_execute': (N, 'C05'), 'wait_tasks_timeout': (wtt, 'C05')}
        pr = []
        for opt, (v, pid) in want.items():
            if opt not in got or got[opt] != v:
                for p_ in ([pid] + (['C04'] if opt == 'max_async_tasks' else [])):
                    pr.append(f"{p_}: `taskiq worker {' '.join(argv[1:])}` builds its receiver with {opt}={got.get(opt, '<missing>')!r}, the command line says {v!r}")
        if pr: fails.append({'key': ' '.join(argv[1:]), 'failed_clauses': pr})
    # the options of the process manager (C17/C18): worker count and failure budget as parsed from the command line
    for W, MF in ((1, -1), (3, 2), (2, 1)):
        n += 1; a_ = WorkerArgs.from_cli(['m:b', '--workers', str(W), '--max-fails', str(MF)])
        pr = []
        if a_.workers != W: pr += [f"{p_}: `taskiq worker --workers {W}` parsed as workers={a_.workers!r}" for p_ in ('C17',)]
        if a_.max_fails != MF: pr += [f"{p_}: `taskiq worker --max-fails {MF}` parsed as max_fails={a_.max_fails!r}" for p_ in ('C18',)]
        if pr: fails.append({'key': f"--workers {W} --max-fails {MF}", 'failed_clauses': pr})
    d_ = WorkerArgs.from_cli(['m:b']); n += 1
    if d_.max_fails >= 1 or d_.workers < 1: fails.append({'key': 'defaults', 'failed_clauses': [f"C18: default command line parsed as workers={d_.workers!r}, max_fails={d_.max_fails!r} (no failure budget is configured by default)"]})
    # the programmatic worker (taskiq.api.run_receiver_task) and the in-memory broker build receivers from options of their own
    import taskiq.api.receiver as api_mod, inspect
    from taskiq.receiver import Receiver as _R
    DEFAULT = {k: v.default for k, v in inspect.signature(_R.__init__).parameters.items()}          # an option that is not passed on takes the receiver's own default
    async def via_api(kw):
        got = {}
        class Rec:
            def __init__(self, **k): got.update(k)
            async def listen(self, ev=None): raise asyncio.CancelledError()
        try: await api_mod.run_receiver_task(InMemoryBroker(), receiver_cls=Rec, **kw)
        except asyncio.CancelledError: pass
        return got
    for A, P, prop, val, ack, SW in itertools.product((1, 4), (0, 3), (True, False), (True, False), (None, AcknowledgeType.WHEN_EXECUTED), (None, 2, 6)):
        n += 1; kw = dict(max_async_tasks=A, max_prefetch=P, propagate_exceptions=prop, validate_params=val, ack_time=ack)
        if SW is not None: kw['sync_workers'] = SW          # the size of the thread pool for sync tasks is a separate option: it must not leak into the limits
        try: got = asyncio.run(via_api(kw))
        except BaseException as ex:
            fails.append({'key': f"run_receiver_task {kw}", 'failed_clauses': [f"C04: run_receiver_task failed with {type(ex).__name__}: {str(ex)[:100]}"]}); continue
        want = {'max_async_tasks': (A, ['C03', 'C04']), 'max_prefetch': (P, ['C04']), 'propagate_exceptions': (prop, ['C12']), 'validate_params': (val, ['C08']), 'ack_type': (ack, ['C02'])}
        pr = [f"{p_}: run_receiver_task({', '.join(f'{k}={v!r}' for k, v in kw.items())}) builds its receiver with {opt}={got.get(opt, '<not passed: the receiver default applies>')!r}"
              for opt, (v, ps) in want.items() if got.get(opt, DEFAULT.get(opt)) != v for p_ in ps]
        if pr: fails.append({'key': f"run_receiver_task {kw}", 'failed_clauses': pr})
    import taskiq.brokers.inmemory_broker as imb
    for A, prop, cast in itertools.product((1, 4), (True, False), (True, False)):
        n += 1; got = {}
        class Rec2:
            def __init__(self, **k): got.update(k)
        orig = imb.Receiver; imb.Receiver = Rec2
        try: imb.InMemoryBroker(max_async_tasks=A, propagate_exceptions=prop, cast_types=cast)
        finally: imb.Receiver = orig
        want = {'max_async_tasks': (A, ['C03', 'C04']), 'propagate_exceptions': (prop, ['C12']), 'validate_params': (cast, ['C08'])}
        pr = [f"{p_}: InMemoryBroker(max_async_tasks={A}, propagate_exceptions={prop}, cast_types={cast}) builds its receiver with {opt}={got.get(opt, '<not passed: the receiver default applies>')!r}"
              for opt, (v, ps) in want.items() if got.get(opt, DEFAULT.get(opt)) != v for p_ in ps]
        if pr: fails.append({'key': f"InMemoryBroker A={A} propagate={prop} cast={cast}", 'failed_clauses': pr})
    # the receiver an InMemoryBroker actually USES, after the life-cycle calls a program makes (startup()): the options given to the broker still hold
    for A, prop, cast in itertools.product((1, 4), (True, False), (True, False)):
        n += 1
        async def life():
            bk = InMemoryBroker(max_async_tasks=A, propagate_exceptions=prop, cast_types=cast); await bk.startup()
            if A == 4: await bk.shutdown(); await bk.startup()          # a second life: started, shut down, started again (test suites and long-lived applications do this)
            r_ = bk.receiver; got = {'max_async_tasks': getattr(getattr(r_, 'sem', None), '_value', None), 'propagate_exceptions': r_.propagate_exceptions, 'validate_params': r_.validate_params}
            await bk.shutdown(); return got
        try: got = asyncio.run(life())
        except BaseException as ex:
            fails.append({'key': f"InMemoryBroker life-cycle A={A}", 'failed_clauses': [f"C12: InMemoryBroker startup failed with {type(ex).__name__}: {str(ex)[:100]}"]}); continue
        want = {'max_async_tasks': (A, ['C03', 'C04']), 'propagate_exceptions': (prop, ['C12']), 'validate_params': (cast, ['C08'])}
        pr = [f"{p_}: after InMemoryBroker(max_async_tasks={A}, propagate_exceptions={prop}, cast_types={cast}).startup(){' / shutdown() / startup()' if A == 4 else ''} the broker's receiver has {opt}={got.get(opt)!r}"
              for opt, (v, ps) in want.items() if got.get(opt) != v for p_ in ps]
        if pr: fails.append({'key': f"InMemoryBroker after startup A={A} propagate={prop} cast={cast}", 'failed_clauses': pr})
    return {'reproduced': bool(fails), 'runs': n, 'n_failures': len(fails), 'failures': fails[:400], 'bound': '3 x 2 x 2 x 2 x 3 x 2 x 2 command lines through WorkerArgs.from_cli and start_listen with a recording receiver'}

if __name__ == '__main__':
    sc = json.load(open(sys.argv[1])) if len(sys.argv) > 1 else {}
    print(json.dumps(run(sc.get('scenario', sc)), default=str))
