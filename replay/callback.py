"""Native replay for units `callback` / `run_task` (C01, C02, C06, C07, C10, C12): drive the REAL Receiver.callback with a scripted
broker / result backend / middleware stack / dependency, record the event trace and evaluate the statements' monitor natively.
The verifier's counter-model fixes the finite choices it mentions (ack type, sync/async ack, ...); the driver enumerates the small
family around them (outcomes x backend failure x sync/async target).  Run with /venv/bin/python.  Prints one JSON line."""
import sys, json, asyncio, logging
logging.disable(logging.CRITICAL)

def build(sc):
    from taskiq import InMemoryBroker, TaskiqMiddleware, AckableMessage, TaskiqDepends, Context
    from taskiq.abc.result_backend import AsyncResultBackend
    from taskiq.acks import AcknowledgeType
    from taskiq.exceptions import NoResultError
    from taskiq.receiver import Receiver
    from taskiq.message import TaskiqMessage
    return locals()

class MyBase(BaseException): pass
class UpstreamTimeout(TimeoutError): pass
import uuid as _uuid, decimal as _decimal
TRACE = _uuid.UUID(int=7); AMOUNT = _decimal.Decimal('1.10')
class EmptyAggregate(Exception):          # a legal exception that is FALSY (an aggregate of sub-errors with __len__, raised with none): `if exc:` is not `if exc is not None:`
    def __len__(self): return len(self.args)
import dataclasses as _dc2
@_dc2.dataclass(frozen=True)
class FrozenError(Exception):          # a legal exception class that forbids attribute assignment from Python code (frozen dataclass)
    code: int = 0
class Unprintable(Exception):          # a legal exception whose str()/repr() raise (a broken __str__ in user code): formatting it eagerly inside an error path raises again
    def __str__(self): raise RuntimeError("__str__ of the task's exception is broken")
    __repr__ = __str__

async def one(cfg):
    from taskiq import InMemoryBroker, TaskiqMiddleware, AckableMessage, TaskiqDepends, Context
    from taskiq.abc.result_backend import AsyncResultBackend
    from taskiq.acks import AcknowledgeType
    from taskiq.exceptions import NoResultError
    from taskiq.receiver import Receiver
    from taskiq.message import TaskiqMessage
    from taskiq.abc.broker import AsyncBroker
    AsyncBroker.global_task_registry = {}
    ev = []
    class RB(AsyncResultBackend):
        async def set_result(self, task_id, result):
            ev.append(('set_result_start', task_id, result.is_err, repr(result.return_value), type(result.error).__name__ if result.error is not None else None, dict(result.labels)))
            if cfg['backend_fails']: ev.append(('set_result_fail',)); raise RuntimeError("backend down")
            ev.append(('set_result_end',))
        async def is_result_ready(self, task_id): return False
        async def get_result(self, task_id, with_logs=False): raise KeyError(task_id)
    def boom(kind, i):          # fault injection: the last middleware's hook of that kind raises
        if cfg.get('hook_fails') == kind and i == 2: ev.append((kind + '_fail', i)); raise RuntimeError(f"injected fault in {kind} hook")
    def mk_mw(i, is_async):
        if is_async:
            class MW(TaskiqMiddleware):
                async def pre_execute(self, message): ev.append(('pre_execute', i, message.task_id)); boom('pre_execute', i); return super().pre_execute(message)          # cooperative: hands the message to the base class hook, which returns it
                async def on_error(self, message, result, exception): ev.append(('on_error', i, type(exception).__name__)); boom('on_error', i)
                async def post_execute(self, message, result): ev.append(('post_execute', i)); boom('post_execute', i)
                async def post_save(self, message, result): ev.append(('post_save', i)); boom('post_save', i)
        else:
            class MW(TaskiqMiddleware):
                def pre_execute(self, message):
                    ev.append(('pre_execute', i, message.task_id)); boom('pre_execute', i)
                    message.labels['trace'] = TRACE; message.labels['amount'] = AMOUNT          # a worker-side middleware keeps information of its own in the labels (any Python object: labels are Dict[str, Any])
                    return message
                def on_error(self, message, result, exception): ev.append(('on_error', i, type(exception).__name__)); boom('on_error', i)
                def post_execute(self, message, result): ev.append(('post_execute', i)); boom('post_execute', i)
                def post_save(self, message, result): ev.append(('post_save', i)); boom('post_save', i)
        class Derived(MW): pass          # the hooks are INHERITED from an intermediate class (a project subclass that only changes defaults): they are still overridden hooks
        return Derived()
    class Plain(TaskiqMiddleware): pass
    b = InMemoryBroker().with_result_backend(RB())
    if cfg['ack_async']: b = b.with_middlewares(mk_mw(0, False), Plain(), mk_mw(2, True))          # both registration helpers are exercised
    else: b.add_middlewares(mk_mw(0, False), Plain(), mk_mw(2, True))
    def dep_gen(ctx: Context = TaskiqDepends()):
        ev.append(('dep_open', ctx.message.task_id))
        try: yield ctx.message.task_id
        except BaseException as e: ev.append(('dep_thrown', type(e).__name__)); raise
        finally: ev.append(('dep_close',))
    import contextlib
    @contextlib.contextmanager
    def dep_cm():
        ev.append(('cm_open',))
        try: yield 'cm'
        except BaseException as e: ev.append(('cm_thrown', type(e).__name__)); raise
        finally: ev.append(('cm_close',))
    outcome = cfg['outcome']
    def body(x, d):
        ev.append(('task_start', x, d))
        if outcome == 'raise': ev.append(('task_end',)); raise ValueError("boom")
        if outcome == 'raise_timeout_subclass': ev.append(('task_end',)); raise UpstreamTimeout("upstream took too long")          # the task's OWN TimeoutError (no timeout label involved): it is the raised exception that must be stored
        if outcome == 'base': ev.append(('task_end',)); raise MyBase("base")
        if outcome == 'raise_falsy': ev.append(('task_end',)); raise EmptyAggregate()
        if outcome == 'raise_unprintable': ev.append(('task_end',)); raise Unprintable("x")
        if outcome == 'raise_frozen': ev.append(('task_end',)); raise FrozenError(3)
        if outcome == 'sysexit_with_timeout': ev.append(('task_end',)); raise SystemExit(3)          # the message carries a (generous) timeout label: the function runs under wait_for
        if outcome == 'noresult': ev.append(('task_end',)); raise NoResultError()
        ev.append(('task_end',)); return ('ret', x)
    if cfg['async_target']:
        async def t(x, d=TaskiqDepends(dep_gen), c=TaskiqDepends(dep_cm)):
            if outcome in ('timeout', 'timeout0'):
                ev.append(('task_start', x, d))
                try: await asyncio.sleep(5)
                finally: ev.append(('task_end',))
            return body(x, d)
    else:
        def t(x, d=TaskiqDepends(dep_gen), c=TaskiqDepends(dep_cm)): return body(x, d)
    b.register_task(t, task_name='t')
    labels = {'lbl': 7}
    partial_types = cfg['outcome'] == 'return' and cfg['async_target'] and not cfg.get('hook_fails')          # one label stamped without a type tag (what a client-side pre_send middleware does after the kicker computed labels_types)
    if partial_types: labels = {'lbl': '7', 'stamp': 'trace-1'}
    if outcome == 'timeout': labels['timeout'] = 0.05
    if outcome == 'sysexit_with_timeout': labels['timeout'] = 30
    if outcome == 'timeout0': labels['timeout'] = 0
    msg = TaskiqMessage(task_id='id-1', task_name='t', labels=labels, labels_types={'timeout': 2} if outcome == 'timeout0' else ({'lbl': 2} if partial_types else None), args=[41], kwargs={})
    data = b.formatter.dumps(msg).message
    if cfg['ack_async'] == 'awaitable-object':          # an ack callable that returns an awaitable which is NOT a coroutine object (AckableMessage.ack: Callable[[], Union[None, Awaitable[None]]])
        class _AckAwaitable:
            def __await__(self):
                ev.append(('ack',))
                return
                yield
        def ack(): return _AckAwaitable()
    elif cfg['ack_async']:
        async def ack(): ev.append(('ack',))
    else:
        def ack(): ev.append(('ack',))
    m = AckableMessage(data=data, ack=ack) if cfg['ackable'] else data
    r = Receiver(b, ack_type=[AcknowledgeType.WHEN_RECEIVED, AcknowledgeType.WHEN_EXECUTED, AcknowledgeType.WHEN_SAVED][cfg['ack_time']], max_async_tasks=2,
                 propagate_exceptions=cfg.get('propagate', True), run_startup=False)
    raised = None
    try: await r.callback(m)
    except BaseException as e: raised = type(e).__name__
    return ev, raised


import dataclasses as _dc
@_dc.dataclass
class PostponedModel:
    v: int

async def late_registration(validate=True):
    from taskiq import InMemoryBroker, TaskiqDepends, Context
    from taskiq.receiver import Receiver
    from taskiq.message import TaskiqMessage
    from taskiq.abc.broker import AsyncBroker
    AsyncBroker.global_task_registry = {}
    b = InMemoryBroker(); r = Receiver(b, max_async_tasks=2, run_startup=False, validate_params=validate); seen = []
    import typing as _ty
    async def t(x: int, ctx: Context = TaskiqDepends(), m: 'Optional[PostponedModel]' = None, ms: _ty.List['PostponedModel'] = ()):          # m: the whole annotation is a STRING (PEP 563 style); ms: a forward reference NESTED in a generic
        ok = (m is None or isinstance(m, PostponedModel) or not validate)
        ok_ms = (not validate) or all(isinstance(e_, PostponedModel) for e_ in ms)
        seen.append((x, ctx.message.task_id, True) if ok and ok_ms else (x, ctx.message.task_id, ('string annotation not resolved: m arrived as ' + type(m).__name__) if not ok else ('forward reference inside List[...] not resolved: ms arrived as ' + repr(ms))))
    t.__globals__.setdefault('Optional', __import__('typing').Optional)
    # history: a message for the name arrives while it is still unknown (dropped), THEN the task is registered; every later delivery must execute
    try: await r.callback(b.formatter.dumps(TaskiqMessage(task_id='id-early', task_name='late', labels={}, labels_types=None, args=['41'], kwargs={})).message)
    except BaseException as e: seen.append((type(e).__name__, 'id-early', False))
    b.register_task(t, task_name='late')
    for i in range(2):
        try: await r.callback(b.formatter.dumps(TaskiqMessage(task_id=f'id-{i}', task_name='late', labels={}, labels_types=None, args=['41'], kwargs={'m': {'v': 1}, 'ms': [{'v': 2}, {'v': 3}]})).message)
        except BaseException as e: seen.append((type(e).__name__, f'id-{i}', False))
    return seen

async def shadowed_shared_task():
    """a task of the broker shadows a shared (globally registered) task of the same name with ANOTHER signature: the function that runs is the broker's own,
    and its arguments must be converted by ITS annotations"""
    from taskiq import InMemoryBroker
    from taskiq.receiver import Receiver
    from taskiq.message import TaskiqMessage
    from taskiq.abc.broker import AsyncBroker
    AsyncBroker.global_task_registry = {}
    b = InMemoryBroker(); other = InMemoryBroker(); seen = []
    async def shared(x: str, y: str = 'd'): seen.append(('shared', x, y))
    async def own(x: int, y: float = 0.0): seen.append(('own', x, y))
    foreign = other.register_task(shared, task_name='job-shared'); foreign.task_name = 'job'
    type(b).global_task_registry['job'] = foreign
    b.register_task(own, task_name='job')
    r = Receiver(b, max_async_tasks=2, run_startup=False)
    for i in range(2):
        try: await r.callback(b.formatter.dumps(TaskiqMessage(task_id=f'id-{i}', task_name='job', labels={}, labels_types=None, args=['41'], kwargs={'y': '2.5'})).message)
        except BaseException as e: seen.append((type(e).__name__, None, None))
    return seen

async def same_receiver_twice():
    from taskiq import InMemoryBroker, TaskiqMiddleware, TaskiqDepends
    from taskiq.receiver import Receiver
    from taskiq.message import TaskiqMessage
    from taskiq.abc.broker import AsyncBroker
    AsyncBroker.global_task_registry = {}
    ev = []
    class MW(TaskiqMiddleware):
        def pre_execute(self, message): ev.append(('pre_execute', message.task_id)); return message
        async def post_execute(self, message, result): ev.append(('post_execute', message.task_id))
        def post_save(self, message, result): ev.append(('post_save', message.task_id))
    b = InMemoryBroker(); b.add_middlewares(MW())
    def dep() -> str: return 'from-dependency'
    async def t(x: int, d: str = TaskiqDepends(dep)): ev.append(('task', 'id-%d' % x, d))
    b.register_task(t, task_name='t'); r = Receiver(b, max_async_tasks=2, run_startup=False)
    for i in range(2):
        try: await r.callback(b.formatter.dumps(TaskiqMessage(task_id=f'id-{i}', task_name='t', labels={}, labels_types=None, args=[i], kwargs={'d': 'explicit'})).message)
        except BaseException as e: ev.append((type(e).__name__, f'id-{i}'))
    return ev

async def timeouts_across_messages():
    """four messages of ONE task name through one receiver, each with its OWN timeout label: loose (returns), tight (cut off), loose again, none at all"""
    from taskiq import InMemoryBroker
    from taskiq.receiver import Receiver
    from taskiq.message import TaskiqMessage
    from taskiq.abc.broker import AsyncBroker
    AsyncBroker.global_task_registry = {}
    b = InMemoryBroker(); out = []
    async def t(d: float) -> str: await asyncio.sleep(d); return 'finished'
    b.register_task(t, task_name='t'); r = Receiver(b, max_async_tasks=2, run_startup=False)
    plan = [(5, 0.01, False), (0.05, 0.4, True), (5, 0.2, False), (None, 0.2, False), (0.05, 0.4, True)]          # (timeout label, duration, must be cut off)
    for i, (lim, dur, cut) in enumerate(plan):
        labels = {} if lim is None else {'timeout': lim}
        await r.callback(b.formatter.dumps(TaskiqMessage(task_id=f'id-{i}', task_name='t', labels=labels, labels_types=None, args=[dur], kwargs={})).message)
        res = await b.result_backend.get_result(f'id-{i}')
        out.append((i, lim, dur, cut, res.is_err, type(res.error).__name__ if res.error is not None else None, res.return_value))
    return out

async def inmemory_failing_backend():
    from taskiq import InMemoryBroker
    from taskiq.abc.result_backend import AsyncResultBackend
    from taskiq.abc.broker import AsyncBroker
    AsyncBroker.global_task_registry = {}
    class Down(AsyncResultBackend):
        async def set_result(self, task_id, result): raise ConnectionError("result backend is down")
        async def is_result_ready(self, task_id): return False
        async def get_result(self, task_id, with_logs=False): raise KeyError(task_id)
    b = InMemoryBroker(await_inplace=True).with_result_backend(Down()); out = []; ran = []
    async def t(i): ran.append(f"ran:{i}")
    task = b.register_task(t, task_name='t')
    for i in (1, 2):
        try: await task.kiq(i); out.append('sent')
        except BaseException as e: out.append(f"send raised {type(e).__name__}")
    return out + ran

async def isolation(shape):
    """C06: two overlapping executions of one task; every dependency (cached, un-cached, nested, sync/async/generator, resolved before or
    after a suspension point) must observe its own message's Context."""
    from taskiq import InMemoryBroker, TaskiqDepends, Context
    from taskiq.abc.broker import AsyncBroker
    from taskiq.receiver import Receiver
    from taskiq.message import TaskiqMessage
    AsyncBroker.global_task_registry = {}
    b = InMemoryBroker(); seen = {}
    async def slow() -> int:
        await asyncio.sleep(0.05); return 1
    def echo(ctx: Context = TaskiqDepends()) -> str: return ctx.message.task_id
    async def aecho(ctx: Context = TaskiqDepends()) -> str:
        await asyncio.sleep(0.01); return ctx.message.task_id
    def gecho(ctx: Context = TaskiqDepends()):
        yield ctx.message.task_id
    def nested(inner: str = TaskiqDepends(echo, use_cache=False)) -> str: return inner
    dep = {'uncached': TaskiqDepends(echo, use_cache=False), 'cached': TaskiqDepends(echo), 'async_uncached': TaskiqDepends(aecho, use_cache=False),
           'generator_uncached': TaskiqDepends(gecho, use_cache=False), 'nested_uncached': TaskiqDepends(nested, use_cache=False)}.get(shape)
    if shape in ('override', 'ctx_only_nested'):
        def plain() -> str: return 'plain'
        async def replacement(_: int = TaskiqDepends(slow), seen_id: str = TaskiqDepends(echo, use_cache=False)) -> str: return seen_id
        if shape == 'override':
            async def t(mid: str, probe: str = TaskiqDepends(plain)):
                seen[mid] = (probe, mid, mid)
            b.dependency_overrides[plain] = replacement
        else:
            async def t(mid: str, first: int = TaskiqDepends(slow), probe: str = TaskiqDepends(echo, use_cache=False)):       # Context only reachable through an un-cached dependency
                seen[mid] = (probe, mid, mid)
            async def other(ctx: Context = TaskiqDepends()): await asyncio.sleep(0.2)
            b.register_task(other, task_name='other')
    else:
      async def t(mid: str, first: int = TaskiqDepends(slow), probe: str = dep, ctx: Context = TaskiqDepends()):
        seen[mid] = (probe, ctx.message.task_id, dict(ctx.message.labels).get('who'))
    b.register_task(t, task_name='t')
    r = Receiver(b, run_startup=False, max_async_tasks=5)
    if shape == 'ctx_only_nested':
        asyncio.ensure_future(r.callback(b.formatter.dumps(TaskiqMessage(task_id='Z', task_name='other', labels={}, labels_types=None, args=[], kwargs={})).message))
        await asyncio.sleep(0.005)
    def msg(i): return b.formatter.dumps(TaskiqMessage(task_id=i, task_name='t', labels={'who': i}, labels_types=None, args=[i], kwargs={})).message
    async def later(): await asyncio.sleep(0.01); await r.callback(msg('B'))
    await asyncio.gather(r.callback(msg('A')), later())
    bad = {mid: v for mid, v in seen.items() if v != (mid, mid, mid)}
    return bad, seen

async def frozen_exception():
    """a task failing with an exception object that forbids attribute assignment (frozen dataclass): teardown of a generator dependency, acknowledgement and
    the stored error result are as for any other exception (no contextlib-based dependency here: contextlib itself assigns __traceback__)"""
    from taskiq import InMemoryBroker, AckableMessage, TaskiqDepends
    from taskiq.abc.broker import AsyncBroker
    from taskiq.receiver import Receiver
    from taskiq.message import TaskiqMessage
    AsyncBroker.global_task_registry = {}
    b = InMemoryBroker(); ev = []
    def dep():
        ev.append('dep_open')
        try: yield 1
        except BaseException as e: ev.append('dep_thrown:' + type(e).__name__); raise
        finally: ev.append('dep_closed')
    async def t(d=TaskiqDepends(dep)): ev.append('ran'); raise FrozenError(3)
    b.register_task(t, task_name='t'); r = Receiver(b, run_startup=False, max_async_tasks=2); raised = None
    try: await r.callback(AckableMessage(data=b.formatter.dumps(TaskiqMessage(task_id='id-f', task_name='t', labels={}, labels_types=None, args=[], kwargs={})).message, ack=lambda: ev.append('ack')))
    except BaseException as e: raised = f"{type(e).__name__}: {str(e)[:60]}"
    res = b.result_backend.results.get('id-f')
    return ev, (None if res is None else (res.is_err, type(res.error).__name__)), raised

async def kiq_model_arguments():
    """end to end through the kicker (client side: pydantic / dataclass arguments are dumped) and the receiver (worker side: parsed back): models whose
    fields have serialization aliases or default factories arrive with the caller's values, bound to the right parameters"""
    import pydantic, typing
    from taskiq import InMemoryBroker
    from taskiq.abc.broker import AsyncBroker
    AsyncBroker.global_task_registry = {}
    class Aliased(pydantic.BaseModel):
        user_id: int = pydantic.Field(serialization_alias='userId')
        key: str = pydantic.Field(default_factory=lambda: _uuid.uuid4().hex)
    b = InMemoryBroker(await_inplace=True); seen = []
    async def t(raw: typing.Any, m: Aliased, plain=None): seen.append((raw, m, plain))
    task = b.register_task(t, task_name='t')
    a1 = Aliased(user_id=7); a2 = Aliased(user_id=8, key='given')
    await task.kiq(a1, a1, plain=a2); await task.kiq(a2, m=a2)
    want = [({'user_id': 7, 'key': a1.key}, a1, {'user_id': 8, 'key': 'given'}), ({'user_id': 8, 'key': 'given'}, a2, None)]
    return seen, want

async def same_id_twice():
    """two deliveries carrying the SAME task id overlap in one worker (a broker redelivery, or Context.requeue / the retry middleware re-sending the id while
    the first delivery is still in callback): each delivery is executed and acknowledged exactly once"""
    from taskiq import InMemoryBroker, AckableMessage
    from taskiq.abc.broker import AsyncBroker
    from taskiq.receiver import Receiver
    from taskiq.message import TaskiqMessage
    AsyncBroker.global_task_registry = {}
    b = InMemoryBroker(); ran = []; acks = []
    async def t(x): ran.append(x); await asyncio.sleep(0.02); return x
    b.register_task(t, task_name='t'); r = Receiver(b, run_startup=False, max_async_tasks=4)
    def msg(i): return AckableMessage(data=b.formatter.dumps(TaskiqMessage(task_id='same-id', task_name='t', labels={}, labels_types=None, args=[i], kwargs={})).message, ack=lambda i=i: acks.append(i))
    async def later(i, d): await asyncio.sleep(d); await r.callback(msg(i))
    await asyncio.gather(later(0, 0), later(1, 0.005)); await r.callback(msg(2))
    return sorted(ran), sorted(acks)

def pp_add(a, b): return a + b          # module level: a sync task that a process pool can run

async def process_pool():
    """the worker option --use-process-pool / run_receiver_task(use_process_pool=True): sync task functions run in a ProcessPoolExecutor (what is handed to the
    pool must be picklable); the function is invoked once and its return value stored"""
    from concurrent.futures import ProcessPoolExecutor
    from taskiq import InMemoryBroker
    from taskiq.abc.broker import AsyncBroker
    from taskiq.receiver import Receiver
    from taskiq.message import TaskiqMessage
    AsyncBroker.global_task_registry = {}
    b = InMemoryBroker(); fn = globals()['pp_add'] if not hasattr(globals()['pp_add'], 'original_func') else globals()['pp_add'].original_func
    globals()['pp_add'] = b.register_task(fn, task_name='pp_add'); raised = None          # what `@broker.task` does: the module attribute `pp_add` now names the decorated task, not the function
    with ProcessPoolExecutor(1) as pool:
        r = Receiver(b, executor=pool, run_startup=False)
        try: await r.callback(b.formatter.dumps(TaskiqMessage(task_id='id-pp', task_name='pp_add', labels={}, labels_types=None, args=[1, 2], kwargs={})).message)
        except BaseException as e: raised = f"{type(e).__name__}: {str(e)[:80]}"
    res = b.result_backend.results.get('id-pp')
    return (None if res is None else (res.is_err, res.return_value, type(res.error).__name__ if res.error is not None else None)), raised

async def reserved_label_names():
    """a message whose user labels are named like attributes of a log record / like `self`, handled by a worker whose `taskiq` loggers are ENABLED at DEBUG
    (the CLI enables INFO by default): the message is executed, acknowledged and its result stored like any other"""
    from taskiq import InMemoryBroker, AckableMessage
    from taskiq.abc.broker import AsyncBroker
    from taskiq.receiver import Receiver
    from taskiq.message import TaskiqMessage
    AsyncBroker.global_task_registry = {}
    b = InMemoryBroker(); ran = []; acks = []
    async def t(x): ran.append(x); return x
    b.register_task(t, task_name='t'); r = Receiver(b, run_startup=False, max_async_tasks=2)
    lg = logging.getLogger('taskiq'); old_level = lg.level; nh = logging.NullHandler(); lg.addHandler(nh); lg.setLevel(logging.DEBUG); logging.disable(logging.NOTSET); raised = None
    try:
        for i, lbl in enumerate(({'module': 'billing', 'name': 'n'}, {'args': 'a', 'message': 'm', 'process': 'p'}, {'self': 's', 'cls': 'c', 'task_name': 'other', 'message': 'x'})):
            try: await r.callback(AckableMessage(data=b.formatter.dumps(TaskiqMessage(task_id=f'id-{i}', task_name='t', labels=dict(lbl), labels_types=None, args=[i], kwargs={})).message, ack=lambda i=i: acks.append(i)))
            except BaseException as e: raised = f"{type(e).__name__}: {str(e)[:80]}"
    finally: logging.disable(logging.CRITICAL); lg.setLevel(old_level); lg.removeHandler(nh)
    stored = [k for k in ('id-0', 'id-1', 'id-2') if k in b.result_backend.results]
    return ran, acks, stored, raised

async def labels_isolation():
    """C06: messages with EQUAL label sets (the common case: every call of one task) must not share one labels dict - what one execution writes into
    its message's labels (Context.requeue does, middlewares do) must stay invisible to a concurrent and to a later execution."""
    from taskiq import InMemoryBroker, TaskiqDepends, Context
    from taskiq.abc.broker import AsyncBroker
    from taskiq.receiver import Receiver
    from taskiq.message import TaskiqMessage
    from taskiq.labels import LabelType
    AsyncBroker.global_task_registry = {}
    b = InMemoryBroker(); seen = {}
    async def t(mid: str, ctx: Context = TaskiqDepends()):
        if mid == 'A': ctx.message.labels['touched'] = 'by A'
        await asyncio.sleep(0.03); seen[mid] = dict(ctx.message.labels)
    b.register_task(t, task_name='t'); r = Receiver(b, run_startup=False, max_async_tasks=5)
    def msg(i): return b.formatter.dumps(TaskiqMessage(task_id=i, task_name='t', labels={'tenant': 'x', 'n': '1'}, labels_types={'n': LabelType.INT.value}, args=[i], kwargs={})).message
    async def later(): await asyncio.sleep(0.01); await r.callback(msg('B'))
    await asyncio.gather(r.callback(msg('A')), later()); await r.callback(msg('C'))
    return {mid: v for mid, v in seen.items() if mid != 'A' and v != {'tenant': 'x', 'n': 1}}, seen

def monitor(cfg, ev, raised):
    """the statements' clauses evaluated on the native trace"""
    f = []; names = [e[0] for e in ev]
    def idx(n): return names.index(n) if n in names else None
    def last(n): return max((i for i, x in enumerate(names) if x == n), default=None)
    oc = cfg['outcome']
    zero = oc == 'timeout0'; oc = 'timeout' if zero else oc          # a zero budget: the function may be cancelled before it starts
    if raised: f.append(f"callback raised {raised}")
    # C01: exactly one invocation
    if names.count('task_start') != 1 and not (zero and names.count('task_start') == 0): f.append(f"C01: task function invoked {names.count('task_start')} times")
    # C02
    acks = names.count('ack')
    if acks != (1 if cfg['ackable'] else 0): f.append(f"C02: ack called {acks} times (ackable={cfg['ackable']})")
    elif acks == 1:
        a = idx('ack')
        if cfg['ack_time'] == 0 and idx('task_start') is not None and a > idx('task_start'): f.append("C02: when_received ack after the task function started")
        never_started = zero and idx('task_start') is None          # timed out before it could start: 'finished (timed out)' with no function events
        if cfg['ack_time'] == 1 and not never_started and (idx('task_end') is None or a < idx('task_end')): f.append("C02: when_executed ack before the task function finished")
        if cfg['ack_time'] == 1 and never_started and idx('on_error') is not None and a > idx('post_execute'): f.append("C02: when_executed ack after post_execute")
        if cfg['ack_time'] == 2:
            if oc == 'noresult':
                if last('post_execute') is None or a < last('post_execute'): f.append("C02: when_saved ack before the (skipped) save point")
            elif (idx('set_result_end') is None and idx('set_result_fail') is None) or a < (idx('set_result_end') if idx('set_result_end') is not None else idx('set_result_fail')):
                f.append("C02: when_saved ack before the save attempt completed")
    # C07
    if cfg['backend_fails'] and cfg['ackable'] and cfg['ack_time'] == 2 and acks == 0 and oc != 'noresult' and not raised:
        f.append("C07: the result backend failed and the message never completed processing (no when_saved acknowledgement: the broker keeps redelivering it)")
    saves = [e for e in ev if e[0] == 'set_result_start']
    if len(saves) != (0 if oc == 'noresult' else 1): f.append(f"C07: {len(saves)} results stored for outcome {oc}")
    elif saves:
        _, tid, is_err, rv, err, lbl = saves[0]
        if tid != 'id-1': f.append(f"C06/C07: stored under {tid!r}")
        want_err = {'return': None, 'raise': 'ValueError', 'raise_timeout_subclass': 'UpstreamTimeout', 'base': 'MyBase', 'timeout': 'TimeoutError', 'raise_falsy': 'EmptyAggregate', 'raise_unprintable': 'Unprintable', 'raise_frozen': 'FrozenError', 'sysexit_with_timeout': 'SystemExit'}[oc]
        if is_err != (want_err is not None) or err != want_err: f.append(f"C07: stored is_err={is_err} error={err} for outcome {oc}")
        if oc == 'return' and rv != repr(('ret', 41)): f.append(f"C07: stored return value {rv}")
        if lbl.get('lbl') != 7: f.append(f"C07: stored labels {lbl}")
        if lbl.get('trace') != TRACE or type(lbl.get('amount')) is not type(AMOUNT) or lbl.get('amount') != AMOUNT: f.append(f"C07: a pre_execute middleware attached labels trace={TRACE!r} and amount={AMOUNT!r} to the message; the stored result's labels carry trace={lbl.get('trace')!r}, amount={lbl.get('amount')!r}")
    # C10: order and multiplicity
    for kind in ('pre_execute', 'post_execute'):
        got = [e[1] for e in ev if e[0] == kind]
        if got != [0, 2]: f.append(f"C10: {kind} fired for {got}, expected [0, 2]")
    onerr = [e[1] for e in ev if e[0] == 'on_error']
    if onerr != ([0, 2] if oc != 'return' else []): f.append(f"C10: on_error fired for {onerr} on outcome {oc}")
    ps = [e[1] for e in ev if e[0] == 'post_save']
    want_ps = [0, 2] if (oc != 'noresult' and not cfg['backend_fails']) else []
    if ps != want_ps: f.append(f"C10: post_save fired for {ps}, expected {want_ps}")
    order = [n for n in names if n in ('pre_execute', 'task_start', 'task_end', 'on_error', 'post_execute', 'set_result_start', 'post_save')]
    rank = {'pre_execute': 0, 'task_start': 1, 'task_end': 2, 'on_error': 3, 'post_execute': 4, 'set_result_start': 5, 'post_save': 6}
    if [rank[n] for n in order] != sorted(rank[n] for n in order): f.append(f"C10: hook order {order}")
    # C12: teardown once, after the function, before the result is visible / post-execution acks; exception thrown in iff propagate
    if names.count('dep_close') != names.count('dep_open') or names.count('dep_open') != 1: f.append(f"C12: dependency opened {names.count('dep_open')} closed {names.count('dep_close')}")
    else:
        c = idx('dep_close')
        if idx('task_end') is not None and c < idx('task_end') and cfg['async_target']: f.append("C12: teardown before the task function finished")
        for later in ('set_result_start', 'on_error', 'post_execute'):
            if idx(later) is not None and c > idx(later): f.append(f"C12: teardown after {later}")
        if cfg['ack_time'] in (1, 2) and idx('ack') is not None and c > idx('ack'): f.append("C12: teardown after the acknowledgement")
        if names.count('cm_open') != 1 or names.count('cm_close') != 1: f.append(f"C12: context-manager dependency opened {names.count('cm_open')} closed {names.count('cm_close')}")
        elif ('cm_thrown' in names) != (oc != 'return' and cfg.get('propagate', True)): f.append(f"C12: exception thrown into the context-manager dependency={'cm_thrown' in names} (outcome {oc}, propagate={cfg.get('propagate', True)})")
        elif idx('dep_open') is not None and idx('dep_close') is not None and (idx('cm_open') < idx('dep_open')) != (idx('cm_close') > idx('dep_close')):
            f.append(f"C12: dependencies not finalised in reverse order of opening: {[n_ for n_ in names if n_ in ('cm_open', 'dep_open', 'cm_close', 'dep_close')]}")
        thrown = 'dep_thrown' in names
        if thrown != (oc != 'return' and cfg.get('propagate', True)): f.append(f"C12: exception thrown into dependency={thrown} (outcome {oc}, propagate={cfg.get('propagate', True)})")
    # C06: dependency saw its own message
    do = [e for e in ev if e[0] == 'dep_open']
    if do and do[0][1] != 'id-1': f.append(f"C06: dependency saw message {do[0][1]}")
    ts = [e for e in ev if e[0] == 'task_start']
    if ts and (ts[0][1] != 41 or ts[0][2] != 'id-1'): f.append(f"C08/C06: task received {ts[0][1:]}")
    return f

def safety_monitor(cfg, ev, raised):
    """fault runs (a middleware hook raises): only the clauses that must hold on EVERY trace, whatever fails"""
    f = []; names = [e[0] for e in ev]; oc = cfg['outcome']
    def first(n): return names.index(n) if n in names else None
    acks = names.count('ack'); a = first('ack'); hk = cfg['hook_fails']
    if acks > 1: f.append(f"C02: ack called {acks} times (a {hk} hook raised)")
    if names.count('task_start') > 1: f.append(f"C01: task function invoked {names.count('task_start')} times (a {hk} hook raised)")
    if a is not None:
        if cfg['ack_time'] == 0 and first('task_start') is not None and a > first('task_start'): f.append(f"C02: when_received ack after the task function started (a {hk} hook raised)")
        if cfg['ack_time'] == 1 and (first('task_end') is None or a < first('task_end')): f.append(f"C02: when_executed ack before the task function finished (a {hk} hook raised)")
        if cfg['ack_time'] == 2:
            done = first('set_result_end') if first('set_result_end') is not None else first('set_result_fail')
            skipped_ok = oc == 'noresult' and hk not in ('post_execute', 'pre_execute')
            if not skipped_ok and (done is None or a < done): f.append(f"C02: when_saved ack although no attempt to store the result has completed (a {hk} hook raised; outcome {oc})")
    saves = names.count('set_result_start')
    if saves > 1 or (saves and oc == 'noresult'): f.append(f"C07: {saves} results stored for outcome {oc} (a {hk} hook raised)")
    if saves and first('task_end') is None: f.append(f"C07: a result was stored although the task function never finished (a {hk} hook raised)")
    for i, n_ in enumerate(names):
        if n_ == 'post_save' and (first('set_result_end') is None or first('set_result_end') > i): f.append(f"C10: post_save fired although the result was not stored (a {hk} hook raised)"); break
    if hk == 'pre_execute' and first('task_start') is not None: f.append("C10: the task function ran although a pre_execute hook raised")
    if names.count('dep_open') != names.count('dep_close'): f.append(f"C12: dependency opened {names.count('dep_open')} closed {names.count('dep_close')} (a {hk} hook raised)")
    return f

def run(sc):
    fails = []; n = 0
    acks = [sc['ack_time']] if isinstance(sc.get('ack_time'), int) and 0 <= sc['ack_time'] <= 2 else [0, 1, 2]
    ackables = [sc['ackable']] if isinstance(sc.get('ackable'), bool) else [True, False]
    for ack_time in acks:
        for ackable in ackables:
            for ack_async in ([sc['ack_async']] if isinstance(sc.get('ack_async'), bool) else [False, True, 'awaitable-object']):
                for outcome in ('return', 'raise', 'raise_timeout_subclass', 'raise_falsy', 'raise_unprintable', 'sysexit_with_timeout', 'base', 'noresult', 'timeout', 'timeout0'):
                    for backend_fails in (False, True):
                        for async_target in (True, False):
                            if outcome in ('timeout', 'timeout0') and not async_target: continue
                            for propagate in (True, False):
                                cfg = dict(ack_time=ack_time, ackable=ackable, ack_async=ack_async, outcome=outcome, backend_fails=backend_fails, async_target=async_target, propagate=propagate)
                                n += 1
                                try: ev, raised = asyncio.run(one(cfg))
                                except BaseException as ex:          # nothing may escape the event loop: the worker's loop.run_until_complete(listen()) would die with it
                                    fails.append({'key': json.dumps(cfg, sort_keys=True), 'config': cfg, 'failed_clauses': [f"C07: {type(ex).__name__} raised by the task function escaped the event loop itself (outcome {outcome}): no result was stored, the worker's loop is torn down"] + ([f"C02: the message was never acknowledged ({type(ex).__name__} escaped the event loop)"] if ackable else []), 'trace': []}); continue
                                fl = monitor(cfg, ev, raised)
                                if fl: fails.append({'key': json.dumps(cfg, sort_keys=True), 'config': cfg, 'failed_clauses': fl, 'trace': [list(map(str, e)) for e in ev]})
    for ack_time in acks:          # fault runs: one middleware hook raises
        for ack_async in ([sc['ack_async']] if isinstance(sc.get('ack_async'), bool) else [False, True]):
            for outcome in ('return', 'raise', 'noresult'):
                for hk in ('pre_execute', 'on_error', 'post_execute', 'post_save'):
                    if hk == 'on_error' and outcome == 'return': continue
                    cfg = dict(ack_time=ack_time, ackable=True, ack_async=ack_async, outcome=outcome, backend_fails=False, async_target=True, propagate=True, hook_fails=hk)
                    ev, raised = asyncio.run(one(cfg)); n += 1
                    fl = safety_monitor(cfg, ev, raised)
                    if fl: fails.append({'key': json.dumps(cfg, sort_keys=True), 'config': cfg, 'failed_clauses': fl, 'trace': [list(map(str, e)) for e in ev]})
    # a task registered AFTER the receiver was built (dynamic registration, InMemoryBroker): it is prepared lazily on its first delivery, which must behave like any other
    got = asyncio.run(late_registration()); n += 1
    if len(got) < 2:
        fails.append({'key': 'late-registration-dropped', 'config': {'history': ['message for unknown name "late" (dropped)', 'register_task(t, task_name="late")', 'message id-0', 'message id-1']},
                      'failed_clauses': [f"C01: after the task was registered, 2 well-formed messages naming it were delivered but it ran {len(got)} time(s) (executions: {got}) - a known task was treated as unknown"], 'trace': [str(got)]})
    elif got != [(41, 'id-0', True), (41, 'id-1', True)]:
        fails.append({'key': 'late-registration', 'config': {'registered': 'after Receiver(...)', 'sent_args': ['41'], 'annotation': 'int'},
                      'failed_clauses': [f"C08: a task `def t(x: int, ctx: Context)` registered after the receiver was built was sent the argument '41' twice; (received x, Context.task_id, dependency resolved) per delivery = {got}, expected the converted 41 and its own Context both times"], 'trace': [str(got)]})
    got = asyncio.run(late_registration(validate=False)); n += 1
    if got != [('41', 'id-0', True), ('41', 'id-1', True)]:
        fails.append({'key': 'validate_params=False', 'config': {'validate_params': False, 'sent_args': ['41'], 'annotation': 'int'},
                      'failed_clauses': [f"C08: with parameter parsing disabled (Receiver(validate_params=False)) the argument '41' must arrive as sent; per delivery the task received {got}"], 'trace': [str(got)]})
    got = asyncio.run(shadowed_shared_task()); n += 1
    if got != [('own', 41, 2.5), ('own', 41, 2.5)]:
        fails.append({'key': 'shadowed-shared-task', 'config': {'own task': 'def own(x: int, y: float)', 'shared task of the same name': 'def shared(x: str, y: str)', 'sent': {'args': ['41'], 'kwargs': {'y': '2.5'}}},
                      'failed_clauses': [f"C08: the broker's own task `own(x: int, y: float)` shadows a shared task of the same name with other annotations; sent ('41', y='2.5') twice, (function, x, y) executed = {got}, expected the own function with 41 and 2.5"], 'trace': [str(got)]})
    got = asyncio.run(timeouts_across_messages()); n += 1
    cl = []
    for i, lim, dur, cut, is_err, err, rv in got:
        if cut and not (is_err and err == 'TimeoutError'): cl.append(f"C07: message id-{i} of task `t` carries timeout={lim} and its function takes {dur} s: stored result is_err={is_err} error={err} return_value={rv!r}, expected a TimeoutError (earlier messages of the same task carried other timeout labels: {[g[1] for g in got[:i]]})")
        if not cut and (is_err or rv != 'finished'): cl.append(f"C07: message id-{i} of task `t` carries timeout={lim} and its function takes {dur} s: stored result is_err={is_err} error={err}, expected the return value (earlier messages of the same task carried other timeout labels: {[g[1] for g in got[:i]]})")
    if cl: fails.append({'key': 'timeouts-across-messages', 'config': {'plan (timeout label, duration)': [(g[1], g[2]) for g in got]}, 'failed_clauses': cl, 'trace': [str(got)]})
    got = asyncio.run(same_receiver_twice()); n += 1
    want_ = [('pre_execute', 'id-0'), ('task', 'id-0', 'explicit'), ('post_execute', 'id-0'), ('post_save', 'id-0'), ('pre_execute', 'id-1'), ('task', 'id-1', 'explicit'), ('post_execute', 'id-1'), ('post_save', 'id-1')]
    if got != want_:
        cl = []
        if [e for e in got if e[0] != 'task'] != [e for e in want_ if e[0] != 'task']: cl.append(f"C10: two messages through the SAME receiver: hooks observed {[e for e in got if e[0] != 'task']}, expected every hook once per message")
        if [e for e in got if e[0] == 'task'] != [e for e in want_ if e[0] == 'task']: cl.append(f"C08: a parameter that has a dependency default was bound explicitly by the caller (kwargs={{'d': 'explicit'}}); the task received {[e for e in got if e[0] == 'task']}")
        fails.append({'key': 'same-receiver-twice', 'config': {'messages': 2, 'kwargs': {'d': 'explicit'}}, 'failed_clauses': cl or [f"C10: unexpected trace {got}"], 'trace': [str(got)]})
    got = asyncio.run(inmemory_failing_backend()); n += 1
    if got != ['sent', 'sent', 'ran:1', 'ran:2']:
        fails.append({'key': 'inmemory-failing-backend', 'config': {'broker': 'InMemoryBroker(await_inplace=True)', 'result backend': 'set_result raises'},
                      'failed_clauses': [f"C07: with an InMemoryBroker whose result backend fails, sending two messages gave {got}; the failure must stay contained (both sends succeed, both tasks run)"], 'trace': [str(got)]})
    for shape in ('uncached', 'cached', 'async_uncached', 'generator_uncached', 'nested_uncached', 'override', 'ctx_only_nested'):
        bad, seen = asyncio.run(isolation(shape)); n += 1
        if bad or len(seen) != 2: fails.append({'key': 'isolation:' + shape, 'config': {'overlapping_messages': ['A', 'B'], 'dependency': shape},
                                'failed_clauses': [f"C06: execution of message {mid} observed (dependency value, Context.task_id, label) = {v}" for mid, v in bad.items()] or ["C06: an execution did not complete"], 'trace': [str(seen)]})
    ev_, res_, raised_ = asyncio.run(frozen_exception()); n += 1
    if ev_ != ['dep_open', 'ran', 'dep_thrown:FrozenError', 'dep_closed', 'ack'] or res_ != (True, 'FrozenError') or raised_:
        cl = []
        if 'dep_closed' not in ev_ or 'dep_thrown:FrozenError' not in ev_: cl.append(f"C12: a task failed with an exception that forbids attribute assignment (frozen dataclass): events {ev_} - the generator dependency must see the exception and be finalised (callback raised: {raised_})")
        if res_ != (True, 'FrozenError'): cl.append(f"C07: the same execution: stored result (is_err, error class) = {res_}, expected (True, 'FrozenError') (callback raised: {raised_})")
        if ev_.count('ack') != 1: cl.append(f"C02: the same execution: acknowledged {ev_.count('ack')} times (callback raised: {raised_})")
        fails.append({'key': 'frozen-exception', 'config': {'exception': '@dataclass(frozen=True) class FrozenError(Exception)'}, 'failed_clauses': cl or [f"C12: unexpected trace {ev_}"], 'trace': [str((ev_, res_, raised_))]})
    seen_, want_ = asyncio.run(kiq_model_arguments()); n += 1
    if seen_ != want_:
        fails.append({'key': 'kiq-model-arguments', 'config': {'model': 'class Aliased(BaseModel): user_id: int = Field(serialization_alias="userId"); key: str = Field(default_factory=...)'},
                      'failed_clauses': [f"C08: task.kiq(model, model, plain=model) with `def t(raw: Any, m: Aliased, plain=None)`: the function received {seen_}, expected {want_} (un-annotated / Any parameters get the field-name dict form, the annotated parameter the model with the caller's values)"], 'trace': [str(seen_)]})
    ran, acks_ = asyncio.run(same_id_twice()); n += 1
    if ran != [0, 1, 2] or acks_ != [0, 1, 2]:
        fails.append({'key': 'same-id-twice', 'config': {'deliveries': ['same-id (overlapping)', 'same-id (overlapping)', 'same-id (afterwards)']},
                      'failed_clauses': ([f"C01: three deliveries with one task id (two of them overlapping): the task function ran for deliveries {ran}"] if ran != [0, 1, 2] else []) + ([f"C02: three deliveries with one task id (two of them overlapping): acknowledged deliveries {acks_}, each must be acknowledged exactly once"] if acks_ != [0, 1, 2] else []), 'trace': [str((ran, acks_))]})
    got, raised_ = asyncio.run(process_pool()); n += 1
    if got != (False, 3, None):
        fails.append({'key': 'process-pool', 'config': {'executor': 'ProcessPoolExecutor', 'task': 'def pp_add(a, b) (sync)', 'args': [1, 2]},
                      'failed_clauses': [f"{pid}: a sync task run through a process pool (worker option --use-process-pool): pp_add(1, 2) returns 3, the stored result is (is_err, return_value, error) = {got} (callback raised: {raised_})" for pid in ('C01', 'C07')], 'trace': [str(got)]})
    ran, acks_, stored, raised_ = asyncio.run(reserved_label_names()); n += 1
    if ran != [0, 1, 2] or acks_ != [0, 1, 2] or len(stored) != 3:
        cl = []
        if ran != [0, 1, 2]: cl.append(f"C01: three messages with user labels named like log-record attributes (module, name, args, message, process) or like `self`, on a worker with its taskiq loggers enabled: the task function ran for {ran} of [0, 1, 2] (callback raised: {raised_})")
        if acks_ != [0, 1, 2]: cl.append(f"C02: the same three messages: acknowledged {acks_} of [0, 1, 2] (callback raised: {raised_})")
        if len(stored) != 3: cl.append(f"C07: the same three messages: results stored for {stored} only (callback raised: {raised_})")
        fails.append({'key': 'reserved-label-names', 'config': {'labels': ['module/name', 'args/message/process', 'self/cls/task_name'], 'logging': 'taskiq loggers at DEBUG'}, 'failed_clauses': cl, 'trace': [str((ran, acks_, stored, raised_))]})
    bad, seen = asyncio.run(labels_isolation()); n += 1
    if bad or len(seen) != 3: fails.append({'key': 'isolation:equal-labels', 'config': {'messages': ['A (writes a label into its own message)', 'B (overlapping)', 'C (afterwards)'], 'labels': {'tenant': 'x', 'n': 1}},
                            'failed_clauses': [f"C06: message A wrote labels['touched'] into ITS message; the execution of message {mid} (same label set, own message) saw labels {v}" for mid, v in bad.items()] or ["C06: an execution did not complete"], 'trace': [str(seen)]})
    return {'reproduced': bool(fails), 'runs': n, 'failures': fails[:400], 'n_failures': len(fails)}

if __name__ == '__main__':
    sc = json.load(open(sys.argv[1])) if len(sys.argv) > 1 else {}
    print(json.dumps(run(sc.get('scenario', sc)), default=str))
