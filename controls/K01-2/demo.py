"""
Demo for negative control K2 (property C01: every message taken from the broker
is executed exactly once; malformed / unknown-task messages are skipped without
disturbing any other message).

The script drives `Receiver.listen()` with scripted brokers and checks, for
several configurations and fault/timing cases, that

  * every well-formed message for a known task that was *taken* from the
    broker's listen stream was executed exactly once (never 0, never 2),
  * malformed and unknown-task messages executed nothing,
  * nothing that was not taken was executed,
  * `listen()` terminates after a graceful stop / when the quota is reached.

It runs on the original code and on the changed code. Scenarios 4 and 5 aim at
the code touched by K2: the prefetcher's wait for "next message or stop request".

Exit code 0: property holds in all scenarios. Non-zero: violated.
"""

import asyncio
import logging
import sys
from collections import Counter
from typing import Any, AsyncGenerator, Dict, List, Optional, Tuple, Union

from taskiq import AckableMessage, AsyncBroker, BrokerMessage
from taskiq.acks import AcknowledgeType
from taskiq.receiver import Receiver

logging.disable(logging.CRITICAL)

VALID, MALFORMED, UNKNOWN = "valid", "malformed", "unknown"


class ScriptedBroker(AsyncBroker):
    """Broker whose listen stream is a timed script followed by silence."""

    def __init__(self, ackable: bool, ack_fails: bool = False) -> None:
        super().__init__()
        self.ackable = ackable
        self.ack_fails = ack_fails
        # (delay before the message, kind, ident, payload)
        self.script: List[Tuple[float, str, int, bytes]] = []
        self.taken: List[Tuple[str, int]] = []
        self.acks: "Counter[int]" = Counter()
        self.last_payload: bytes = b""

    async def kick(self, message: BrokerMessage) -> None:
        self.last_payload = message.message

    def _make_ack(self, kind: str, ident: int) -> Any:
        async def ack() -> None:
            self.acks[ident] += 1
            if self.ack_fails and kind != VALID:
                raise ConnectionError("ack failed")

        return ack

    async def listen(self) -> AsyncGenerator[Union[bytes, AckableMessage], None]:
        for delay, kind, ident, payload in self.script:
            if delay:
                await asyncio.sleep(delay)
            # No suspension point between this line and the yield:
            # "taken" == "yielded by the listen stream".
            self.taken.append((kind, ident))
            if self.ackable:
                yield AckableMessage(data=payload, ack=self._make_ack(kind, ident))
            else:
                yield payload
        # A real broker never ends its stream: stay silent forever.
        await asyncio.Event().wait()


async def build(
    kinds: List[str],
    delays: List[float],
    ackable: bool,
    ack_fails: bool = False,
    duration: float = 0.01,
    broker: Optional[ScriptedBroker] = None,
) -> Tuple[ScriptedBroker, "Counter[int]"]:
    broker = broker or ScriptedBroker(ackable, ack_fails)
    calls: "Counter[int]" = Counter()

    @broker.task(task_name="demo:work")
    async def work(num: int) -> int:
        calls[num] += 1
        await asyncio.sleep(duration)
        return num

    @broker.task(task_name="demo:sync_work")
    def sync_work(num: int) -> int:
        calls[num] += 1
        return num

    for ident, (kind, delay) in enumerate(zip(kinds, delays)):
        if kind == VALID:
            # Every third valid message goes to the sync task (thread pool).
            task = sync_work if ident % 3 == 2 else work
            await task.kiq(ident)
            payload = broker.last_payload
        elif kind == UNKNOWN:
            await work.kicker().with_task_id(f"u{ident}").kiq(ident)
            payload = broker.last_payload.replace(b"demo:work", b"demo:nope")
            assert b"demo:nope" in payload
        else:
            payload = [b"-1", b"not json at all", b'{"task_name": 1}', b"[]"][
                ident % 4
            ]
        broker.script.append((delay, kind, ident, bytes(payload)))
    return broker, calls


async def run_listen(
    broker: ScriptedBroker,
    stop_after: Optional[float],
    wait_all_taken: bool,
    **receiver_kwargs: Any,
) -> Tuple[bool, Receiver]:
    """Run receiver.listen(); request a graceful stop; report whether it stopped."""
    receiver = Receiver(broker, run_startup=False, **receiver_kwargs)
    finish_event = asyncio.Event()
    listen_task = asyncio.create_task(receiver.listen(finish_event))
    if wait_all_taken:
        for _ in range(2000):
            if len(broker.taken) == len(broker.script) or listen_task.done():
                break
            await asyncio.sleep(0.005)
    if stop_after is not None:
        await asyncio.sleep(stop_after)
    finish_event.set()
    stopped = True
    try:
        await asyncio.wait_for(asyncio.shield(listen_task), timeout=10)
    except asyncio.TimeoutError:
        stopped = False
        listen_task.cancel()
        try:
            await listen_task
        except BaseException:  # noqa: BLE001
            pass
    return stopped, receiver


def check(
    name: str,
    broker: ScriptedBroker,
    calls: "Counter[int]",
    stopped: bool,
    expect_all_taken: bool,
) -> List[str]:
    problems = []
    taken_valid = {ident for kind, ident in broker.taken if kind == VALID}
    taken_other = {ident for kind, ident in broker.taken if kind != VALID}
    if len(broker.taken) != len(set(broker.taken)):
        problems.append("harness error: a script entry was yielded twice")
    for ident in sorted(taken_valid):
        if calls[ident] != 1:
            problems.append(
                f"valid message {ident} was taken but executed {calls[ident]} times",
            )
    for ident in sorted(set(calls) - taken_valid):
        problems.append(f"message {ident} executed although it must not be")
    for ident in sorted(taken_other):
        if calls[ident]:
            problems.append(f"skipped message {ident} was executed")
    if expect_all_taken and len(broker.taken) != len(broker.script):
        problems.append(
            f"only {len(broker.taken)} of {len(broker.script)} messages were taken",
        )
    if not stopped:
        problems.append("listen() did not terminate")
    status = "ok" if not problems else "FAILED"
    print(
        f"[{status}] {name}: taken={len(broker.taken)}/{len(broker.script)} "
        f"valid_taken={len(taken_valid)} executed={sum(calls.values())}",
    )
    return [f"{name}: {p}" for p in problems]


class GatedBroker(ScriptedBroker):
    """Broker that hands over message i when gate i is opened."""

    def __init__(self, count: int) -> None:
        super().__init__(ackable=False)
        self.gates = [asyncio.Event() for _ in range(count)]

    async def listen(self) -> AsyncGenerator[bytes, None]:  # type: ignore
        for gate, (_, kind, ident, payload) in zip(self.gates, self.script):
            await gate.wait()
            self.taken.append((kind, ident))
            yield payload
        await asyncio.Event().wait()


async def simultaneous(order: str, k: int, cfg: Dict[str, Any]) -> List[str]:
    """Open gate k and request the stop in one event-loop step."""
    count = 5
    broker = GatedBroker(count)
    _, calls = await build(
        [VALID] * count, [0.0] * count, False, duration=0.08, broker=broker,
    )  # fmt: skip
    receiver = Receiver(broker, run_startup=False, **cfg)
    finish_event = asyncio.Event()
    listen_task = asyncio.create_task(receiver.listen(finish_event))
    await asyncio.sleep(0.02)  # the prefetcher is waiting for message 0 now
    for gate in broker.gates[:k]:
        gate.set()
        await asyncio.sleep(0.02)
    # No await between the two calls: same loop step.
    if order == "arrive-then-stop":
        broker.gates[k].set()
        finish_event.set()
    else:
        finish_event.set()
        broker.gates[k].set()
    await asyncio.sleep(0.01)
    # Later arrivals must not matter.
    for gate in broker.gates[k + 1 :]:
        gate.set()
    stopped = True
    try:
        await asyncio.wait_for(asyncio.shield(listen_task), timeout=10)
    except asyncio.TimeoutError:
        stopped = False
        listen_task.cancel()
    return check(f"{order} k={k} {cfg}", broker, calls, stopped, False)


MIXED = [
    VALID, MALFORMED, VALID, UNKNOWN, VALID, VALID, MALFORMED, MALFORMED,
    VALID, UNKNOWN, UNKNOWN, VALID, VALID, MALFORMED, VALID, VALID,
]  # fmt: skip


async def main() -> int:  # noqa: C901, PLR0912
    problems: List[str] = []

    # 1. Mixed streams, all delivered, several concurrency/prefetch settings,
    #    raw bytes and ackable messages, all acknowledge types.
    configs: List[Dict[str, Any]] = [
        {"max_async_tasks": 1, "max_prefetch": 0},
        {"max_async_tasks": 1, "max_prefetch": 3},
        {"max_async_tasks": 2, "max_prefetch": 1},
        {"max_async_tasks": 5, "max_prefetch": 0},
        {"max_async_tasks": None, "max_prefetch": 2},
    ]
    for cfg in configs:
        for ackable in (False, True):
            for ack_type in (
                (AcknowledgeType.WHEN_RECEIVED, AcknowledgeType.WHEN_SAVED)
                if ackable
                else (None,)
            ):
                broker, calls = await build(MIXED, [0.0] * len(MIXED), ackable)
                stopped, _ = await run_listen(
                    broker,
                    0.3,
                    True,
                    ack_type=ack_type,
                    **cfg,
                )
                problems += check(
                    f"mixed {cfg} ackable={ackable} ack={ack_type}",
                    broker,
                    calls,
                    stopped,
                    True,
                )
                if ackable:
                    for kind, ident in broker.taken:
                        if kind == VALID and broker.acks[ident] != 1:
                            problems.append(
                                f"valid message {ident} acked "
                                f"{broker.acks[ident]} times",
                            )

    # 2. Graceful stop requested at various instants while messages keep coming
    #    (one every 20 ms, tasks take 50 ms): what was taken is executed once.
    kinds = [VALID, VALID, MALFORMED, VALID, UNKNOWN] * 8
    for stop_at in (0.0, 0.03, 0.11, 0.2, 0.31, 0.45):
        for cfg in ({"max_async_tasks": 1, "max_prefetch": 2},
                    {"max_async_tasks": 3, "max_prefetch": 0}):  # fmt: skip
            broker, calls = await build(kinds, [0.02] * len(kinds), True, duration=0.05)
            stopped, _ = await run_listen(broker, stop_at, False, **cfg)
            problems += check(
                f"stop at {stop_at}s {cfg}", broker, calls, stopped, False,
            )  # fmt: skip

    # 3. max_tasks_to_execute: recycle after a quota of taken messages. Skipped
    #    messages count towards the quota; nothing beyond the quota is taken.
    for quota in (1, 4, 7):
        for cfg in ({"max_async_tasks": 1, "max_prefetch": 0},
                    {"max_async_tasks": 4, "max_prefetch": 3}):  # fmt: skip
            broker, calls = await build(MIXED, [0.0] * len(MIXED), True)
            receiver = Receiver(
                broker, run_startup=False, max_tasks_to_execute=quota, **cfg,
            )  # fmt: skip
            listen_task = asyncio.create_task(receiver.listen(asyncio.Event()))
            stopped = True
            try:
                await asyncio.wait_for(asyncio.shield(listen_task), timeout=10)
            except asyncio.TimeoutError:
                stopped = False
                listen_task.cancel()
            problems += check(f"quota {quota} {cfg}", broker, calls, stopped, False)
            if len(broker.taken) != quota:
                problems.append(
                    f"quota {quota} {cfg}: {len(broker.taken)} messages taken",
                )

    # 4. Stop requested while the stream is idle (nothing arrives any more):
    #    listen() terminates and everything taken before was executed once.
    for cfg in ({"max_async_tasks": 1, "max_prefetch": 0},
                {"max_async_tasks": 2, "max_prefetch": 2}):  # fmt: skip
        broker, calls = await build(MIXED[:6], [0.0] * 6, True)
        stopped, _ = await run_listen(broker, 0.5, True, **cfg)
        problems += check(f"idle stop {cfg}", broker, calls, stopped, True)

    # 5. The stop is requested in the very same event-loop step in which the
    #    k-th message arrives (both orders), also while all execution slots
    #    are busy. Whatever the broker handed over must be executed once.
    for order in ("arrive-then-stop", "stop-then-arrive"):
        for k in (0, 1, 3):
            for cfg in ({"max_async_tasks": 1, "max_prefetch": 0},
                        {"max_async_tasks": 1, "max_prefetch": 1},
                        {"max_async_tasks": 3, "max_prefetch": 2}):  # fmt: skip
                problems += await simultaneous(order, k, cfg)

    if problems:
        print("C01 VIOLATED:")
        for problem in problems:
            print("  -", problem)
        return 1
    print("C01 holds in all scenarios.")
    return 0


if __name__ == "__main__":
    sys.exit(asyncio.run(main()))
