#!/usr/bin/env python3
"""Apply a seeded change to /repo, run the checks, undo it.   tools/seedtest.py <seed-dir-or-patch> [Cxx ...]
Evidence/replays of these runs go to a temporary directory (PYVC_OUT) so that the committed evidence is not disturbed."""
import sys, os, subprocess, json, tempfile, shutil, concurrent.futures as cf
ROOT = os.path.dirname(os.path.dirname(os.path.abspath(__file__)))
def main():
    src = sys.argv[1]; patch = src if src.endswith('.diff') else os.path.join(src, 'patch.diff'); props = sys.argv[2:] or [json.loads(l)['id'] for l in open(os.path.join(ROOT, 'properties.jsonl'))]
    st = subprocess.run(['git', '-C', '/repo', 'status', '--porcelain'], capture_output=True, text=True).stdout.strip()
    if st: print("refusing: /repo working tree is not clean:\n" + st); sys.exit(2)
    r = subprocess.run(['git', '-C', '/repo', 'apply', os.path.abspath(patch)], capture_output=True, text=True)
    if r.returncode: print("patch does not apply:", r.stderr); sys.exit(2)
    out = tempfile.mkdtemp(prefix='pyvc-seed-'); res = {}
    try:
        env = dict(os.environ, PYVC_OUT=out, PYVC_PROCS='6', PYVC_CACHE=os.path.join(out, 'unit-cache'), PYVC_TIMEOUT_MS='8000')
        def one(p):
            r = subprocess.run([os.path.join(ROOT, 'check'), p], capture_output=True, text=True, env=env, cwd=ROOT)
            return p, r.returncode, [l for l in r.stdout.splitlines() if l.startswith(('VIOLATION', 'UNDECIDED', 'BROKEN'))]
        with cf.ThreadPoolExecutor(5) as ex:
            for p, rc, lines in ex.map(one, props): res[p] = (rc, lines)
        for p in props:
            rc, lines = res[p]
            if rc: print(p, 'exit', rc); [print('    ' + l[:230]) for l in lines[:6]]
        caught = [p for p in props if res[p][0] == 1]
        print("CAUGHT by:", caught or 'NONE', "| undecided:", [p for p in props if res[p][0] == 2], "| broken:", [p for p in props if res[p][0] == 3])
    finally:
        subprocess.run(['git', '-C', '/repo', 'checkout', '--', '.']); shutil.rmtree(out, ignore_errors=True)
if __name__ == '__main__': main()
