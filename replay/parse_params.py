"""Native replay for unit `parse_params` (C08): bounded native search over small task signatures around the verifier's counterexample.
For every signature with <= 3 parameters (annotated int / un-annotated / Any, in any order) and every split of the arguments into
positional / keyword, run the REAL parse_params and compare with the statement: each argument is converted by the annotation of the
parameter the caller bound it to (when convertible), otherwise unchanged.  Run with /venv/bin/python.  Prints one JSON line."""
import sys, json, itertools, inspect, typing, logging
logging.disable(logging.CRITICAL)

def run(sc):
    from taskiq.receiver.params_parser import parse_params
    from taskiq.message import TaskiqMessage
    from taskiq.compat import parse_obj_as
    ANN = {'int': int, 'none': inspect.Parameter.empty, 'any': typing.Any, 'set': typing.Set[int], 'float': float}
    fails = []; n = 0
    values = ["3", "x", None, 7, [], 0]
    for npar in (1, 2, 3):
        for kinds in itertools.product(('none', 'int', 'any', 'set', 'float') if npar < 3 else ('none', 'int', 'any'), repeat=npar):
            names = ['p%d' % i for i in range(npar)]
            params = [inspect.Parameter(nm, inspect.Parameter.POSITIONAL_OR_KEYWORD, annotation=ANN[k]) for nm, k in zip(names, kinds)]
            sig = inspect.Signature(params); hints = {nm: ANN[k] for nm, k in zip(names, kinds) if k != 'none'}
            for npos in range(npar + 1):
                for vals in itertools.product(values, repeat=npar):
                    args = list(vals[:npos]); kwargs = {nm: v for nm, v in zip(names[npos:], vals[npos:])}
                    msg = TaskiqMessage(task_id='i', task_name='t', labels={}, args=list(args), kwargs=dict(kwargs)); n += 1
                    try: parse_params(sig, hints, msg)
                    except Exception as ex:
                        fails.append({'key': f"{kinds}/{npos}/{vals}", 'failed_clauses': [f"C08: parse_params raised {type(ex).__name__}"]}); continue
                    def want(nm, v):
                        if nm not in hints or v is None: return v
                        try: return parse_obj_as(hints[nm], v)
                        except (ValueError, RuntimeError): return v
                    exp_args = [want(names[j], args[j]) for j in range(npos)]; exp_kw = {nm: want(nm, v) for nm, v in kwargs.items()}
                    def same(a, b): return type(a) is type(b) and a == b
                    if len(msg.args) != len(exp_args) or not all(same(a, b) for a, b in zip(msg.args, exp_args)) or set(msg.kwargs) != set(exp_kw) or not all(same(msg.kwargs[k], exp_kw[k]) for k in exp_kw):
                        if len(fails) < 50:
                            sigtxt = "def f(" + ", ".join(nm + {'int': ': int', 'any': ': Any', 'set': ': Set[int]', 'float': ': float', 'none': ''}[k] for nm, k in zip(names, kinds)) + ")"
                            fails.append({'key': f"{sigtxt} args={args} kwargs={kwargs}", 'signature': sigtxt, 'sent_args': args, 'sent_kwargs': kwargs, 'received_args': msg.args, 'received_kwargs': msg.kwargs,
                                          'expected_args': exp_args, 'expected_kwargs': exp_kw,
                                          'failed_clauses': [f"C08: {sigtxt} called with args={args} kwargs={kwargs}: task would receive args={msg.args} kwargs={msg.kwargs}, expected args={exp_args} kwargs={exp_kw}"]})
                    # parsing disabled
                    msg2 = TaskiqMessage(task_id='i', task_name='t', labels={}, args=list(args), kwargs=dict(kwargs)); parse_params(None, hints, msg2)
                    if msg2.args != args or msg2.kwargs != kwargs: fails.append({'key': 'disabled', 'failed_clauses': ["C08: parsing disabled but arguments changed"]})
    # two DIFFERENT annotation types that print alike (a model factory called twice, a hot reload): each value must be converted by its own annotation
    import pydantic
    A = pydantic.create_model('Payload', x=(int, 1)); B = pydantic.create_model('Payload', y=(str, 'dflt'))
    for first, second in ((A, B), (B, A)):
        n += 1
        for ann, val in ((first, {'x': 5} if first is A else {'y': 'v'}), (second, {'x': 5} if second is A else {'y': 'v'})):
            sig = inspect.Signature([inspect.Parameter('p0', inspect.Parameter.POSITIONAL_OR_KEYWORD, annotation=ann)])
            msg = TaskiqMessage(task_id='i', task_name='t', labels={}, args=[dict(val)], kwargs={}); parse_params(sig, {'p0': ann}, msg)
            if type(msg.args[0]) is not ann: fails.append({'key': f"same-repr annotations, {'A then B' if first is A else 'B then A'}", 'failed_clauses': [f"C08: a value annotated with model {ann!r} (fields {list(ann.model_fields)}) arrived as {type(msg.args[0])!r} with fields {list(getattr(type(msg.args[0]), 'model_fields', {}))}: converted by another annotation's adapter"]})
    # two tasks whose signatures are EQUAL as inspect.Signature objects (string annotations: `item: "Item"`, as under `from __future__ import annotations`)
    # while their RESOLVED hints differ (each module has its own Item): each task's value must be converted by ITS hints, whichever was parsed first
    I1 = pydantic.create_model('Item', value=(int, ...)); I2 = pydantic.create_model('Item', value=(str, ...))
    for order in ((I1, I2), (I2, I1)):
        n += 1
        for ann in order:
            for how in ('positional', 'keyword'):
                sig = inspect.Signature([inspect.Parameter('item', inspect.Parameter.POSITIONAL_OR_KEYWORD, annotation='Item'), inspect.Parameter('note', inspect.Parameter.POSITIONAL_OR_KEYWORD, default=None)])
                msg = TaskiqMessage(task_id='i', task_name='t', labels={}, args=[{'value': 7}] if how == 'positional' else [], kwargs={} if how == 'positional' else {'item': {'value': 7}})
                parse_params(sig, {'item': ann}, msg); got = msg.args[0] if how == 'positional' else msg.kwargs['item']
                want = ann(value=7) if ann is I1 else {'value': 7}          # int 7 is not convertible to the str field in pydantic's default (lax) mode: delivered unchanged
                try: want = ann.model_validate({'value': 7})
                except Exception: want = {'value': 7}
                if type(got) is not type(want) or got != want:
                    fails.append({'key': f"equal-signatures-different-hints/{'int-first' if order[0] is I1 else 'str-first'}/{how}", 'failed_clauses': [f"C08: {how} argument of a task annotated `item: \"Item\"` whose hint resolves to a model with field value: {'int' if ann is I1 else 'str'} arrived as {got!r} ({type(got).__module__}.{type(got).__qualname__}), expected {want!r}: parsed with the hints of another task whose signature text is equal"]})
    # two messages that carry EQUAL raw values for an annotated parameter must not share one parsed object (a mutable model / list would leak between executions)
    import typing as _t
    for ann, raw in ((_t.List[int], (1, 2)), (_t.Dict[str, int], None), (_t.Set[int], (3,))):
        if raw is None: continue
        n += 1; sig = inspect.Signature([inspect.Parameter('p0', inspect.Parameter.POSITIONAL_OR_KEYWORD, annotation=ann)]); got_ = []
        for _ in range(2):
            msg = TaskiqMessage(task_id='i', task_name='t', labels={}, args=[raw], kwargs={}); parse_params(sig, {'p0': ann}, msg); got_.append(msg.args[0])
        if got_[0] is got_[1] and not isinstance(got_[0], (tuple, frozenset, int, str)):
            for pid in ('C06', 'C08'): fails.append({'key': f"shared-parsed-object/{ann}", 'failed_clauses': [f"{pid}: two messages with the equal raw value {raw!r} for a parameter annotated {ann} received THE SAME {type(got_[0]).__name__} object: what one execution does to it is seen by the other"]})
    # history: messages carrying EQUAL BUT DIFFERENTLY TYPED scalars (1 == True == 1.0 and they hash alike) for a parameter whose annotation keeps the type
    for ann in (_t.Any, _t.Union[bool, int], _t.Union[int, float]):
        sig = inspect.Signature([inspect.Parameter('p0', inspect.Parameter.POSITIONAL_OR_KEYWORD, annotation=ann)]); seq = [1, True, 1.0, 0, False, 0.0, True, 1]
        lone = []
        for raw in seq:          # what a fresh conversion gives for each value on its own (the reference), taken from pydantic directly
            try: lone.append(pydantic.TypeAdapter(ann).validate_python(raw))
            except Exception: lone.append(raw)
        got_ = []
        for raw in seq:
            n += 1; msg = TaskiqMessage(task_id='i', task_name='t', labels={}, args=[raw], kwargs={}); parse_params(sig, {'p0': ann}, msg); got_.append(msg.args[0])
        bad = [(raw, g, w) for raw, g, w in zip(seq, got_, lone) if type(g) is not type(w) or g != w]
        if bad:
            for pid in ('C06', 'C08'): fails.append({'key': f"equal-scalars-history/{ann}", 'failed_clauses': [f"{pid}: messages carrying {seq} in turn for a parameter annotated {ann}: the task function received {got_}; e.g. the message that carried {bad[0][0]!r} received {bad[0][1]!r} ({type(bad[0][1]).__name__}), the value parsed from an EARLIER message"]})
    # user validation code that raises RuntimeError (not ValueError) while converting: "not convertible" -> the value is delivered unchanged, positionally or by keyword
    import dataclasses
    @dataclasses.dataclass
    class Strict:
        v: int
        def __post_init__(self):
            if self.v < 0: raise RuntimeError("validation code failed")
    for how in ('positional', 'keyword'):
        for val in ({'v': -1}, {'v': 2}):
            n += 1
            sig = inspect.Signature([inspect.Parameter('p0', inspect.Parameter.POSITIONAL_OR_KEYWORD, annotation=Strict), inspect.Parameter('p1', inspect.Parameter.POSITIONAL_OR_KEYWORD, annotation=int)])
            msg = TaskiqMessage(task_id='i', task_name='t', labels={}, args=[dict(val)] if how == 'positional' else [], kwargs={'p1': '4'} if how == 'positional' else {'p0': dict(val), 'p1': '4'})
            try: parse_params(sig, {'p0': Strict, 'p1': int}, msg)
            except BaseException as ex:
                fails.append({'key': f"RuntimeError-in-validator/{how}/{val}", 'failed_clauses': [f"C08: parse_params raised {type(ex).__name__} for a {how} argument whose conversion failed with RuntimeError in user validation code (it must be delivered unchanged)", f"C01: parse_params raised {type(ex).__name__} ({how} argument, RuntimeError in user validation code): run_task calls it outside its try block, so the message is taken but its task function is never invoked"]}); continue
            got = msg.args[0] if how == 'positional' else msg.kwargs['p0']
            want_ = dict(val) if val['v'] < 0 else Strict(2)
            if got != want_ or msg.kwargs.get('p1') != 4: fails.append({'key': f"RuntimeError-in-validator/{how}/{val}", 'failed_clauses': [f"C08: {how} argument {val} annotated with a validating dataclass arrived as {got!r}, p1 as {msg.kwargs.get('p1')!r}"]})
    return {'reproduced': bool(fails), 'runs': n, 'n_failures': len(fails), 'failures': fails[:400], 'bound': 'signatures with <= 3 positional-or-keyword parameters (un-annotated / int / Any / Set[int] / float), values from ["3","x",None,7,[],0]; two same-named pydantic models in both orders'}

if __name__ == '__main__':
    sc = json.load(open(sys.argv[1])) if len(sys.argv) > 1 else {}
    print(json.dumps(run(sc.get('scenario', sc)), default=str))
