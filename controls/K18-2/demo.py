"""
C18 demo: failure budget, reload and shutdown semantics of the process manager.

Run as:
    cd /tmp/wt/C18 && PYTHONPATH=/tmp/wt/C18 /venv/bin/python <path>/demo.py

Part 1 drives the real ``ProcessManager.start`` against deterministic in-process
fakes of Process / Queue / Event / sleep / signal.signal / os.kill and compares
what it observes with an oracle that is written down from the text of the
property (not from the implementation):

  * exhaustive event histories (worker exits, SIGHUP, SIGINT, SIGTERM, several
    of them in one tick) up to a depth bound for max_fails in {-1,0,1,2,3} and
    1..3 workers;
  * seeded random long histories;
  * the same with workers that ignore SIGINT (stay alive after the signal);
  * a fault: a worker vanishes between the liveness check and os.kill()
    (ESRCH); the manager may propagate the error or go on, but must not
    signal anybody twice, signal a foreign pid or start a process.

Part 2 is a smoke test with real processes and real signals: SIGHUP, a crash
below the budget, SIGHUP, SIGTERM; a crash with max_fails=1; SIGINT with
workers that need longer than shutdown_timeout to stop.

Exit status 0 iff every check passed.
"""
import functools
import itertools
import logging
import multiprocessing
import os
import random
import shutil
import signal
import sys
import tempfile
import time
from unittest import mock

import taskiq.cli.worker.process_manager as pm
from taskiq.cli.worker.args import WorkerArgs

HERE = os.path.dirname(os.path.abspath(__file__))
MAX_FAILS = (-1, 0, 1, 2, 3)
QUIET_TICKS = 3  # ticks without events appended to every history


# --------------------------------------------------------------------------
# Part 1: deterministic simulation
# --------------------------------------------------------------------------
class StopSim(Exception):
    """Raised from the fake sleep() when the scripted history is over."""


class FakeQueue:
    def __init__(self, *_a):
        self.items = []

    def put(self, item):
        self.items.append(item)

    def get(self):
        return self.items.pop(0)

    def empty(self):
        return not self.items


class FakeEvent:
    def wait(self, _timeout=None):
        return False


class Sim:
    """One run of the manager over a scripted history.

    ``history`` is a list; element t-1 is the tuple of events that happen while
    the manager sleeps at the beginning of tick t: ("die", slot), ("hup",),
    ("int",), ("term",).
    """

    current = None  # the Sim the module-level fakes talk to

    def __init__(self, workers, max_fails, history, stubborn=False, vanish=()):
        self.vanish = set(vanish)  # slots that disappear between is_alive() and kill
        self.n = workers
        self.max_fails = max_fails
        self.history = list(history) + [()] * QUIET_TICKS
        self.stubborn = stubborn
        self.tick = 0
        self.procs = []  # every process object ever created
        self.pids = itertools.count(1000)
        self.handlers = {}
        self.starts = {}  # tick -> list of slots started (tick 0 = initial spawn)
        self.kills = {}  # tick -> list of (slot, pid, signum)
        self.boundary_dead = {}  # tick -> slots found dead by the previous health check
        self.died = {}  # tick -> slots that exited during the sleep of that tick
        self.violations = []
        self.manager = None
        self.args = WorkerArgs(
            broker="demo:broker",
            modules=[],
            workers=workers,
            max_fails=max_fails,
        )

    def slot_of(self, proc):
        workers = self.manager.workers if self.manager else []
        for idx, worker in enumerate(workers):
            if worker is proc:
                return idx
        return None

    def run(self):
        Sim.current = self
        self.manager = pm.ProcessManager(
            args=self.args,
            worker_function=lambda args: None,
        )
        try:
            status = self.manager.start()
        except StopSim:
            return ("running", None, self.tick)
        return ("returned", status, self.tick)


class FakeProcess:
    def __init__(self, target=None, kwargs=None, name=None, daemon=None):
        self.sim = Sim.current
        self.name = name
        self.daemon = daemon
        self.pid = None
        self.alive = False
        self.exitcode = None
        self.sim.procs.append(self)

    def start(self):
        sim = self.sim
        if self.pid is not None:
            sim.violations.append(f"tick {sim.tick}: {self.name} started twice")
        self.pid = next(sim.pids)
        self.alive = True
        slot = int(self.name.rsplit("-", 1)[1])
        sim.starts.setdefault(sim.tick, []).append(slot)

    def terminate(self):
        sim = self.sim
        if sim.slot_of(self) is None:
            sim.violations.append(
                f"tick {sim.tick}: terminate() of pid {self.pid} which is not a "
                "current worker",
            )
        if self.alive:
            self.alive = False
            self.exitcode = -signal.SIGTERM

    def kill(self):
        self.terminate()

    def join(self, _timeout=None):
        return None

    def is_alive(self):
        return self.alive


def fake_sleep(_secs):
    sim = Sim.current
    sim.tick += 1
    tick = sim.tick
    workers = sim.manager.workers
    # What the health check of the previous tick has seen.
    sim.boundary_dead[tick] = [i for i, w in enumerate(workers) if not w.alive]
    # Every live process must be one of the current workers (restart = the
    # old process is gone, the new one took the slot).
    for proc in sim.procs:
        if proc.alive and sim.slot_of(proc) is None:
            sim.violations.append(f"tick {tick}: live process {proc.pid} lost its slot")
    if len(workers) != sim.n:
        sim.violations.append(f"tick {tick}: {len(workers)} worker slots, not {sim.n}")
    if tick > len(sim.history):
        raise StopSim
    for event in sim.history[tick - 1]:
        if event[0] == "die":
            proc = workers[event[1]]
            if proc.alive:
                proc.alive = False
                proc.exitcode = 1
                sim.died.setdefault(tick, []).append(event[1])
        elif event[0] == "hup":
            sim.handlers[signal.SIGHUP](signal.SIGHUP, None)
        elif event[0] == "int":
            sim.handlers[signal.SIGINT](signal.SIGINT, None)
        elif event[0] == "term":
            sim.handlers[signal.SIGTERM](signal.SIGTERM, None)


def fake_signal(signum, handler):
    Sim.current.handlers[signum] = handler


def fake_kill(pid, signum):
    sim = Sim.current
    target = None
    for proc in sim.procs:
        if proc.pid == pid:
            target = proc
    slot = sim.slot_of(target) if target is not None else None
    if slot is None:
        sim.violations.append(
            f"tick {sim.tick}: signal {signum} sent to pid {pid} which is not a "
            "current worker",
        )
    elif not target.alive:
        sim.violations.append(f"tick {sim.tick}: signal sent to dead worker {pid}")
    if slot in sim.vanish and target.alive:
        # Fault: the worker exits on its own in the window between the
        # liveness check and the signal; the pid does not exist any more.
        target.alive = False
        target.exitcode = 1
        raise ProcessLookupError(3, "No such process")
    sim.kills.setdefault(sim.tick, []).append((slot, pid, signum))
    if target is not None and target.alive and not sim.stubborn:
        target.alive = False
        target.exitcode = 0


def oracle(sim):
    """What the property says must be observed for sim.history.

    Returns (outcome, starts, kills): outcome like Sim.run(), starts maps
    tick -> sorted list of slots (re)started in that tick, kills maps
    tick -> sorted list of slots signalled.
    """
    handled = 0
    starts = {0: list(range(sim.n))}
    kills = {}
    for tick in range(1, len(sim.history) + 1):
        events = sim.history[tick - 1]
        failed = sim.boundary_dead.get(tick)
        if failed is None:
            raise AssertionError("manager returned earlier than expected")
        restarted = []
        # Unexpected exits found by the previous health check are handled
        # first: they were queued before this tick's signals.
        for slot in failed:
            handled += 1
            if sim.max_fails >= 1 and handled == sim.max_fails:
                if restarted:
                    starts[tick] = sorted(restarted)
                return ("returned", -1, tick), starts, kills
            restarted.append(slot)
        if any(ev[0] in ("int", "term") for ev in events):
            # Shutdown wins over a reload requested in the same tick.
            died = set(sim.died.get(tick, ()))
            live = [slot for slot in range(sim.n) if slot not in died]
            if live:
                kills[tick] = live
            if restarted:
                starts[tick] = sorted(restarted)
            return ("returned", None, tick), starts, kills
        if any(ev[0] == "hup" for ev in events):
            restarted = list(range(sim.n))  # everyone, exactly once
        if restarted:
            starts[tick] = sorted(restarted)
    return ("running", None, len(sim.history) + 1), starts, kills


def check(workers, max_fails, history, stubborn=False):
    sim = Sim(workers, max_fails, history, stubborn)
    got = sim.run()
    problems = list(sim.violations)
    try:
        want, want_starts, want_kills = oracle(sim)
    except AssertionError as exc:
        problems.append(str(exc))
        want, want_starts, want_kills = None, None, None
    if want is not None:
        if got != want:
            problems.append(f"outcome {got}, expected {want}")
        got_starts = {t: sorted(s) for t, s in sim.starts.items()}
        if got_starts != want_starts:
            problems.append(f"starts per tick {got_starts}, expected {want_starts}")
        got_kills = {t: sorted(k[0] for k in ks) for t, ks in sim.kills.items()}
        if got_kills != want_kills:
            problems.append(f"signalled slots {got_kills}, expected {want_kills}")
        for ks in sim.kills.values():
            for _slot, _pid, signum in ks:
                if signum != signal.SIGINT:
                    problems.append(f"unexpected signal number {signum}")
    if problems:
        check.failed += 1
    if problems and check.failed <= 10:  # do not flood the terminal
        print(
            f"[FAIL] workers={workers} max_fails={max_fails} stubborn={stubborn} "
            f"history={history}",
        )
        for problem in problems:
            print("       ", problem)
    return not problems


check.failed = 0


def check_vanish(workers, max_fails, slot):
    """Fault case: os.kill() fails with ESRCH for a worker that has just exited.

    The manager either propagates the error (no status is returned at all) or
    goes on; both are compatible with the property as long as nobody is
    signalled twice, no foreign pid is signalled, nothing is started, and a
    returned status is the success status with all other workers signalled.
    """
    sim = Sim(workers, max_fails, [(), (("int",),)], vanish=[slot])
    problems = []
    try:
        got = sim.run()
    except ProcessLookupError:
        got = ("raised", None, sim.tick)
    problems += sim.violations
    others = [i for i in range(workers) if i != slot]
    signalled = [k[0] for ks in sim.kills.values() for k in ks]
    if len(signalled) != len(set(signalled)) or not set(signalled) <= set(others):
        problems.append(f"signalled slots {signalled}")
    if got[0] == "returned":
        if got[1] is not None or sorted(signalled) != others:
            problems.append(f"outcome {got}, signalled {signalled}")
    elif got[0] != "raised":
        problems.append(f"outcome {got}")
    if sim.starts != {0: list(range(workers))}:
        problems.append(f"starts {sim.starts}")
    if problems:
        print(f"[FAIL] vanish workers={workers} max_fails={max_fails} slot={slot}")
        for problem in problems:
            print("       ", problem)
    return not problems, got[0]


def tick_options(workers, full):
    dies = [("die", i) for i in range(workers)]
    opts = [(), (("hup",),), (("int",),)]
    opts += [(d,) for d in dies]
    opts += [(d, ("hup",)) for d in dies]
    if full:
        opts += [(("term",),), (("hup",), ("hup",))]
        opts += [(("hup",), ("int",)), (("int",), ("hup",))]
        opts += [(d, ("int",)) for d in dies]
        opts += [tuple(pair) for pair in itertools.combinations(dies, 2)]
        if workers == 3:
            opts.append(tuple(dies))
    return opts


def histories(workers, depth, full):
    """All histories up to `depth` ticks; nothing follows a shutdown tick."""
    opts = tick_options(workers, full)

    def rec(prefix):
        yield prefix
        if len(prefix) == depth:
            return
        for opt in opts:
            new = prefix + [opt]
            if any(ev[0] in ("int", "term") for ev in opt):
                yield new
            else:
                yield from rec(new)

    return rec([])


def random_history(rng, workers, length):
    out = []
    for tick in range(length):
        events = []
        for slot in range(workers):
            if rng.random() < 0.12:
                events.append(("die", slot))
        if rng.random() < 0.2:
            events.append(("hup",))
        if rng.random() < 0.05:
            events.append(("hup",))
        if tick > length // 2 and rng.random() < 0.05:
            events.append((rng.choice(["int", "term"]),))
        rng.shuffle(events)
        out.append(tuple(events))
    return out


def simulated_part():
    patches = [
        mock.patch.object(pm, "Queue", FakeQueue),
        mock.patch.object(pm, "Event", FakeEvent),
        mock.patch.object(pm, "Process", FakeProcess),
        mock.patch.object(pm, "sleep", fake_sleep),
        mock.patch.object(pm.signal, "signal", fake_signal),
        mock.patch.object(pm.os, "kill", fake_kill),
    ]
    for patch in patches:
        patch.start()
    logging.disable(logging.CRITICAL)
    runs = 0
    bad = 0
    try:
        # Exhaustive, bounded depth.
        for workers in (1, 2, 3):
            for depth, full in ((3, True), (4, False)):
                if workers == 3 and not full:
                    depth = 3
                for history in histories(workers, depth, full):
                    for max_fails in MAX_FAILS:
                        runs += 1
                        bad += not check(workers, max_fails, history)
        # Workers that ignore SIGINT.
        for workers in (1, 2, 3):
            for history in histories(workers, 2, True):
                for max_fails in MAX_FAILS:
                    runs += 1
                    bad += not check(workers, max_fails, history, stubborn=True)
        # A worker that vanishes between the liveness check and the signal.
        seen = set()
        for workers in (1, 2, 3):
            for slot in range(workers):
                for max_fails in MAX_FAILS:
                    runs += 1
                    good, how = check_vanish(workers, max_fails, slot)
                    bad += not good
                    seen.add(how)
        print(f"vanishing worker at shutdown: manager {'/'.join(sorted(seen))}")
        # Random long histories.
        rng = random.Random(18)
        for idx in range(400):
            workers = 1 + idx % 3
            max_fails = MAX_FAILS[idx % 5] if idx % 2 else rng.choice(MAX_FAILS)
            history = random_history(rng, workers, 60)
            runs += 1
            bad += not check(workers, max_fails, history, stubborn=bool(idx % 7 == 0))
        # Long histories with a large budget never fail early.
        for idx in range(50):
            history = random_history(rng, 3, 80)
            runs += 1
            bad += not check(3, 3, history)
    finally:
        logging.disable(logging.NOTSET)
        for patch in patches:
            patch.stop()
    print(f"simulation: {runs} histories checked, {bad} failed")
    return bad == 0


# --------------------------------------------------------------------------
# Part 2: real processes, real signals
# --------------------------------------------------------------------------
def real_worker(tmp, linger, args):
    pid = os.getpid()
    name = multiprocessing.current_process().name
    got = []

    def on_int(_signum, _frame):
        with open(os.path.join(tmp, f"sigint-{pid}"), "a") as file:
            file.write("x\n")
        got.append(time.monotonic())

    signal.signal(signal.SIGINT, on_int)
    signal.signal(signal.SIGTERM, signal.SIG_DFL)
    signal.signal(signal.SIGHUP, signal.SIG_DFL)
    with open(os.path.join(tmp, f"start-{name}-{pid}"), "w") as file:
        file.write(str(time.time_ns()))
    while True:
        time.sleep(0.05)
        # Stay around for a moment after SIGINT to catch a second signal.
        if got and time.monotonic() - got[0] > linger:
            os._exit(0)


def manager_main(tmp, workers, max_fails, linger, shutdown_timeout):
    args = WorkerArgs(
        broker="demo:broker",
        modules=[],
        workers=workers,
        max_fails=max_fails,
        shutdown_timeout=shutdown_timeout,
    )
    manager = pm.ProcessManager(
        args=args,
        worker_function=functools.partial(real_worker, tmp, linger),
    )
    status = manager.start()
    with open(os.path.join(tmp, "status"), "w") as file:
        file.write(repr(status))
    os._exit(0)


def started(tmp):
    """List of (time_ns, name, pid) of all workers ever started."""
    out = []
    for fname in os.listdir(tmp):
        if fname.startswith("start-"):
            _, rest = fname.split("-", 1)
            name, pid = rest.rsplit("-", 1)
            with open(os.path.join(tmp, fname)) as file:
                text = file.read()
            if text:
                out.append((int(text), name, int(pid)))
    return sorted(out)


def current(tmp):
    out = {}
    for _ns, name, pid in started(tmp):
        out[name] = pid
    return out


def sigints(tmp):
    out = {}
    for fname in os.listdir(tmp):
        if fname.startswith("sigint-"):
            with open(os.path.join(tmp, fname)) as file:
                out[int(fname.split("-")[1])] = len(file.read().split())
    return out


def wait_for(cond, timeout):
    deadline = time.monotonic() + timeout
    while time.monotonic() < deadline:
        if cond():
            return True
        time.sleep(0.05)
    return cond()


def pid_alive(pid):
    try:
        with open(f"/proc/{pid}/stat") as file:
            return file.read().rsplit(")", 1)[1].split()[0] != "Z"
    except OSError:
        return False


def real_scenario(workers, max_fails, script, linger=0.7, shutdown_timeout=5):
    """script(tmp, manager_process, expect) drives the scenario."""
    ctx = multiprocessing.get_context("fork")
    tmp = tempfile.mkdtemp(prefix="demo-tmp-", dir=HERE)
    problems = []

    def expect(cond, text):
        if not cond:
            problems.append(text)

    manager = ctx.Process(
        target=manager_main,
        args=(tmp, workers, max_fails, linger, shutdown_timeout),
        name="manager",
    )
    manager.start()
    try:
        expect(
            wait_for(lambda: len(started(tmp)) == workers, 15),
            "initial workers did not start",
        )
        time.sleep(1.5)
        script(tmp, manager, expect)
    finally:
        for _ns, _name, pid in started(tmp):
            try:
                os.kill(pid, signal.SIGKILL)
            except OSError:
                pass
        if manager.is_alive():
            manager.kill()
        manager.join(10)
        shutil.rmtree(tmp, ignore_errors=True)
    return problems


def script_reload_fail_shutdown(tmp, manager, expect):
    first = current(tmp)
    os.kill(manager.pid, signal.SIGHUP)
    wait_for(lambda: len(started(tmp)) >= 4, 15)
    time.sleep(2.5)
    expect(len(started(tmp)) == 4, f"SIGHUP: {len(started(tmp))} starts, expected 4")
    second = current(tmp)
    expect(
        set(first) == set(second) and all(first[k] != second[k] for k in first),
        f"SIGHUP did not replace every worker: {first} -> {second}",
    )
    expect(
        not any(pid_alive(pid) for pid in first.values()),
        "an old worker survived the reload",
    )
    # One unexpected exit: below the budget of 2, the worker is replaced.
    os.kill(second["worker-0"], signal.SIGKILL)
    wait_for(lambda: len(started(tmp)) >= 5, 15)
    time.sleep(2.5)
    expect(len(started(tmp)) == 5, f"crash: {len(started(tmp))} starts, expected 5")
    expect(manager.is_alive(), "manager exited below the failure budget")
    expect(not os.path.exists(os.path.join(tmp, "status")), "manager returned early")
    third = current(tmp)
    expect(third["worker-1"] == second["worker-1"], "healthy worker was restarted")
    # A second SIGHUP must not consume the budget (1 of 2 used so far).
    os.kill(manager.pid, signal.SIGHUP)
    wait_for(lambda: len(started(tmp)) >= 7, 15)
    time.sleep(2.5)
    expect(len(started(tmp)) == 7, f"SIGHUP 2: {len(started(tmp))} starts, expected 7")
    expect(manager.is_alive(), "reload consumed the failure budget")
    last = current(tmp)
    # Shutdown.
    os.kill(manager.pid, signal.SIGTERM)
    expect(
        wait_for(lambda: os.path.exists(os.path.join(tmp, "status")), 20),
        "manager did not return after SIGTERM",
    )
    time.sleep(1.5)
    with open(os.path.join(tmp, "status")) as file:
        status = file.read()
    expect(status == "None", f"shutdown status {status}, expected None")
    expect(
        sigints(tmp) == {pid: 1 for pid in last.values()},
        f"SIGINT counts {sigints(tmp)}, expected one for each of {last}",
    )
    expect(len(started(tmp)) == 7, "a process was started during shutdown")


def script_budget_of_one(tmp, manager, expect):
    first = current(tmp)
    os.kill(first["worker-1"], signal.SIGKILL)
    expect(
        wait_for(lambda: os.path.exists(os.path.join(tmp, "status")), 15),
        "manager did not return after the budget was spent",
    )
    with open(os.path.join(tmp, "status")) as file:
        status = file.read()
    expect(status == "-1", f"status {status}, expected -1")
    expect(len(started(tmp)) == 2, "a worker was restarted although max_fails=1")
    expect(sigints(tmp) == {}, f"workers were signalled: {sigints(tmp)}")


def script_slow_shutdown(tmp, manager, expect):
    """Workers need 2.5 s to stop, shutdown_timeout is 1 s."""
    first = current(tmp)
    os.kill(manager.pid, signal.SIGINT)
    expect(
        wait_for(lambda: os.path.exists(os.path.join(tmp, "status")), 20),
        "manager did not return after SIGINT",
    )
    with open(os.path.join(tmp, "status")) as file:
        status = file.read()
    expect(status == "None", f"shutdown status {status}, expected None")
    # Let the slow workers finish, then count what they have received.
    expect(
        wait_for(lambda: not any(pid_alive(p) for p in first.values()), 10),
        "workers did not stop after SIGINT",
    )
    expect(
        sigints(tmp) == {pid: 1 for pid in first.values()},
        f"SIGINT counts {sigints(tmp)}, expected one for each of {first}",
    )
    expect(len(started(tmp)) == 3, "a process was started during shutdown")


def real_part():
    ok = True
    for title, workers, max_fails, script, kwargs in (
        (
            "SIGHUP, crash, SIGHUP, SIGTERM (max_fails=2)",
            2, 2, script_reload_fail_shutdown, {},
        ),
        ("crash with max_fails=1", 2, 1, script_budget_of_one, {}),
        (
            "SIGINT with slow workers (max_fails=1)",
            3, 1, script_slow_shutdown, {"linger": 2.5, "shutdown_timeout": 1},
        ),
    ):
        problems = real_scenario(workers, max_fails, script, **kwargs)
        print(f"real processes: {title}: {'ok' if not problems else 'FAIL'}")
        for problem in problems:
            print("       ", problem)
        ok = ok and not problems
    return ok


def main():
    ok = simulated_part()
    ok = real_part() and ok
    if not ok:
        print("FAILURE: property C18 violated")
        return 1
    print("OK: property C18 holds on all checked histories")
    return 0


if __name__ == "__main__":
    sys.exit(main())
