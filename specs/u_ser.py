"""Unit `ser`: taskiq/serialization.py — _safe_str, safe_repr, ensure_serializable, find_pickleable_exception, get_pickleable_exception,
_UnpickleableExceptionWrapper.from_exception, _prepare_exception, exception_to_python (links) — C19.

(no escape)  with user code (repr, str, cls(*args), coder.dumps/loads) allowed to raise any Exception, none of the preparation functions lets an
             Exception escape;  (cycle cut)  every recursive call of _prepare_exception is made while the current exception is in SEEN and the callee
             returns None at once for an exception already on the path; the `finally` restores SEEN;
(links)      ExceptionRepr fields are built from the right attributes (qualified name, module, safe args, cause, context unless suppressed, suppress
             flag) and exception_to_python restores __cause__/__context__/__suppress_context__ from them.
Equality through json/pickle/pydantic is NOT decided here (bounded supplement replay/ser.py, labelled bounded)."""
import ast
from z3 import *
from pyvc.core import *

PROPS = ['C19']
REPLAY = {'driver': 'ser'}
REL = 'taskiq/serialization.py'
TRUSTED = [
    "user code (repr, str, cls(*args), coder.dumps/loads, getattr(exc, 'args', [])) may raise any Exception; an exception raised by user __repr__/__str__ is itself printable (so '{!r}'.format(...) of it does not raise)",
    "attribute reads (exc.__cause__, exc.__context__, type(exc).__module__, ...) are pure; id() is injective on live objects",
    "_itermro/takewhile/getmro/traceback.format_stack/tuple are total; ExceptionRepr(...) keeps the fields it is given",
    "recursion: _prepare_exception's own contract (SEEN unchanged on return; returns None for an exception already in SEEN) is used at its recursive call sites (induction over the finite set of reachable exceptions not in SEEN)",
]

class ModuleStateMixin:
    """module-level mutable state other than SEEN_EXCEPTIONS_CACHE (e.g. a hand-written memo) may hold anything earlier calls left there:
    membership tests on it are unconstrained booleans, reads are unconstrained values, writes give no knowledge"""
    def _is_unknown_global(self, node, st):
        return isinstance(node, ast.Name) and node.id not in st.env and node.id.isupper() and node.id != 'SEEN_EXCEPTIONS_CACHE' and node.id != 'UNWANTED_BASE_CLASSES'
    def ev_Compare(self, e, st, k, K):
        if len(e.ops) == 1 and isinstance(e.ops[0], (ast.In, ast.NotIn)) and self._is_unknown_global(e.comparators[0], st):
            self.unmodelled.add('membership in ' + e.comparators[0].id); return k(st, PyBool(fresh('in_' + e.comparators[0].id, BoolSort())))
        return super().ev_Compare(e, st, k, K)
    def ev_Subscript(self, e, st, k, K):
        if self._is_unknown_global(e.value, st): self.unmodelled.add('read of ' + e.value.id); return k(st, fresh('from_' + e.value.id))
        return super().ev_Subscript(e, st, k, K)
    def assign(self, tgt, v, st, k, K):
        if isinstance(tgt, ast.Subscript) and self._is_unknown_global(tgt.value, st): return k(st)
        return super().assign(tgt, v, st, k, K)
    def find_handler(self, name, recv=None):
        h = super().find_handler(name, recv)
        if h is None and name.split('.')[0].isupper() and name.split('.')[0] not in ('SEEN_EXCEPTIONS_CACHE',) and '.' in name:
            return lambda ex_, st_, e, r, a, kw, k, K: k(st_, fresh('from_module_state'))
        return h


def gen_no_escape(src, FN):
    STRICT = False      # printable-exceptions assumption (TRUSTED): an exception raised by user __repr__/__str__ is itself printable
    seen = Function('seen', IntSort(), BoolSort())   # placeholder; SEEN set is ghost array in st.ghost
    def user_may_raise(ex, st, k, K, val=None, base='Exception'):
        ok = st.fork(); k(ok, val if val is not None else fresh('userval'))
        f = st.fork(); K['exc'](f, raise_any(f, base))
    def h_repr(ex, st, e, recv, args, kw, k, K): return user_may_raise(ex, st, k, K)
    def h_str(ex, st, e, recv, args, kw, k, K): return user_may_raise(ex, st, k, K)
    def h_format(ex, st, e, recv, args, kw, k, K):
        if STRICT: return user_may_raise(ex, st, k, K)         # {!r} of the caught exception calls its __repr__
        return k(st, fresh('formatted'))
    def h_pure(name):
        def h(ex, st, e, recv, args, kw, k, K): return k(st, fresh(name))
        return h
    def h_isinstance(ex, st, e, recv, args, kw, k, K): return k(st, PyBool(fresh('isinst', BoolSort())))
    dumps_of = Function('coder_dumps', Val, Val)
    def h_coder(ex, st, e, recv, args, kw, k, K):
        # coder.dumps(x) / coder.loads(y): user code, may raise. Ghost `roundtripped`: the value x for which loads(dumps(x)) has just SUCCEEDED.
        if e.func.attr == 'dumps' and len(args) == 1: return user_may_raise(ex, st, k, K, val=dumps_of(to_val(args[0])))
        if e.func.attr == 'loads' and len(args) == 1:
            y = to_val(args[0]); ok = st.fork()
            if y.decl().eq(dumps_of): ok.ghost = dict(ok.ghost); ok.ghost['roundtripped'] = y.arg(0)
            k(ok, fresh('loaded')); f = st.fork(); return K['exc'](f, raise_any(f, 'Exception'))
        return user_may_raise(ex, st, k, K)
    def h_supercls(ex, st, e, recv, args, kw, k, K): return user_may_raise(ex, st, k, K)
    def h_append(ex, st, e, recv, args, kw, k, K):
        if st.ghost.get('__fname') == 'ensure_serializable' and len(args) == 1:
            v = to_val(args[0]); rt = st.ghost.get('roundtripped'); texts = st.ghost.get('safe_texts', ())
            oblige(st, "ensure_serializable/keep: an argument is kept as it is only after it survived a FULL round trip through the coder (dumps and loads: what dumps accepts, loads may still reject); otherwise its text form is stored  [C19]",
                   BoolVal(any(v.eq(t_) for t_ in texts)) if rt is None else Or(v == rt, BoolVal(any(v.eq(t_) for t_ in texts))))
        return k(st, None)
    def h_id(ex, st, e, recv, args, kw, k, K): return k(st, PyInt(Val.a(to_val(args[0]))))
    def h_seen_add(ex, st, e, recv, args, kw, k, K):
        st.ghost = dict(st.ghost); st.ghost['SEEN'] = Store(st.ghost['SEEN'], ex.as_int(args[0]), True); return k(st, None)
    def h_seen_discard(ex, st, e, recv, args, kw, k, K):
        st.ghost = dict(st.ghost); st.ghost['SEEN'] = Store(st.ghost['SEEN'], ex.as_int(args[0]), False); return k(st, None)
    def h_seen_clear(ex, st, e, recv, args, kw, k, K):
        st.ghost = dict(st.ghost); st.ghost['SEEN'] = K_false; return k(st, None)
    K_false = K(IntSort(), False)
    # contracts of the repo functions (used at call sites; each is also verified below)
    def c_total(name):           # total function: returns a value, raises no Exception
        def h(ex, st, e, recv, args, kw, k, K):
            r = fresh(name)
            if name == 'safe_repr': st.ghost = dict(st.ghost); st.ghost['safe_texts'] = tuple(st.ghost.get('safe_texts', ())) + (r,)
            return k(st, r)
        return h
    def c_prepare_rec(ex, st, e, recv, args, kw, k, K):
        exc_v = to_val(args[0]); g = st.ghost
        oblige(st, "_prepare_exception/rec-call: current exception is on the path (cycle cut)  [C19]", g['SEEN'][st.env_id()])
        oblige(st, "_prepare_exception/rec-call: argument is an exception object (truthy link)", exc_v != Val.none)
        r = fresh('prepared'); st.pc.append(Implies(g['SEEN'][Val.a(exc_v)], r == Val.none)); return k(st, r)     # SEEN unchanged by the callee (its `finally`)
    State.env_id = lambda s: Val.a(to_val(s.ghost['self_exc']))
    class Ex(ModuleStateMixin, Exec):
        def ev_Attribute(self, e, st, k, K):
            p = ast.unparse(e)
            if isinstance(e.value, ast.Name) and e.value.id in ('exc', 'exctype', 'res') and e.value.id in st.env and is_expr(st.env[e.value.id]):
                return k(st, st.heap.field(e.attr)[Val.a(to_val(st.env[e.value.id]))])          # attribute reads are pure and stable
            if p.startswith('exc.') or p.startswith('exctype.') or p.startswith('res.'): return k(st, fresh(p.replace('.', '_')))
            return super().ev_Attribute(e, st, k, K)
        def ev_Starred(self, e, st, k, K): return self.ev(e.value, st, k, K)
        def ev_Compare(self, e, st, k, K):
            if ast.unparse(e) == 'id(exc) in SEEN_EXCEPTIONS_CACHE':
                return k(st, PyBool(st.ghost['SEEN'][self_id(st)]))
            return super().ev_Compare(e, st, k, K)
        def assign(self, tgt, v, st, k, K):
            if isinstance(tgt, ast.Attribute) and ast.unparse(tgt.value) == 'res': return k(st)
            return super().assign(tgt, v, st, k, K)
        def ev_Call(self, e, st, k, K):
            if isinstance(e.func, ast.Name) and e.func.id in st.env and is_expr(st.env[e.func.id]) and e.func.id not in self.handlers:
                return self.ev_list(e.args, st, lambda s2, a_: h_supercls(self, s2, e, None, a_, {}, k, K), K)          # a class object held in a local (e.g. an MRO entry): constructing it is user code
            return super().ev_Call(e, st, k, K)
        def find_handler(self, name, recv=None):
            if name.endswith('.format') or name.endswith('.join'): return h_format if name.endswith('.format') else h_pure('joined')
            if name.endswith('.append'): return h_append
            return super().find_handler(name, recv)
    def self_id(st): return Val.a(to_val(st.env['exc']))
    def h_for(ex, s, st, k, K):
        if isinstance(s.iter, ast.Call): ex.ev(s.iter, st.fork(), lambda s2, v: None, {'exc': lambda s2, x: None})          # the iterable's own call-site obligations (the iteration itself is arbitrary)
        it = st.fork(); it.env = dict(it.env)
        tgt = s.target.id; it.env[tgt] = fresh(tgt)
        K2 = dict(K); K2['cont'] = lambda s3: None
        ex.block(s.body, it, lambda s3: None, K2)          # arbitrary iteration; loops here modify only locals (safe_exc_args.append)
        return k(st.fork())
    def h_itermro(ex_, st, e, recv, args, kw, k, K):
        # find_pickleable_exception: the candidates are the classes of the exception's MRO STARTING WITH ITS OWN CLASS - a fresh instance of the same class built
        # from the same args is the first (and best) candidate: it keeps the original class when only the instance, not the class, is unpicklable
        if st.ghost.get('__fname') == 'find_pickleable_exception' and 'exc' in st.env and is_expr(st.env['exc']):
            oblige(st, "find_pickleable_exception/pre@_itermro: the search starts at the exception's own class (exc.__class__), not at a base class  [C19]", to_val(args[0]) == st.heap.field('__class__')[self_id(st)])
        return k(st, fresh('mro'))
    H = {'repr': h_repr, 'str': h_str, 'type': h_pure('type'), 'traceback.format_stack': h_pure('stack'), 'isinstance': h_isinstance, 'coder.loads': h_coder, 'coder.dumps': h_pure('dumped') if False else h_coder,
         'supercls': h_supercls, 'getattr': h_pure('attr'), 'tuple': h_pure('tuple'), '_itermro': h_itermro, 'id': h_id, 'cls': h_pure('wrapper'), '*.with_traceback': h_pure('res'),
         'SEEN_EXCEPTIONS_CACHE.add': h_seen_add, 'SEEN_EXCEPTIONS_CACHE.discard': h_seen_discard, 'SEEN_EXCEPTIONS_CACHE.clear': h_seen_clear,
         'ExceptionRepr': h_pure('exception_repr'), '@for': h_for,
         # modular: callee contracts
         '_safe_str': c_total('safe_str'), 'safe_repr': c_total('safe_repr'), 'ensure_serializable': c_total('safe_args'), 'find_pickleable_exception': c_total('nearest'),
         'get_pickleable_exception': c_total('pickleable'), '_UnpickleableExceptionWrapper.from_exception': c_total('wrapper'), '_prepare_exception': c_prepare_rec}
    ex = Ex(H); ex.inline_scope = (src, REL, None)
    exits = collections.Counter()
    def verify(fname, env, ghost=None, pre=()):
        st = State(); st.env = dict(env); st.ghost = dict(ghost or {}); st.pc = list(pre); st.ghost['__fname'] = fname
        if 'exc' in env: st.ghost['self_exc'] = env['exc']
        S0 = st.ghost.get('SEEN')
        def on_ret(s, v):
            exits[fname + ':return'] += 1
            if S0 is not None and fname == '_prepare_exception':
                oblige(s, "_prepare_exception/post: SEEN restored (finally)  [C19]", s.ghost['SEEN'] == S0)
                oblige(s, "_prepare_exception/post: already on the path => returns None  [C19]", Implies(S0[Val.a(to_val(env['exc']))], to_val(v) == Val.none))
        def on_exc(s, x):
            exits[fname + ':raise'] += 1
            oblige(s, f"{fname}/raises: no Exception escapes  [C19 never fails]", Not(CLS.sub_expr(s.heap.cls_of[Val.a(x)], 'Exception')))
            if S0 is not None and fname == '_prepare_exception': oblige(s, "_prepare_exception/raises: SEEN restored (finally)", s.ghost['SEEN'] == S0)
        ex.run(FN[fname], st, on_ret, on_exc)
    exc = fresh('exc'); coder = fresh('coder'); SEEN0 = Const('SEEN0', I2B)
    verify('_safe_str', {'obj': fresh('obj')})
    verify('safe_repr', {'obj': fresh('obj')})
    verify('ensure_serializable', {'items': fresh('items'), 'coder': coder})
    verify('find_pickleable_exception', {'exc': exc, 'coder': coder})
    verify('get_pickleable_exception', {'exc': exc, 'coder': coder})
    verify('from_exception', {'cls': fresh('cls'), 'exc': exc, 'coder': coder}, ghost={'SEEN': Store(SEEN0, Val.a(exc), True)}, pre=[Val.is_ref(exc)])
    verify('_prepare_exception', {'exc': exc, 'coder': coder}, ghost={'SEEN': SEEN0}, pre=[Val.is_ref(exc)])

def gen_links(src, FN):
    CLS.add('SecurityError', 'Exception')
    prep = Function('prep', Val, Val); topy = Function('to_python', Val, Val); safe_args = Function('ensure_serializable', Val, Val); qualname = Function('qualname_or_name', Val, Val)
    is_exc_inst = Function('is_exc_inst', Val, BoolSort()); is_type = Function('is_type', Val, BoolSort()); is_exc_cls = Function('is_exc_cls', Val, BoolSort())
    def may_raise(ex, st, k, K, val):
        ok = st.fork(); k(ok, val)
        f = st.fork(); K['exc'](f, raise_any(f, 'Exception'))
    # ---------------- _prepare_exception
    exc = fresh('exc'); coder = fresh('coder')
    def h_id(ex, st, e, recv, args, kw, k, K): return k(st, PyInt(Val.a(to_val(args[0]))))
    def h_seen_add(ex, st, e, recv, args, kw, k, K): setG(st, SEEN=Store(st.ghost['SEEN'], ex.as_int(args[0]), True)); return k(st, None)
    def h_seen_discard(ex, st, e, recv, args, kw, k, K): setG(st, SEEN=Store(st.ghost['SEEN'], ex.as_int(args[0]), False)); return k(st, None)
    def h_get_pickleable(ex, st, e, recv, args, kw, k, K): v_ = fresh('pickleable'); st.pc.append(v_ != Val.none); setG(st, pickleable=v_); return k(st, v_)
    def h_coder(ex, st, e, recv, args, kw, k, K): return may_raise(ex, st, k, K, fresh('coded'))
    def h_type(ex, st, e, recv, args, kw, k, K): return k(st, st.heap.field('__class__')[Val.a(to_val(args[0]))])
    def h_getattr(ex, st, e, recv, args, kw, k, K):
        o, name = to_val(args[0]), e.args[1].value
        if name == '__qualname__': return k(st, qualname(o))
        if name == 'args': return k(st, st.heap.field('args')[Val.a(o)])
        raise Unsupported(name)
    def h_ensure(ex, st, e, recv, args, kw, k, K): return k(st, safe_args(to_val(args[0])))
    def h_rec(ex, st, e, recv, args, kw, k, K):
        a = to_val(args[0]); oblige(st, "_prepare_exception/rec-call: only on a truthy link  [C19]", a != Val.none); return k(st, prep(a))
    def h_ExceptionRepr(ex, st, e, recv, args, kw, k, K):
        a = alloc(st)
        for f, v in kw.items(): st.pc.append(st.heap.field('repr_' + f)[a] == to_val(v))
        setG(st, built=Val.ref(a)); return k(st, Val.ref(a))
    class Ex(ModuleStateMixin, Exec):
        def ev_Attribute(self, e, st, k, K):
            p = ast.unparse(e)
            if p.startswith('exc.__') or p in ('exc.exc_module', 'exc.exc_type', 'exc.exc_message', 'exc.exc_cause', 'exc.exc_context', 'exc.exc_suppress_context'):
                return k(st, st.heap.field(e.attr)[Val.a(to_val(st.env['exc']))])
            if p.startswith('exctype.'): return k(st, st.heap.field('cls_' + e.attr)[Val.a(to_val(st.env['exctype']))])
            if p == 'taskiq.exceptions.__name__': return k(st, STR.get('taskiq.exceptions'))
            return super().ev_Attribute(e, st, k, K)
        def ev_Compare(self, e, st, k, K):
            if ast.unparse(e) == 'id(exc) in SEEN_EXCEPTIONS_CACHE': return k(st, PyBool(st.ghost['SEEN'][Val.a(to_val(st.env['exc']))]))
            return super().ev_Compare(e, st, k, K)
        def ev_Starred(self, e, st, k, K): return self.ev(e.value, st, k, K)
        def ev_IfExp(self, e, st, k, K):
            return self.ev(e.test, st, lambda s, v: self.branch(s, truthy(v, s), lambda a: self.ev(e.body, a, k, K), lambda b: self.ev(e.orelse, b, k, K)), K)
    H = {'id': h_id, 'SEEN_EXCEPTIONS_CACHE.add': h_seen_add, 'SEEN_EXCEPTIONS_CACHE.discard': h_seen_discard, 'get_pickleable_exception': h_get_pickleable, 'coder.loads': h_coder, 'coder.dumps': h_coder,
         'type': h_type, 'getattr': h_getattr, 'ensure_serializable': h_ensure, '_prepare_exception': h_rec, 'ExceptionRepr': h_ExceptionRepr}
    ex = Ex(H); ex.inline_scope = (src, REL, None)
    st = State(); st.env = {'exc': exc, 'coder': coder}; st.ghost = {'SEEN': Const('SEEN0', I2B), 'built': Val.none, 'pickleable': Val.none}
    st.pc += [Val.is_ref(exc), Val.a(exc) < st.heap.next, st.heap.next > 0, Not(st.ghost['SEEN'][Val.a(exc)])]
    h = st.heap; ea = Val.a(exc); cause, ctxt, supp, klass = h.field('__cause__')[ea], h.field('__context__')[ea], h.field('__suppress_context__')[ea], h.field('__class__')[ea]
    st.pc += [Or(cause == Val.none, And(Val.is_ref(cause), is_exc_inst(cause))), Or(ctxt == Val.none, And(Val.is_ref(ctxt), is_exc_inst(ctxt))), Val.is_boolv(supp), Val.is_ref(klass)]
    st.pc += [Implies(Val.is_ref(cause), Val.a(cause) < st.heap.next), Implies(Val.is_ref(ctxt), Val.a(ctxt) < st.heap.next)]          # well-formed heap: existing objects lie below the allocation pointer
    for v_ in (exc, cause, ctxt): mark_exception(st, v_)          # the task's exception and its links come from user code: their truth value is not known (`if cause:` is not `if cause is not None:`)
    st.facts.append(ForAll([Const('x_', Val)], Implies(is_exc_inst(Const('x_', Val)), True)))
    cnt = collections.Counter()
    def prep_ret(s, v):
        cnt['prepare:return'] += 1; r = to_val(v); hh = s.heap
        is_repr = And(s.ghost['built'] != Val.none, r == s.ghost['built'])          # the freshly built ExceptionRepr
        oblige(s, "_prepare_exception/post: the result is made by THIS call for the current path - the picklable form, the ExceptionRepr just built, or None for an exception already on the path; never a form remembered from another path (its cut links would be wrong)  [C19]",
               Or(is_repr, And(s.ghost['pickleable'] != Val.none, r == s.ghost['pickleable']), r == Val.none))
        fld = lambda f: hh.field('repr_' + f)[Val.a(r)]
        oblige(s, "_prepare_exception/post: exc_cause is the prepared __cause__ (None when absent)  [C19]", Implies(is_repr, fld('exc_cause') == If(cause != Val.none, prep(cause), Val.none)))
        oblige(s, "_prepare_exception/post: exc_context is the prepared __context__ unless suppressed  [C19]", Implies(is_repr, fld('exc_context') == If(And(ctxt != Val.none, Not(Val.b(supp))), prep(ctxt), Val.none)))
        oblige(s, "_prepare_exception/post: exc_suppress_context copies __suppress_context__  [C19]", Implies(is_repr, fld('exc_suppress_context') == supp))
        oblige(s, "_prepare_exception/post: exc_type is the class's qualified name, exc_module its module, exc_message the safe args  [C19]",
               Implies(is_repr, And(fld('exc_type') == qualname(klass), fld('exc_module') == hh.field('cls___module__')[Val.a(klass)], fld('exc_message') == safe_args(hh.field('args')[ea]))))
    ex.run(FN['_prepare_exception'], st, prep_ret, lambda s, x: cnt.update(['prepare:raise']))
    # ---------------- exception_to_python (links)
    def h_isinstance(ex, st, e, recv, args, kw, k, K):
        what = ast.unparse(e.args[1]); v = to_val(args[0])
        return k(st, PyBool({'BaseException': is_exc_inst(v), 'type': is_type(v)}[what]))
    def h_issubclass(ex, st, e, recv, args, kw, k, K): return k(st, PyBool(is_exc_cls(to_val(args[0]))))
    def h_create_cls(ex, st, e, recv, args, kw, k, K): c = fresh('synthetic'); st.pc += [is_type(c), is_exc_cls(c)]; return k(st, c)
    def h_getattr2(ex, st, e, recv, args, kw, k, K): return may_raise(ex, st, k, K, fresh('attr'))
    def h_split(ex, st, e, recv, args, kw, k, K): return k(st, 'SPLIT')
    def h_new_instance(ex, st, e, recv, args, kw, k, K):
        a = alloc(st); r = Val.ref(a); st.pc.append(is_exc_inst(r)); setG(st, made=r)
        ok = st.fork(); k(ok, r)
        f = st.fork(); K['exc'](f, raise_any(f, 'Exception'))
    def h_Exception(ex, st, e, recv, args, kw, k, K): a = alloc(st); r = Val.ref(a); st.pc.append(is_exc_inst(r)); return k(st, r)
    def h_topy(ex, st, e, recv, args, kw, k, K):
        a = to_val(args[0]); oblige(st, "exception_to_python/rec-call: only on a truthy link  [C19]", a != Val.none)
        ok = st.fork(); k(ok, topy(a))
        f = st.fork(); K['exc'](f, new_exc(f, 'SecurityError'))
    def h_for(ex, s, st, k, K):
        it = st.fork(); it.env = dict(it.env); it.env['cls'] = fresh('cls'); it.env['name'] = fresh('name'); ex.block(s.body, it, lambda s3: None, K)
        out = st.fork(); out.env = dict(out.env); out.env['cls'] = fresh('cls'); return k(out)
    class Ex2(Ex):
        def ev_Subscript(self, e, st, k, K):
            if ast.unparse(e.value) == 'sys.modules':
                ok = st.fork(); k(ok, fresh('module')); f = st.fork(); return K['exc'](f, new_exc(f, 'KeyError'))
            return super().ev_Subscript(e, st, k, K)
        def find_handler(self, name, recv=None):
            if name == 'cls': return h_new_instance
            return super().find_handler(name, recv)
    ex2 = Ex2({'isinstance': h_isinstance, 'issubclass': h_issubclass, 'get_pickled_exception': lambda ex, st, e, r, a, kw, k, K: k(st, fresh('restored')), 'create_exception_cls': h_create_cls, 'getattr': h_getattr2,
               'exc_type.split': h_split, 'taskiq.exceptions.SecurityError': lambda ex, st, e, r, a, kw, k, K: k(st, new_exc(st, 'SecurityError')), 'Exception': h_Exception, 'exception_to_python': h_topy, '@for': h_for})
    ex2.inline_scope = (src, REL, None)
    st2 = State(); rp = fresh('repr_obj'); st2.env = {'exc': rp, '__name__': STR.get('taskiq.serialization')}; st2.ghost = {'made': Val.none}
    st2.pc += [Val.is_ref(rp), Not(is_exc_inst(rp)), Val.a(rp) < st2.heap.next, st2.heap.next > 0]
    h2 = st2.heap; ra = Val.a(rp); rc, rx, rs = h2.field('exc_cause')[ra], h2.field('exc_context')[ra], h2.field('exc_suppress_context')[ra]
    st2.pc += [Or(rc == Val.none, Val.is_ref(rc)), Or(rx == Val.none, Val.is_ref(rx)), Val.is_boolv(rs)]
    st2.pc += [Implies(Val.is_ref(rc), Val.a(rc) < st2.heap.next), Implies(Val.is_ref(rx), Val.a(rx) < st2.heap.next)]
    st2.ghost['__exc_objs'] = Lambda([Int('a_')], Or(And(Val.is_ref(rc), Val.a(rc) == Int('a_'), is_exc_inst(rc)), And(Val.is_ref(rx), Val.a(rx) == Int('a_'), is_exc_inst(rx))))          # a link stored as a live exception object (pickle path) is user code's
    def topy_ret(s, v):
        cnt['to_python:return'] += 1; r = to_val(v); hh = s.heap; ra_ = Val.a(r)
        oblige(s, "exception_to_python/post: __cause__ is the decoded exc_cause when present  [C19]", Implies(rc != Val.none, hh.field('__cause__')[ra_] == topy(rc)))
        oblige(s, "exception_to_python/post: __context__ is the decoded exc_context when present  [C19]", Implies(rx != Val.none, hh.field('__context__')[ra_] == topy(rx)))
        oblige(s, "exception_to_python/post: __suppress_context__ is restored  [C19]", hh.field('__suppress_context__')[ra_] == rs)
    ex2.run(FN['exception_to_python'], st2, topy_ret, lambda s, x: cnt.update(['to_python:raise']))

def generate(src):
    FN = {n: src.func(REL, n) for n in ('_safe_str', 'safe_repr', 'ensure_serializable', 'find_pickleable_exception', 'get_pickleable_exception', '_prepare_exception', 'exception_to_python', 'prepare_exception')}
    FN['from_exception'] = src.func(REL, '_UnpickleableExceptionWrapper.from_exception')
    gen_no_escape(src, FN)
    gen_links(src, FN)
    s0 = State(); reach(s0, "serialization/reach@any")
    return {}
