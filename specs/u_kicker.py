"""Unit `kicker`: taskiq/kicker.py::AsyncKicker.__init__/with_labels/with_task_id/with_broker/with_schedule_id/_prepare_message/_prepare_arg,
taskiq/decor.py::AsyncTaskiqDecoratedTask.kicker, taskiq/brokers/shared_broker.py::SharedDecoratedTask.kicker
 — C09 (per-call customisation never leaks), C08 (_prepare_message keeps positions and keys), C09 (labels prepared with prepare_label).

Ownership theorem (DESIGN A.6), proved by executing the REAL bodies inlined into a three-line client harness:
   {t.labels == L0}  k1 = t.kicker(); k1.with_labels(**l).with_task_id(i).with_broker(b); k2 = t.kicker()  {t.labels == L0, k1.labels is not k2.labels, ...}"""
import ast
import z3
from z3 import *
from pyvc.core import *

PROPS = ['C09', 'C08']
REPLAY = {'driver': 'labels'}
TRUSTED = [
    "dict(d) / d.copy() allocate a fresh dict with d's content; d.update(o) is the map merge (o wins)",
    "prepare_label contract (unit u_labels): returns (text, tag) functions of the value only",
    "model_dump(BaseModel) / dataclasses.asdict produce the dict form (uninterpreted `dict_form`); is_dataclass/isinstance tests are properties of the value",
    "TaskiqMessage(...) keeps the fields it is given; broker.id_generator() returns a fresh id",
]


def generate(src):
    KREL, DREL, SREL = 'taskiq/kicker.py', 'taskiq/decor.py', 'taskiq/brokers/shared_broker.py'
    KICKER = {n: src.func(KREL, 'AsyncKicker.' + n) for n in ('__init__', 'with_labels', 'with_task_id', 'with_broker', 'with_schedule_id', '_prepare_message', '_prepare_arg')}
    TASKK = {'decor': src.func(DREL, 'AsyncTaskiqDecoratedTask.kicker'), 'shared': src.func(SREL, 'SharedDecoratedTask.kicker')}
    RP = {'driver': 'labels'}
    def inline(ex, st, fdef, self_val, args, kwargs, k, K):
        params = [a.arg for a in fdef.args.args]
        env = {params[0]: self_val}
        for p, v in zip(params[1:], args): env[p] = v
        for p, v in kwargs.items():
            if p != '**': env[p] = v
        for p, d in zip(reversed(params), reversed(fdef.args.defaults)):
            if p not in env: env[p] = None if isinstance(d, ast.Constant) and d.value is None else fresh(p)
        if fdef.args.kwarg and fdef.args.kwarg.arg not in env: env[fdef.args.kwarg.arg] = kwargs.get('**')
        if fdef.args.vararg and fdef.args.vararg.arg not in env: env[fdef.args.vararg.arg] = kwargs.get('*')
        missing = [p for p in params if p not in env]
        if missing: raise Unsupported(f"inlining {fdef.name}: no value for parameter {missing[0]}")
        saved = st.env; st.env = env
        def ret(st2, v): st2.env = saved; return k(st2, v)
        K2 = dict(K); K2['ret'] = ret
        return ex.block(fdef.body, st, lambda st2: ret(st2, None), K2)
    def h_AsyncKicker(ex, st, e, recv, args, kw, k, K):
        a = alloc(st); obj = PyObj(a, 'AsyncKicker')
        return inline(ex, st, KICKER['__init__'], obj, args, kw, lambda s2, v: k(s2, obj), K)
    def h_kicker(ex, st, e, recv, args, kw, k, K): return inline(ex, st, ex.task_kicker, recv, args, kw, k, K)
    def h_with(name):
        def h(ex, st, e, recv, args, kw, k, K): return inline(ex, st, KICKER[name], recv, args, kw, k, K)
        return h
    def h_with_labels(ex, st, e, recv, args, kw, k, K):
        return inline(ex, st, KICKER['with_labels'], recv, [], {'labels': kw.get('**')}, k, K)
    def h_dict_update(ex, st, e, d, args, kw, k, K):
        o = args[0]
        if not isinstance(o, PyDict): raise Unsupported("dict.update with a non-dict")
        st.heap = st.heap.copy(); h = st.heap; key = Const('key', Val)
        nh = fresh('dhas_u', h.dhas[d.addr].sort()); nv = fresh('dval_u', h.dval[d.addr].sort())
        st.facts.append(ForAll([key], And(nh[key] == Or(h.dhas[d.addr][key], h.dhas[o.addr][key]), nv[key] == If(h.dhas[o.addr][key], h.dval[o.addr][key], h.dval[d.addr][key]))))
        h.dhas = Store(h.dhas, d.addr, nh); h.dval = Store(h.dval, d.addr, nv); return k(st, None)
    def h_dict_ctor(ex, st, e, recv, args, kw, k, K):
        o = recv if recv is not None and not args else (args[0] if args else None)
        a = alloc(st); h = st.heap
        if o is None: h.dhas = Store(h.dhas, a, z3.K(Val, False)); return k(st, PyDict(a))
        if not isinstance(o, PyDict): o = PyDict(Val.a(to_val(o)))
        h.dhas = Store(h.dhas, a, h.dhas[o.addr]); h.dval = Store(h.dval, a, h.dval[o.addr])
        if kw and set(kw) != {'**'}: raise Unsupported("dict(x, **extra)")
        return k(st, PyDict(a))
    def h_getattr(ex, st, e, recv, args, kw, k, K):
        base = args[0]; nm = args[1]
        if not isinstance(nm, str): raise Unsupported("getattr with a computed name")
        addr = base.addr if isinstance(base, PyObj) else Val.a(to_val(base))
        return k(st, st.heap.field(nm)[addr])
    class Ex(Exec):
        def ev_Dict(self, e, st, k, K):
            if e.keys and any(x is None for x in e.keys):
                if len(e.keys) == 1:        # {**d}: a copy
                    return self.ev(e.values[0], st, lambda s, d: h_dict_ctor(self, s, e, None, [d], {}, k, K), K)
                raise Unsupported("dict display with ** and other entries")
            if not e.keys: return h_dict_ctor(self, st, e, None, [], {}, k, K)
            raise Unsupported("dict display " + ast.unparse(e))
    H = {'AsyncKicker': h_AsyncKicker, '*.kicker': h_kicker, '*.with_labels': h_with_labels, '*.with_task_id': h_with('with_task_id'), '*.with_broker': h_with('with_broker'),
         '*.with_schedule_id': h_with('with_schedule_id'), 'dict.update': h_dict_update, 'dict': h_dict_ctor, 'dict.copy': h_dict_ctor, 'getattr': h_getattr, 'logger.*': noop}
    harness = ast.parse('''
def theorem(t, l, tid, b2, sid):
    k1 = t.kicker()
    k1.with_labels(**l).with_task_id(tid).with_broker(b2).with_schedule_id(sid)
    k2 = t.kicker()
''').body[0]
    for variant, fk in TASKK.items():
        ex = Ex(H, attr_kinds={'self.labels': 'dict', 'k1.labels': 'dict', 'k2.labels': 'dict', 't.labels': 'dict'}); ex.task_kicker = fk
        st = State(); h = st.heap
        t_a, tl_a, l_a, br_a = Ints(f't_addr_{variant} tlabels_addr_{variant} l_addr_{variant} broker_addr_{variant}')
        st.pc += [Distinct(t_a, tl_a, l_a, br_a), t_a < h.next, tl_a < h.next, l_a < h.next, br_a < h.next, t_a >= 0, tl_a >= 0, l_a >= 0, br_a >= 0]
        h.fld['labels'] = Store(h.field('labels'), t_a, Val.ref(tl_a)); h.fld['broker'] = Store(h.field('broker'), t_a, Val.ref(br_a))
        for f in ('task_name', 'return_type', '_default_broker', 'custom_task_id', 'custom_schedule_id'): h.field(f)
        st.env = {'t': PyObj(t_a, 'task'), 'l': PyDict(l_a), 'tid': fresh('tid'), 'b2': fresh('other_broker'), 'sid': fresh('sid')}
        H0, V0 = h.dhas[tl_a], h.dval[tl_a]; F0 = {f: h.field(f) for f in ('labels', 'broker', 'task_name', 'return_type')}
        def done(s, v, variant=variant, t_a=t_a, tl_a=tl_a, H0=H0, V0=V0, F0=F0, l_a=l_a):
            key = Const('key', Val); hh = s.heap; tag = f"kicker[{variant}]"
            oblige(s, f"{tag}/frame: the task's declared labels are unchanged by kicker().with_labels(**l)...  [C09]", ForAll([key], And(hh.dhas[tl_a][key] == H0[key], hh.dval[tl_a][key] == V0[key])), replay=RP)
            for f in ('labels', 'broker', 'task_name', 'return_type'):
                oblige(s, f"{tag}/frame: task.{f} is not rebound by a kicker customisation  [C09]", hh.field(f)[t_a] == F0[f][t_a], replay=RP)
            k1, k2 = s.env['k1'], s.env['k2']
            oblige(s, f"{tag}/no-alias: two kickers of one task do not share their label dict  [C09]", hh.field('labels')[k1.addr] != hh.field('labels')[k2.addr], replay=RP)
            oblige(s, f"{tag}/no-alias: a kicker's label dict is not the caller's **labels dict  [C09]", hh.field('labels')[k1.addr] != Val.ref(l_a), replay=RP)
            oblige(s, f"{tag}/with_task_id, with_broker, with_schedule_id write only the kicker  [C09]",
                   And(hh.field('custom_task_id')[k1.addr] == s.env['tid'], hh.field('broker')[k1.addr] == s.env['b2'], hh.field('custom_schedule_id')[k1.addr] == s.env['sid'],
                       hh.field('custom_task_id')[k2.addr] == Val.none, hh.field('custom_schedule_id')[k2.addr] == Val.none), replay=RP)
            k1l = Val.a(hh.field('labels')[k1.addr]); la = l_a
            oblige(s, f"{tag}/with_labels: the customised kicker carries the declared labels updated with **l  [C09]",
                   ForAll([key], And(hh.dhas[k1l][key] == Or(H0[key], hh.dhas[la][key]), hh.dval[k1l][key] == If(hh.dhas[la][key], hh.dval[la][key], V0[key]))), replay=RP)
            k2l = Val.a(hh.field('labels')[k2.addr])
            oblige(s, f"{tag}/next call: a later kicker sees exactly the declared labels  [C09]", ForAll([key], And(hh.dhas[k2l][key] == H0[key], hh.dval[k2l][key] == V0[key])), replay=RP)
            oblige(s, f"{tag}/next call: a later kicker uses the task's own name  [C09]", hh.field('task_name')[k2.addr] == F0['task_name'][t_a], replay=RP)
            reach(s, f"{tag}/reach@end")
        ex.run(harness, st, done, lambda s, x: oblige(s, "kicker: the customisation chain does not raise  [C09]", BoolVal(False)))

    # ---------------- _prepare_message: positions and keys kept, every arg through _prepare_arg, every label through prepare_label  [C08/C09]
    prep_arg = Function('prepare_arg_fn', Val, Val); prep_text = Function('prepare_label_text', Val, Val); prep_tag = Function('prepare_label_tag', Val, Val)
    dict_form = Function('dict_form', Val, Val); is_model = Function('is_pydantic_model', Val, BoolSort()); is_dc = Function('is_dataclass_value', Val, BoolSort()); is_type = Function('is_type_object', Val, BoolSort())
    def run_prepare_arg():
        for n, p in [('ValueError', 'Exception')]: CLS.add(n, p)
        def h_isinstance(ex, st, e, recv, args, kw, k, K):
            what = ast.unparse(e.args[1]); v = to_val(args[0])
            if what == 'BaseModel': return k(st, PyBool(is_model(v)))
            if what == 'type': return k(st, PyBool(is_type(v)))
            raise Unsupported("isinstance(_, " + what + ")")
        ex = Exec({'isinstance': h_isinstance, 'is_dataclass': lambda ex, st, e, r, a, kw, k, K: k(st, PyBool(is_dc(to_val(a[0])))), 'model_dump': lambda ex, st, e, r, a, kw, k, K: k(st, dict_form(to_val(a[0]))),
                   'asdict': lambda ex, st, e, r, a, kw, k, K: k(st, dict_form(to_val(a[0]))), 'ValueError': lambda ex, st, e, r, a, kw, k, K: k(st, new_exc(st, 'ValueError'))})
        st = State(); a = fresh('arg'); st.env = {'cls': fresh('cls'), 'arg': a}
        x_ = Const('x_', Val)
        st.facts += [ForAll([x_], And(Not(is_model(dict_form(x_))), Not(is_dc(dict_form(x_)))))]       # the dict form is a plain dict
        st.pc.append(Not(And(is_model(a), is_dc(a))))
        def on_ret(s, v):
            oblige(s, "_prepare_arg/post: pydantic models and dataclass instances go in their dict form, every other value unchanged  [C08]",
                   to_val(v) == If(Or(is_model(a), is_dc(a)), dict_form(a), a), replay=RP)
            reach(s, "_prepare_arg/reach@return")
        ex.run(KICKER['_prepare_arg'], st, on_ret, lambda s, x: oblige(s, "_prepare_arg/raises: only for a dataclass *type* (not serialisable)  [C08]", And(is_dc(a), is_type(a)), replay=RP))
    run_prepare_arg()
    def run_prepare_message():
        st = State(); h = st.heap; self_a, args_a, kw_a, lab_a = Ints('pm_self pm_args pm_kwargs pm_labels')
        st.pc += [Distinct(self_a, args_a, kw_a, lab_a)] + [And(a >= 0, a < h.next) for a in (self_a, args_a, kw_a, lab_a)]
        h.fld['labels'] = Store(h.field('labels'), self_a, Val.ref(lab_a))
        st.env = {'self': PyObj(self_a), 'args': PyList(args_a), 'kwargs': PyDict(kw_a)}
        n = h.llen[args_a]; A0 = h.litem[args_a]; KH0, KV0 = h.dhas[kw_a], h.dval[kw_a]; LH0, LV0 = h.dhas[lab_a], h.dval[lab_a]
        st.pc.append(n >= 0); j = Int('j'); key = Const('key', Val); p_ = Int('p_')
        nk = Int('n_kwargs'); korder = Function('kw_key_at', IntSort(), Val); kpos = Function('kw_pos', Val, IntSort())
        nl = Int('n_labels'); lorder = Function('lab_key_at', IntSort(), Val); lpos = Function('lab_pos', Val, IntSort())
        for (cnt_, order, pos, HAS) in ((nk, korder, kpos, KH0), (nl, lorder, lpos, LH0)):
            st.pc.append(cnt_ >= 0)
            st.facts += [ForAll([p_], Implies(And(0 <= p_, p_ < cnt_), And(HAS[order(p_)], pos(order(p_)) == p_))), ForAll([key], Implies(HAS[key], And(0 <= pos(key), pos(key) < cnt_, order(pos(key)) == key)))]
        roles = {}
        def hv(sx): sx.heap = sx.heap.copy(); sx.heap.dval = fresh('dval_h', sx.heap.dval.sort()); sx.heap.dhas = fresh('dhas_h', sx.heap.dhas.sort()); sx.heap.litem = fresh('litem_h', sx.heap.litem.sort()); sx.heap.llen = fresh('llen_h', sx.heap.llen.sort())
        def frame(sx): return [sx.heap.litem[args_a] == A0, sx.heap.llen[args_a] == n, sx.heap.dhas[kw_a] == KH0, sx.heap.dval[kw_a] == KV0, sx.heap.dhas[lab_a] == LH0, sx.heap.dval[lab_a] == LV0]
        def done_inv(sx):
            c = []
            if 'fa' in roles: c += [sx.heap.llen[roles['fa']] == n, ForAll([j], Implies(And(0 <= j, j < n), sx.heap.litem[roles['fa']][j] == prep_arg(A0[j])))]
            if 'fk' in roles: c += [ForAll([key], And(sx.heap.dhas[roles['fk']][key] == KH0[key], Implies(KH0[key], sx.heap.dval[roles['fk']][key] == prep_arg(KV0[key]))))]
            return c
        def h_for(ex, s, st, k, K):
            itx = ast.unparse(s.iter)
            if itx == 'args':
                apps = [x for x in ast.walk(s) if isinstance(x, ast.Call) and isinstance(x.func, ast.Attribute) and x.func.attr == 'append' and isinstance(x.func.value, ast.Name)]
                if len(apps) != 1 or not isinstance(st.env.get(apps[0].func.value.id), PyList): raise Unsupported("_prepare_message: positional loop shape")
                fa = st.env[apps[0].func.value.id].addr; roles['fa'] = fa
                def Inv(sx, i): return frame(sx) + [sx.heap.llen[fa] == i, ForAll([j], Implies(And(0 <= j, j < i), sx.heap.litem[fa][j] == prep_arg(A0[j])))]
                cnt_, bind = n, lambda it, i: it.env.__setitem__(s.target.id, A0[i])
                label = "positional arguments keep their positions, each through _prepare_arg  [C08]"
            elif itx == 'kwargs.items()':
                subs = sorted({x.value.id for x in ast.walk(s) if isinstance(x, ast.Subscript) and isinstance(x.ctx, ast.Store) and isinstance(x.value, ast.Name)})
                if len(subs) != 1 or not isinstance(st.env.get(subs[0]), PyDict): raise Unsupported("_prepare_message: keyword loop shape")
                fk = st.env[subs[0]].addr; roles['fk'] = fk
                def Inv(sx, i): return frame(sx) + done_inv_part(sx, ['fa']) + [ForAll([key], sx.heap.dhas[fk][key] == And(KH0[key], kpos(key) < i)), ForAll([key], Implies(And(KH0[key], kpos(key) < i), sx.heap.dval[fk][key] == prep_arg(KV0[key])))]
                cnt_, bind = nk, lambda it, i: (it.env.__setitem__(s.target.elts[0].id, korder(i)), it.env.__setitem__(s.target.elts[1].id, KV0[korder(i)]))
                label = "keyword arguments keep their names, each through _prepare_arg  [C08]"
            elif itx == 'self.labels.items()':
                asg = [x for x in ast.walk(s) if isinstance(x, ast.Assign) and isinstance(x.value, ast.Call) and ast.unparse(x.value.func) == 'prepare_label' and isinstance(x.targets[0], ast.Tuple)
                       and len(x.targets[0].elts) == 2 and all(isinstance(y, ast.Subscript) and isinstance(y.value, ast.Name) for y in x.targets[0].elts)]
                if len(asg) != 1: raise Unsupported("_prepare_message: label loop shape")
                da, db = [st.env[y.value.id].addr for y in asg[0].targets[0].elts]; roles['lt'], roles['lg'] = da, db
                def Inv(sx, i): return frame(sx) + done_inv_part(sx, ['fa', 'fk']) + [ForAll([key], sx.heap.dhas[da][key] == And(LH0[key], lpos(key) < i)), ForAll([key], sx.heap.dhas[db][key] == And(LH0[key], lpos(key) < i)),
                                                   ForAll([key], Implies(And(LH0[key], lpos(key) < i), And(sx.heap.dval[da][key] == prep_text(LV0[key]), sx.heap.dval[db][key] == prep_tag(LV0[key]))))]
                cnt_, bind = nl, lambda it, i: (it.env.__setitem__(s.target.elts[0].id, lorder(i)), it.env.__setitem__(s.target.elts[1].id, LV0[lorder(i)]))
                label = "every label of the kicker is serialised with prepare_label (value text and type tag)  [C09]"
            else: raise Unsupported("_prepare_message: loop over " + itx)
            pre = st.heap; a_ = Int('a_'); Inv0 = Inv
            wl = [roles['fa']] if itx == 'args' else []; wd = [roles['fk']] if itx == 'kwargs.items()' else ([roles['lt'], roles['lg']] if itx == 'self.labels.items()' else [])
            def Inv(sx, i):          # + frame: the loop writes only the collections it fills
                def none_of(ws): return And(*[a_ != w for w in ws]) if ws else BoolVal(True)
                return Inv0(sx, i) + [ForAll([a_], Implies(none_of(wl), And(sx.heap.litem[a_] == pre.litem[a_], sx.heap.llen[a_] == pre.llen[a_]))),
                                      ForAll([a_], Implies(none_of(wd), And(sx.heap.dhas[a_] == pre.dhas[a_], sx.heap.dval[a_] == pre.dval[a_])))]
            for c in Inv(st, IntVal(0)): oblige(st, f"_prepare_message/loop({itx})/inv-entry  [C08/C09]", c, replay=RP)
            it = st.fork(); hv(it); i = fresh('i', IntSort()); it.pc += [i >= 0, i < cnt_]; assume(it, Inv(it, i)); it.env = dict(it.env); bind(it, i)
            def back(s3):
                for c in Inv(s3, i + 1): oblige(s3, f"_prepare_message/loop({itx})/inv-preserved: {label}", c, replay=RP)
            K2 = dict(K); K2['cont'] = back; K2['brk'] = lambda s3: oblige(s3, f"_prepare_message/loop({itx}): no early exit  [C08/C09]", BoolVal(False), replay=RP)
            ex.block(s.body, it, back, K2)
            out = st.fork(); hv(out); assume(out, Inv(out, cnt_)); return k(out)
        def done_inv_part(sx, which):
            c = []
            if 'fa' in which and 'fa' in roles: c += [sx.heap.llen[roles['fa']] == n, ForAll([j], Implies(And(0 <= j, j < n), sx.heap.litem[roles['fa']][j] == prep_arg(A0[j])))]
            if 'fk' in which and 'fk' in roles: c += [ForAll([key], And(sx.heap.dhas[roles['fk']][key] == KH0[key], Implies(KH0[key], sx.heap.dval[roles['fk']][key] == prep_arg(KV0[key]))))]
            return c
        def h_append(ex, st, e, l, args, kw, k, K):
            st.heap = st.heap.copy(); hh = st.heap; m = hh.llen[l.addr]
            hh.litem = Store(hh.litem, l.addr, Store(hh.litem[l.addr], m, to_val(args[0]))); hh.llen = Store(hh.llen, l.addr, m + 1); return k(st, None)
        def h_prepare_arg(ex, st, e, recv, args, kw, k, K):
            ok = st.fork(); k(ok, prep_arg(to_val(args[0])))
            f = st.fork(); K['exc'](f, new_exc(f, 'ValueError'))
        def h_prepare_label(ex, st, e, recv, args, kw, k, K): v = to_val(args[0]); return k(st, PyTuple([prep_text(v), prep_tag(v)]))
        def h_msg(ex, st, e, recv, args, kw, k, K):
            for f in ('task_id', 'task_name', 'labels', 'labels_types', 'args', 'kwargs'):
                if f not in kw: raise Unsupported("TaskiqMessage(...) without " + f)
            a = alloc(st)
            for f in ('task_id', 'task_name', 'labels', 'labels_types', 'args', 'kwargs'): st.heap.fld['m_' + f] = Store(st.heap.field('m_' + f), a, to_val(kw[f]))
            return k(st, PyObj(a, 'TaskiqMessage'))
        class ExM(Exec):
            def ev_List(self, e, st, k, K):
                if e.elts: raise Unsupported("list display with elements")
                a = alloc(st); st.pc.append(st.heap.llen[a] == 0); return k(st, PyList(a))
            def ev_Dict(self, e, st, k, K):
                if e.keys: raise Unsupported("dict display with entries")
                a = alloc(st); st.pc.append(st.heap.dhas[a] == z3.K(Val, False)); return k(st, PyDict(a))
            def ev_Attribute(self, e, st, k, K):
                p = ast.unparse(e)
                if p == 'self.labels': return k(st, PyDict(Val.a(st.heap.field('labels')[self_a])))
                if p in ('self.custom_task_id', 'self.task_name'): return k(st, st.heap.field(e.attr)[self_a])
                return super().ev_Attribute(e, st, k, K)
        ex = ExM({'@for': h_for, 'list.append': h_append, 'self._prepare_arg': h_prepare_arg, 'prepare_label': h_prepare_label, 'TaskiqMessage': h_msg, 'logger.*': noop,
                  'self.broker.id_generator': lambda ex, st, e, r, a, kw, k, K: k(st, fresh('generated_id'))})
        def on_ret(s, v):
            hh = s.heap
            if not isinstance(v, PyObj): oblige(s, "_prepare_message/post: returns a TaskiqMessage  [C08]", BoolVal(False)); return
            m = v.addr; ar = Val.a(hh.field('m_args')[m]); kwd = Val.a(hh.field('m_kwargs')[m]); lb = Val.a(hh.field('m_labels')[m]); lt = Val.a(hh.field('m_labels_types')[m])
            oblige(s, "_prepare_message/post: args[j] == _prepare_arg(sent args[j]) at the same position, same length  [C08]", And(hh.llen[ar] == n, ForAll([j], Implies(And(0 <= j, j < n), hh.litem[ar][j] == prep_arg(A0[j])))), replay=RP)
            oblige(s, "_prepare_message/post: kwargs has exactly the sent keys, kwargs[k] == _prepare_arg(sent kwargs[k])  [C08]", ForAll([key], And(hh.dhas[kwd][key] == KH0[key], Implies(KH0[key], hh.dval[kwd][key] == prep_arg(KV0[key])))), replay=RP)
            oblige(s, "_prepare_message/post: labels[k], labels_types[k] == prepare_label(kicker.labels[k]) for exactly the kicker's label keys  [C09]",
                   ForAll([key], And(hh.dhas[lb][key] == LH0[key], hh.dhas[lt][key] == LH0[key], Implies(LH0[key], And(hh.dval[lb][key] == prep_text(LV0[key]), hh.dval[lt][key] == prep_tag(LV0[key]))))), replay=RP)
            cid = hh.field('custom_task_id')[self_a]
            oblige(s, "_prepare_message/post: task id is the kicker's custom id if set, task name is the kicker's  [C09]", And(Implies(cid != Val.none, hh.field('m_task_id')[m] == cid), hh.field('m_task_name')[m] == hh.field('task_name')[self_a]), replay=RP)
            oblige(s, "_prepare_message/frame: the kicker's own labels and the caller's args/kwargs are not modified  [C09/C08]", And(*frame(s)), replay=RP)
            reach(s, "_prepare_message/reach@return")
        ex.run(KICKER['_prepare_message'], st, on_ret, lambda s, x: None)
    run_prepare_message()
    # ---------------- AsyncTaskiqDecoratedTask.kiq: a plain call goes through a FRESH kicker with the caller's args/kwargs  [C09/C08]
    TKIQ = src.func(DREL, 'AsyncTaskiqDecoratedTask.kiq')
    seen = {}
    def h_self_kicker(ex_, st_, e, recv, args, kw, k, K): seen['kicker_calls'] = seen.get('kicker_calls', 0) + 1; return k(st_, 'FRESH_KICKER')
    class ExT(Exec):
        def find_handler(self, name, recv=None):
            if recv == 'FRESH_KICKER' and name.endswith('.kiq'):
                def h(ex_, st_, e, r, args, kw, k, K):
                    seen['kiq'] = ([ast.unparse(a) for a in e.args], [ast.unparse(kk.value) for kk in e.keywords if kk.arg in (None, '**')]); return k(st_, Tok(lambda s2, k2, K2: k2(s2, fresh('task_handle'))))
                return h
            return super().find_handler(name, recv)
    ext = ExT({'self.kicker': h_self_kicker}); stt = State(); stt.env = {'self': PyObj(Int('task_self')), 'args': fresh('args'), 'kwargs': fresh('kwargs')}
    def t_ret(s, v):
        oblige(s, "decorated task.kiq/post: sends through a kicker created for this call (no customisation of an earlier call can leak) with exactly the caller's args and kwargs  [C09/C08]",
               BoolVal(seen.get('kicker_calls') == 1 and seen.get('kiq') == (['*args'], ['kwargs'])), replay=RP)
        reach(s, "decorated task.kiq/reach@return")
    ext.run(TKIQ, stt, t_ret, lambda s, x: None)
    return {}
