"""
Demo for property C15 (scheduler loop sends each due schedule once per occurrence).

Run as:  PYTHONPATH=<tree> /venv/bin/python demo.py

It drives taskiq.cli.scheduler.run.run_scheduler_loop on a deterministic virtual
clock (a selector loop whose select() jumps time forward, and a patched
`datetime` in the run module), through several histories, and checks:

  * polls happen at start and then exactly at every minute boundary,
  * every cron schedule is sent exactly once in every minute it matches, and
    never in a minute it does not match (oracle: pycron.is_now on that minute),
  * every one-shot schedule is sent exactly once, not before its time and at
    most one second after it (or at the first poll after it was added),
  * failing sources / failing sends only lose their own occurrence,
  * all of that also when sends outlast a minute (so they are still in flight
    during later polls) and when schedule ids are reused between sources,
    inside one source's list, and between polls.

Exits 0 iff every check passes.  Works on the unchanged and the changed tree.
"""
import asyncio
import gc
import logging
import sys
from collections import Counter
from datetime import datetime, timedelta, timezone
from typing import Any, AsyncGenerator, Callable, Dict, List, Optional, Tuple

import pycron

import taskiq
from taskiq import ScheduledTask, ScheduleSource, TaskiqScheduler
from taskiq.abc.broker import AsyncBroker
from taskiq.cli.scheduler import run as run_mod
from taskiq.message import BrokerMessage

print("taskiq from:", taskiq.__file__)

UTC = timezone.utc
FAILS: List[str] = []
CHECKS = 0


def check(cond: bool, what: str) -> None:
    global CHECKS
    CHECKS += 1
    if not cond:
        FAILS.append(what)
        print("   FAIL:", what)


# ----------------------------------------------------------------- virtual time
class VLoop(asyncio.SelectorEventLoop):
    """Event loop with a virtual clock kept in integer microseconds."""

    def __init__(self) -> None:
        super().__init__()
        self.us = 0
        self._clock_resolution = 1e-7
        real_select = self._selector.select

        def select(timeout: Optional[float] = None) -> Any:
            if timeout is None:
                raise RuntimeError("virtual loop is idle forever (deadlock)")
            if timeout > 0 and self._scheduled:
                self.us = max(self.us, round(self._scheduled[0]._when * 1e6))
            return real_select(0)

        self._selector.select = select  # type: ignore

    def time(self) -> float:
        return self.us / 1e6


BASE = datetime(2024, 3, 5, 11, 0, 0)  # naive, meant as UTC
LOOP: VLoop


def vnow() -> datetime:
    return BASE + timedelta(microseconds=LOOP.us)


class VDatetime(datetime):
    @classmethod
    def now(cls, tz: Any = None) -> datetime:  # type: ignore
        n = vnow()
        if tz is None:
            return n
        return n.replace(tzinfo=UTC).astimezone(tz)

    @classmethod
    def utcnow(cls) -> datetime:  # type: ignore
        return vnow()


run_mod.datetime = VDatetime  # type: ignore


# ---------------------------------------------------------------- test doubles
class RecBroker(AsyncBroker):
    """Records (virtual time, task_name, schedule_id) of every successful kick."""

    def __init__(self) -> None:
        super().__init__()
        self.sent: List[Tuple[datetime, str, str]] = []
        self.attempts: List[Tuple[datetime, str, str]] = []
        self.slow: Dict[str, float] = {}  # task_name -> seconds the send takes
        self.fail: Callable[[str, datetime], bool] = lambda name, t: False

    async def kick(self, message: BrokerMessage) -> None:
        started = vnow()
        sid = str(message.labels.get("schedule_id"))
        self.attempts.append((started, message.task_name, sid))
        gc.collect()  # in-flight sends must survive a collection
        dur = self.slow.get(message.task_name, 0)
        if dur:
            await asyncio.sleep(dur)
            gc.collect()
        if self.fail(message.task_name, started):
            raise RuntimeError("broker is down for " + message.task_name)
        self.sent.append((started, message.task_name, sid))

    async def listen(self) -> AsyncGenerator[bytes, None]:  # pragma: no cover
        return
        yield b""


class Src(ScheduleSource):
    def __init__(self, name: str, delete_oneshots: bool = True) -> None:
        self.name = name
        self.items: List[ScheduledTask] = []
        self.polls: List[datetime] = []
        self.broken: Callable[[datetime], bool] = lambda t: False
        self.delete_oneshots = delete_oneshots

    def __repr__(self) -> str:
        return f"Src({self.name})"

    async def get_schedules(self) -> List[ScheduledTask]:
        self.polls.append(vnow())
        if self.broken(vnow()):
            raise ConnectionError(self.name + " cannot list")
        return list(self.items)

    def post_send(self, task: ScheduledTask) -> None:
        # like LabelScheduleSource: a one-shot is removed once it was sent
        if task.time is not None and self.delete_oneshots:
            self.items = [t for t in self.items if t is not task]


def cron(name: str, sid: str, expr: str, **kw: Any) -> ScheduledTask:
    return ScheduledTask(
        task_name=name, labels={}, args=[], kwargs={}, schedule_id=sid, cron=expr, **kw
    )


def once(name: str, sid: str, at: datetime) -> ScheduledTask:
    return ScheduledTask(
        task_name=name, labels={}, args=[], kwargs={}, schedule_id=sid, time=at
    )


class LogTap(logging.Handler):
    def __init__(self) -> None:
        super().__init__(logging.DEBUG)
        self.lines: List[str] = []

    def emit(self, record: logging.LogRecord) -> None:
        msg = record.getMessage()
        if "in flight" in msg:
            self.lines.append(f"{vnow().time()} {msg}")


def run_history(
    title: str,
    start: timedelta,
    duration: float,
    sources: List[Src],
    broker: RecBroker,
    script: List[Tuple[float, Callable[[], None]]],
) -> LogTap:
    """Run the scheduler loop from BASE+start for `duration` virtual seconds."""
    global LOOP
    print(f"\n== {title}")
    LOOP = VLoop()
    LOOP.us = int(start.total_seconds() * 1_000_000)
    tap = LogTap()
    lg = logging.getLogger("taskiq.cli.scheduler.run")
    lg.setLevel(logging.DEBUG)
    lg.propagate = False
    lg.addHandler(tap)
    errors: List[Any] = []
    LOOP.set_exception_handler(lambda loop, ctx: errors.append(ctx))

    async def main() -> None:
        sched = TaskiqScheduler(broker, sources)  # type: ignore
        t = asyncio.get_running_loop().create_task(run_mod.run_scheduler_loop(sched))
        t0 = LOOP.time()
        for at, action in sorted(script, key=lambda p: p[0]):
            await asyncio.sleep(t0 + at - LOOP.time())
            action()
        await asyncio.sleep(t0 + duration - LOOP.time())
        check(not t.done(), f"{title}: the scheduler loop is still running at the end")
        rest = [x for x in asyncio.all_tasks() if x is not asyncio.current_task()]
        for x in rest:
            x.cancel()
        await asyncio.gather(*rest, return_exceptions=True)

    asyncio.set_event_loop(LOOP)
    try:
        LOOP.run_until_complete(main())
    finally:
        lg.removeHandler(tap)
        LOOP.close()
    first = BASE + start
    end = first + timedelta(seconds=duration)
    expected_polls = [first]
    m = first.replace(second=0, microsecond=0) + timedelta(minutes=1)
    while m < end:
        expected_polls.append(m)
        m += timedelta(minutes=1)
    for s in sources:
        check(
            s.polls == expected_polls,
            f"{title}: {s} polled at start and at every minute boundary "
            f"({len(s.polls)} polls, expected {len(expected_polls)})",
        )
    print(f"   polls per source: {len(expected_polls)} (start {first.time()}, then each :00)")
    if tap.lines:
        print("   in-flight log lines (changed tree only):", len(tap.lines))
        for ln in tap.lines[:4]:
            print("     ", ln)
    run_history.polls = expected_polls  # type: ignore
    run_history.errors = errors  # type: ignore
    return tap


def check_cron(
    title: str,
    broker: RecBroker,
    name: str,
    sid: str,
    expr_at: Callable[[datetime], Optional[str]],
    lost: Callable[[datetime], bool] = lambda m: False,
    use_attempts: bool = False,
) -> None:
    """One send of (name,sid) in each polled minute that matches, none otherwise."""
    polls: List[datetime] = run_history.polls  # type: ignore
    rec = broker.attempts if use_attempts else broker.sent
    per_min = Counter(
        t.replace(second=0, microsecond=0) for (t, n, s) in rec if n == name and s == sid
    )
    want = {}
    for p in polls:
        expr = expr_at(p)
        m = p.replace(second=0, microsecond=0)
        due = expr is not None and pycron.is_now(expr, p.replace(tzinfo=UTC)) and not lost(p)
        want[m] = 1 if due else 0
    got = {m: per_min.get(m, 0) for m in want}
    extra = sum(per_min.values()) - sum(got.values())
    check(got == want and extra == 0, f"{title}: {name}/{sid} sent exactly once per matching minute")
    print(f"   {name}/{sid}: {sum(want.values())} matching minutes of {len(want)}, "
          f"sent {sum(per_min.values())}x, per-minute counts equal: {got == want}")
    for (t, n, s) in rec:
        if n == name and s == sid:
            check(t.second == 0 or t == polls[0], f"{title}: {name} sent at the poll instant")


# ------------------------------------------------------------------- histories
def h1() -> None:
    t = "H1 start mid-minute, two sources, matching / non-matching crons"
    b = RecBroker()
    a, c = Src("a"), Src("c")
    a.items = [cron("every", "s1", "* * * * *"), cron("odd", "s2", "1-59/2 * * * *")]
    c.items = [cron("never", "s3", "0 0 1 1 *"), cron("five", "s4", "*/5 * * * *"),
               cron("offs", "s5", "*/3 * * * *", cron_offset=timedelta(minutes=1))]
    run_history(t, timedelta(minutes=57, seconds=37, microseconds=250000), 11 * 60, [a, c], b, [])
    check_cron(t, b, "every", "s1", lambda p: "* * * * *")
    check_cron(t, b, "odd", "s2", lambda p: "1-59/2 * * * *")
    check_cron(t, b, "never", "s3", lambda p: "0 0 1 1 *")
    check_cron(t, b, "five", "s4", lambda p: "*/5 * * * *")
    n = sum(1 for (tm, nm, s) in b.sent if nm == "offs")
    want = sum(1 for p in run_history.polls if (p.minute + 1) % 3 == 0)  # type: ignore
    check(n == want, f"{t}: offset cron sent once per shifted matching minute")
    print(f"   offs/s5 (offset +1min): sent {n}x, expected {want}x")


def h2() -> None:
    t = "H2 sends outlast a minute; ids reused across sources, inside a list, across polls"
    b = RecBroker()
    b.slow = {"slow_a": 150.0, "slow_b": 150.0, "slow_dup1": 95.0, "slow_dup2": 95.0, "twin": 61.0}
    a, c = Src("a"), Src("c")
    # same schedule_id "X" in both sources, and twice inside a's list; "twin" is even the
    # same name+id in both sources (two schedules, so two sends per minute).
    a.items = [cron("slow_a", "X", "* * * * *"), cron("slow_dup1", "D", "* * * * *"),
               cron("slow_dup2", "D", "*/2 * * * *"), cron("twin", "T", "* * * * *")]
    c.items = [cron("slow_b", "X", "* * * * *"), cron("twin", "T", "* * * * *")]
    tap = run_history(t, timedelta(minutes=10, seconds=59, microseconds=999999), 8 * 60, [a, c], b, [])
    for name, sid, e in [("slow_a", "X", "* * * * *"), ("slow_b", "X", "* * * * *"),
                         ("slow_dup1", "D", "* * * * *"), ("slow_dup2", "D", "*/2 * * * *")]:
        check_cron(t, b, name, sid, lambda p, e=e: e, use_attempts=True)
    per_min = Counter(tm.replace(second=0, microsecond=0) for (tm, n, s) in b.attempts if n == "twin")
    check(all(per_min[p.replace(second=0, microsecond=0)] == 2 for p in run_history.polls),  # type: ignore
          f"{t}: twin/T sent once per source per minute")
    print("   twin/T (same name and id in both sources): 2 sends in each of",
          len(per_min), "minutes:", set(per_min.values()) == {2})
    # every send that had time to finish did finish (was not lost while in flight)
    end = run_history.polls[0] + timedelta(seconds=8 * 60)  # type: ignore
    should_finish = [x for x in b.attempts if x[0] + timedelta(seconds=b.slow[x[1]]) < end]
    check(Counter(should_finish) == Counter(b.sent), f"{t}: every long send completed")
    print(f"   long sends started {len(b.attempts)}, due to finish {len(should_finish)}, finished {len(b.sent)}")
    if tap.lines:
        # changed tree: the logged number must equal the true number of unfinished sends
        ok = True
        for ln, p in zip(tap.lines, run_history.polls):  # type: ignore
            true_n = sum(1 for x in b.attempts
                         if x[0] < p and x[0] + timedelta(seconds=b.slow[x[1]]) > p)
            ok = ok and (f" {true_n} sends" in ln)
        check(ok and len(tap.lines) == len(run_history.polls),  # type: ignore
              f"{t}: logged in-flight count is the true one at every poll")
        print("   logged in-flight counts are the true ones:", ok)


def h3() -> None:
    t = "H3 one-shot schedules: future, past-when-added, id recycled after deletion"
    b = RecBroker()
    a, c = Src("a"), Src("c")
    start = timedelta(minutes=20, seconds=12)
    T0 = BASE + start
    fut1 = T0 + timedelta(seconds=30)                       # within the first minute
    fut2 = T0 + timedelta(minutes=3, seconds=21, microseconds=400000)  # fractional
    fut3 = T0 + timedelta(minutes=5, seconds=47)
    past = T0 - timedelta(hours=1)
    a.items = [once("o_fut1", "R", fut1), once("o_past0", "P", past), cron("every", "R", "* * * * *")]
    c.items = [once("o_fut2", "R", fut2.replace(tzinfo=UTC))]
    added_at = T0 + timedelta(seconds=100.5)
    script = [
        # between polls: add an already-past one-shot, reusing the id "R" of the deleted o_fut1
        (100.5, lambda: a.items.append(once("o_past1", "R", T0 + timedelta(seconds=5)))),
        # and later a future one re-using id "P"
        (200.0, lambda: c.items.append(once("o_fut3", "P", fut3))),
    ]
    run_history(t, start, 9 * 60, [a, c], b, script)
    polls: List[datetime] = run_history.polls  # type: ignore

    def first_poll_after(x: datetime) -> datetime:
        return min(p for p in polls if p >= x)

    def one(name: str, due: datetime, added: datetime) -> None:
        times = [tm for (tm, n, s) in b.sent if n == name]
        first = first_poll_after(added)
        # already past at the first poll that can see it: sent right at that poll
        lo, hi = (first, first) if due <= first else (due, due + timedelta(seconds=1))
        ok = len(times) == 1 and lo <= times[0] <= hi
        check(ok, f"{t}: {name} sent exactly once in [{lo.time()}, +1s]")
        print(f"   {name}: due {due.time()}, sent {[str(x.time()) for x in times]}, ok={ok}")

    one("o_fut1", fut1, T0)
    one("o_past0", past, T0)
    one("o_fut2", fut2, T0)
    one("o_past1", T0 + timedelta(seconds=5), added_at)
    one("o_fut3", fut3, T0 + timedelta(seconds=200))
    check_cron(t, b, "every", "R", lambda p: "* * * * *")


def h4() -> None:
    t = "H4 failing source / failing sends / bad cron do not stop later polls"
    b = RecBroker()
    a, c = Src("a"), Src("c")
    start = timedelta(minutes=30, seconds=3)
    T0 = BASE + start
    a.items = [cron("a_ok", "1", "* * * * *"), cron("a_bad", "2", "not a cron"),
               cron("a_flaky", "3", "* * * * *")]
    c.items = [cron("c_ok", "1", "* * * * *")]
    # source c cannot list during minutes 2..3 of the run; a_flaky's send fails in minutes 1 and 4
    bad_c = lambda x: T0 + timedelta(minutes=2) <= x < T0 + timedelta(minutes=4)
    bad_send = lambda x: (x.minute - T0.minute) in (1, 4)
    c.broken = bad_c
    b.fail = lambda name, x: name == "a_flaky" and bad_send(x)
    run_history(t, start, 7 * 60, [a, c], b, [])
    check_cron(t, b, "a_ok", "1", lambda p: "* * * * *")
    check_cron(t, b, "c_ok", "1", lambda p: "* * * * *", lost=bad_c)
    check_cron(t, b, "a_flaky", "3", lambda p: "* * * * *", lost=bad_send)
    check_cron(t, b, "a_flaky", "3", lambda p: "* * * * *", use_attempts=True)
    check(not any(n == "a_bad" for (_, n, _) in b.attempts), f"{t}: unparsable cron never sent")
    print("   a_bad (unparsable cron): never sent, loop kept polling")


def h5() -> None:
    t = "H5 state changes between polls: cron edited, schedules removed and re-added with the same id"
    b = RecBroker()
    b.slow = {"chg": 70.0}
    a = Src("a")
    start = timedelta(minutes=40, seconds=0)  # exactly on a boundary
    a.items = [cron("chg", "Z", "* * * * *"), cron("gone", "G", "* * * * *")]

    def edit() -> None:      # at +150s: chg now matches only even minutes; "gone" is removed
        a.items = [cron("chg", "Z", "*/2 * * * *")]

    def readd() -> None:     # at +330s: "gone" comes back under the same id (a new object)
        a.items.append(cron("gone", "G", "* * * * *"))

    run_history(t, start, 9 * 60, [a], b, [(150.0, edit), (330.0, readd)])
    T0 = BASE + start
    check_cron(t, b, "chg", "Z",
               lambda p: "* * * * *" if p < T0 + timedelta(seconds=150) else "*/2 * * * *",
               use_attempts=True)
    check_cron(t, b, "gone", "G",
               lambda p: "* * * * *" if (p < T0 + timedelta(seconds=150) or p >= T0 + timedelta(seconds=330)) else None)


for h in (h1, h2, h3, h4, h5):
    h()
    errs = run_history.errors  # type: ignore
    # only the deliberately failing sends may surface as unretrieved task exceptions
    other = [e for e in errs
             if "broker is down" not in repr(getattr(e.get("exception"), "__cause__", None))]
    check(not other, f"{h.__name__}: no unexpected loop errors {other[:1]}")

print(f"\n{CHECKS} checks, {len(FAILS)} failed")
for f in FAILS:
    print("  -", f)
sys.exit(1 if FAILS else 0)
