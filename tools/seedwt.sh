#!/bin/sh
# tools/seedwt.sh <seed-dir> [Cxx ...]: confirm a seeded change (tools/verify_seed.sh) and run the checks against it in the scratch worktree
# /tmp/wt/verify via PYVC_REPO (never touches /repo).  "FALSE ALARMS:" in the output of refactortest.py reads "caught by" here.
D=$(cd "$1" && pwd); shift
"$(dirname "$0")/verify_seed.sh" "$D"
DEVTREE=/tmp/wt/verify python3 "$(dirname "$0")/refactortest.py" "$D/patch.diff" "$@" | sed 's/^FALSE ALARMS:/CAUGHT by:/'
