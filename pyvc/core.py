"""pyvc core: AST -> z3 verification-condition generator for the real taskiq sources.

A continuation-passing symbolic executor over Python ``ast`` nodes with
  * one universal value sort ``Val`` (None | bool | int | str-id | ref | class | opaque | float-id | bytes-id),
  * a Burstall/Bornat heap (one z3 array per attribute, list views (len, items), dict views (has, val)),
  * exceptions as first-class control flow with a class lattice,
  * coroutine tokens (calling an async callee yields a token, the contract's effect happens at the ``await``),
  * callee contracts given as handlers keyed by the call pattern (sidecar, never in /repo),
  * named proof obligations ``Cxx/<function>/<clause>`` discharged by z3 (cvc5 takes z3's unknowns).

Nothing here imports taskiq; function bodies are read from ``$PYVC_REPO`` (default /repo) on every run.
Path conditions stay quantifier-free (``st.pc``); quantified hypotheses live in ``st.facts`` and are only used when
proving goals, never in feasibility queries (DESIGN 2.4)."""
import ast, itertools, collections, time, hashlib, os, sys, re, subprocess, tempfile, json
from z3 import *
import z3 as _z3

REPO = os.environ.get('PYVC_REPO', '/repo')

Val = Datatype('Val')
Val.declare('none'); Val.declare('boolv', ('b', BoolSort())); Val.declare('intv', ('i', IntSort()))
Val.declare('strv', ('s', IntSort())); Val.declare('ref', ('a', IntSort())); Val.declare('clsv', ('c', IntSort()))
Val.declare('opq', ('o', IntSort())); Val.declare('floatv', ('f', IntSort())); Val.declare('bytesv', ('y', IntSort()))
Val.declare('dt', ('us', IntSort()), ('aware', BoolSort()), ('tz', IntSort()))   # datetime: instant (aware) or wall value (naive) in microseconds; tz 0 = UTC
Val.declare('td', ('tus', IntSort()))                                            # timedelta in microseconds
Val = Val.create()
VArr = ArraySort(IntSort(), Val)
I2I = ArraySort(IntSort(), IntSort()); I2B = ArraySort(IntSort(), BoolSort())
_cnt = itertools.count()
def fresh(name, sort=Val): return Const(f"{name}!{next(_cnt)}", sort)
def b2i(b): return If(b, 1, 0)


class Interner:
    def __init__(s): s.ids = {}
    def get(s, text):
        if text not in s.ids: s.ids[text] = len(s.ids) + 1
        return Val.strv(s.ids[text])
    def name_of(s, i):
        for t, k in s.ids.items():
            if k == i: return t
        return None
STR = Interner()
EMPTY_STR = STR.get("")


class Classes:
    """class lattice: name -> id, parent; closed world over the registered classes."""
    def __init__(s):
        s.ids = {}; s.parents = {}
        for n, p in [('object', None), ('BaseException', 'object'), ('Exception', 'BaseException'), ('ValueError', 'Exception'),
                     ('RuntimeError', 'Exception'), ('LookupError', 'Exception'), ('KeyError', 'LookupError'), ('AttributeError', 'Exception'),
                     ('TypeError', 'Exception'), ('CancelledError', 'BaseException'), ('StopAsyncIteration', 'Exception'),
                     ('OSError', 'Exception'), ('ProcessLookupError', 'OSError'), ('TimeoutError', 'Exception'),
                     ('KeyboardInterrupt', 'BaseException'), ('SystemExit', 'BaseException'), ('GeneratorExit', 'BaseException'), ('ArithmeticError', 'Exception'),
                     ('ZeroDivisionError', 'ArithmeticError'), ('OverflowError', 'ArithmeticError'), ('IndexError', 'LookupError'), ('AssertionError', 'Exception'),
                     ('NotImplementedError', 'RuntimeError'), ('RecursionError', 'RuntimeError'), ('ConnectionError', 'OSError'), ('PermissionError', 'OSError'),
                     ('FileNotFoundError', 'OSError'), ('ChildProcessError', 'OSError'), ('InterruptedError', 'OSError'), ('ImportError', 'Exception'),
                     ('ModuleNotFoundError', 'ImportError'), ('StopIteration', 'Exception'), ('UnicodeError', 'ValueError'), ('UnicodeDecodeError', 'UnicodeError'),
                     ('QueueFull', 'Exception'), ('QueueEmpty', 'Exception'), ('Error', 'Exception'), ('UnknownTimeZoneError', 'KeyError'), ('ValidationError', 'ValueError'),
                     ('JSONDecodeError', 'ValueError'), ('PicklingError', 'Exception'), ('UnpicklingError', 'Exception')]:
            s.add(n, p)
    def add(s, n, p):
        if n in s.ids: return
        s.ids[n] = len(s.ids) + 1; s.parents[n] = p
    def id(s, n): return s.ids[n]
    def is_sub(s, n, m):
        while n is not None:
            if n == m: return True
            n = s.parents[n]
        return False
    def sub_expr(s, cid_expr, m):
        """z3 predicate: the class id is a (registered) subclass of the known class m."""
        return Or(*[cid_expr == s.ids[n] for n in s.ids if s.is_sub(n, m)])
    def name_of(s, i):
        for n, k in s.ids.items():
            if k == i: return n
        return None
CLS = Classes()
def register_repo_classes(src):
    """closed world = the builtin classes above + every class of the repository that derives (transitively) from a registered exception class
    (taskiq/exceptions.py first). Done once, BEFORE any formula mentions 'any subclass of X', so an `except NewError` clause or a `raise NewError`
    introduced by a change is inside the lattice from the start."""
    import glob
    files = [os.path.join(REPO, 'taskiq', 'exceptions.py')] + sorted(glob.glob(os.path.join(REPO, 'taskiq', '**', '*.py'), recursive=True))
    defs = []
    for f in files:
        try: tree = ast.parse(open(f).read())
        except Exception: continue
        for n in ast.walk(tree):
            if isinstance(n, ast.ClassDef) and n.bases: defs.append((n.name, [ast.unparse(b).split('.')[-1].split('[')[0] for b in n.bases]))
    changed = True
    while changed:
        changed = False
        for name, bases in defs:
            if name in CLS.ids: continue
            exc_bases = [b for b in bases if b in CLS.ids and CLS.is_sub(b, 'BaseException')]
            if exc_bases: CLS.add(name, exc_bases[0]); changed = True


# ---- python-side wrappers for values whose *kind* is known statically
class PyTuple:
    def __init__(s, items): s.items = list(items)
class PyList:
    def __init__(s, addr): s.addr = addr
class PyDict:
    def __init__(s, addr): s.addr = addr
class PyObj:
    def __init__(s, addr, kind=None): s.addr = addr; s.kind = kind
class PyCallable:
    def __init__(s, name, self_=None): s.name = name; s.self_ = self_
class PyBool:
    def __init__(s, e): s.e = e
class PyInt:
    def __init__(s, e): s.e = e


class Heap:
    def __init__(s, tag=""):
        s.fld = {}
        s.llen = Const('llen' + tag, I2I)
        s.litem = Const('litem' + tag, ArraySort(IntSort(), VArr))
        s.dhas = Const('dhas' + tag, ArraySort(IntSort(), ArraySort(Val, BoolSort())))
        s.dval = Const('dval' + tag, ArraySort(IntSort(), ArraySort(Val, Val)))
        s.cls_of = Const('clsof' + tag, I2I)
        s.next = Int('next' + tag); s.tag = tag
    def copy(s):
        h = Heap.__new__(Heap); h.__dict__ = dict(s.__dict__); h.fld = dict(s.fld); return h
    def field(s, name):
        if name not in s.fld: s.fld[name] = Const(f"fld_{name}{s.tag}", VArr)
        return s.fld[name]


class State:
    def __init__(s): s.env = {}; s.heap = Heap(); s.pc = []; s.facts = []; s.ghost = {}; s.kinds = {}
    def fork(s):
        n = State(); n.env = dict(s.env); n.heap = s.heap.copy(); n.pc = list(s.pc); n.facts = list(s.facts); n.ghost = dict(s.ghost); n.kinds = s.kinds
        return n
def G(st): return st.ghost
def setG(st, **kw): st.ghost = dict(st.ghost); st.ghost.update(kw)
def assume(st, cs):
    for c in cs: (st.facts if is_quantifier(c) else st.pc).append(c)


class Unsupported(Exception):
    """a construct outside the supported subset: the check is UNDECIDED (exit 2), never a violation."""


class Tok:
    """coroutine/awaitable token: deferred contract, applied at the await"""
    def __init__(s, eff, kind=None): s.eff = eff; s.kind = kind
def h_maybe_awaitable(ex, st, e, recv, args, kw, k, K): return k(st, args[0])
def sync_or_async(ex, st, flag, eff, k, K):
    """user callable that may be sync (effect now) or async (effect at the await)"""
    ex.branch(st, flag, lambda s: k(s, Tok(eff)), lambda s: eff(s, k, K))


# ------------------------------------------------------------------ obligations
class Obl:
    __slots__ = ('name', 'props', 'hyps', 'goal', 'witness', 'kind', 'replay', 'approx')
    def __init__(s, name, props, hyps, goal, witness=None, kind='goal', replay=None, approx=()):
        s.name = name; s.props = tuple(props); s.hyps = hyps; s.goal = goal; s.witness = witness or {}; s.kind = kind; s.replay = replay; s.approx = tuple(approx)
def approx(st, reason):
    """the path now depends on an OVER-APPROXIMATION of code the contracts do not describe (e.g. an unconstrained boolean for a membership test in
    bookkeeping the unit knows nothing about). Proofs on such a path stay sound; a REFUTATION on it may be spurious, so it is reported as
    undecided (with the reason) and left to the native drivers - never as a violation."""
    st.ghost = dict(st.ghost); st.ghost['__approx'] = tuple(st.ghost.get('__approx', ())) + (reason,)
OBL = []
DEFAULT_PROPS = []          # set by the unit
DEFAULT_REPLAY = {}         # {'replay': {'driver': name}} set by the unit runner from the spec's REPLAY
_TAG = re.compile(r"\[(C\d\d(?:/C\d\d)*)\]")
def oblige(st, name, goal, props=None, witness=None, kind='goal', replay=None):
    """record a proof obligation under the current path condition. Property tags may be given in the name as [C02] or [C06/C07]."""
    if props is None:
        m = _TAG.findall(name)
        props = [p for grp in m for p in grp.split('/')] if m else list(DEFAULT_PROPS)
    if isinstance(goal, bool): goal = BoolVal(goal)
    w = dict(st.ghost.get('__witness', {})) if isinstance(st.ghost.get('__witness'), dict) else {}
    if witness: w.update(witness)
    OBL.append(Obl(name, props, list(st.pc) + list(st.facts), goal, w, kind, replay if replay is not None else DEFAULT_REPLAY.get('replay'), approx=st.ghost.get('__approx', ())))
def reach(st, name, props=None, witness=None, replay=None):
    """vacuity guard: the path reaching this point must be satisfiable (recorded as a must-fail obligation)."""
    oblige(st, name, BoolVal(False), props=props or list(DEFAULT_PROPS), kind='mustfail', witness=witness, replay=replay)


_LOCAL_CONTAINER_METHODS = ('add', 'discard', 'remove', 'clear', 'update', 'append', 'extend', 'get', 'pop', 'setdefault', 'popitem', 'copy', 'keys', 'values', 'items')
def bind_prelude_locals(env, stmts):
    """locals a function binds BEFORE its main loop and that the contract does not name: at the head of an arbitrary iteration their value is arbitrary.
    int literal -> unconstrained integer; fresh container ({} [] set() dict() list() deque() ...) -> opaque 'localcontainer_<name>' (its methods are
    tainted no-ops / unconstrained reads, see find_handler); any other initialiser may alias modelled state and is left unbound (Unsupported on use)"""
    import ast as _ast
    for s_ in stmts:
        tg = s_.targets[0] if isinstance(s_, _ast.Assign) and len(s_.targets) == 1 else (s_.target if isinstance(s_, _ast.AnnAssign) else None)
        v_ = getattr(s_, 'value', None)
        if not isinstance(tg, _ast.Name) or tg.id in env or v_ is None: continue
        if isinstance(v_, _ast.Constant) and isinstance(v_.value, int) and not isinstance(v_.value, bool): env[tg.id] = PyInt(fresh(tg.id, IntSort()))
        elif (isinstance(v_, (_ast.Dict, _ast.List, _ast.Set)) and not (getattr(v_, 'keys', None) or getattr(v_, 'elts', None))) or \
             (isinstance(v_, _ast.Call) and not v_.args and not v_.keywords and _ast.unparse(v_.func) in ('set', 'dict', 'list', 'deque', 'collections.deque', 'Counter', 'collections.Counter', 'WeakSet', 'weakref.WeakSet')):
            env[tg.id] = fresh('localcontainer_' + tg.id)
def to_val(v):
    """coerce python-side wrapper to a z3 Val"""
    if isinstance(v, PyBool): return Val.boolv(v.e)
    if isinstance(v, PyInt): return Val.intv(v.e)
    if isinstance(v, (PyList, PyDict, PyObj)): return Val.ref(v.addr)
    if v is None: return Val.none
    if isinstance(v, bool): return Val.boolv(v)
    if isinstance(v, int): return Val.intv(v)
    if isinstance(v, str): return STR.get(v)
    if is_expr(v): return v
    if isinstance(v, PyCallable):
        # module-level classes / enum members / dotted attributes may be used as opaque values; a bare lowercase name that is not bound in the
        # environment is most likely a local the contract failed to bind (e.g. after a rename): UNDECIDED rather than a garbage value
        if '.' in v.name or v.name[:1].isupper() or v.name.startswith('_'): return Val.opq(Val.s(STR.get('<callable ' + v.name + '>')))
        raise Unsupported(f"name `{v.name}` is used as a value but is not bound by the contract (renamed local?)")
    raise Unsupported(f"to_val {v!r}")
_float_is_zero = Function('float_is_zero', IntSort(), BoolSort()); _bytes_is_empty = Function('bytes_is_empty', IntSort(), BoolSort())
_exc_is_falsy = Function('exception_object_is_falsy', IntSort(), BoolSort())
def exc_objs(st): return st.ghost.get('__exc_objs', _z3.K(IntSort(), BoolVal(False)))
def mark_exception(st, v):
    """v (a Val) is an exception object that came out of user code: its truth value is not known"""
    v = to_val(v); st.ghost = dict(st.ghost); st.ghost['__exc_objs'] = If(Val.is_ref(v), Store(exc_objs(st), Val.a(v), True), exc_objs(st))
def truthy(v, st=None):
    """Python truth value. 0 / 0.0 / '' / b'' / timedelta(0) / None / empty list are false; objects without __bool__/__len__ are true.
    (floats and bytes are opaque ids: their zero-ness / emptiness is an uninterpreted predicate, so `if x:` on them has BOTH outcomes)"""
    if isinstance(v, PyList) and st is not None: return st.heap.llen[v.addr] > 0
    if isinstance(v, PyDict) and st is not None: return st.heap.dhas[v.addr] != _z3.K(Val, False)          # a dict is true iff it has some key
    if isinstance(v, PyBool): return v.e
    if isinstance(v, PyInt): return v.e != 0
    if v is None: return BoolVal(False)
    if isinstance(v, bool): return BoolVal(v)
    if isinstance(v, PyObj): return BoolVal(True)
    if isinstance(v, str): return BoolVal(v != "")
    if isinstance(v, int): return BoolVal(v != 0)
    v = to_val(v)
    # an EXCEPTION object raised by user code (task function, hook, dependency: allocated by raise_any / marked by mark_exception) may be of a class that
    # defines __bool__/__len__, so `if exc:` is not `if exc is not None:` - both outcomes exist. Every other heap object the units create (messages,
    # contexts, brokers, library objects, exceptions built by the repository's own constructors) defines neither and is true.
    obj = Not(And(Select(exc_objs(st), Val.a(v)), _exc_is_falsy(Val.a(v)))) if st is not None else BoolVal(True)
    return If(Val.is_none(v), False, If(Val.is_boolv(v), Val.b(v), If(Val.is_intv(v), Val.i(v) != 0, If(Val.is_strv(v), Val.s(v) != Val.s(EMPTY_STR),
           If(Val.is_td(v), Val.tus(v) != 0, If(Val.is_floatv(v), Not(_float_is_zero(Val.f(v))), If(Val.is_bytesv(v), Not(_bytes_is_empty(Val.y(v))), If(Val.is_ref(v), obj, True))))))))


class Exec:
    def __init__(self, handlers, attr_kinds=None, inline=None, module_funcs=None):
        self.handlers = handlers          # callee pattern -> handler(ex, st, call_node, recv, args, kwargs, k, K)
        for nm_ in ('BaseException.__setattr__', 'object.__setattr__'): self.handlers.setdefault(nm_, _h_setattr)
        self.attr_kinds = attr_kinds or {}  # "message.args" -> 'list' ...
        self.module_funcs = module_funcs or {}
        self.npaths = 0
        self.unmodelled = set()
        self.method_names = {pat[2:] for pat in handlers if pat.startswith('*.') and pat[2:].isidentifier()}          # `x.ack` read without a call is a bound method (never None), not a data field
    # ---------- helpers
    def feasible(self, st):
        s = Solver(); s.set('timeout', 2000); s.add(*st.pc); return s.check() != unsat
    def branch(self, st, cond, kt, kf):
        cond = simplify(cond)
        if is_true(cond): return kt(st)
        if is_false(cond): return kf(st)
        for c, k in ((cond, kt), (Not(cond), kf)):
            s2 = st.fork(); s2.pc.append(c)
            if self.feasible(s2): k(s2)
    def wrap_kind(self, path, v):
        kind = self.attr_kinds.get(path)
        if kind == 'list': return PyList(Val.a(to_val(v)))
        if kind == 'dict': return PyDict(Val.a(to_val(v)))
        if kind == 'obj': return PyObj(Val.a(to_val(v)))
        return v
    # ---------- expressions
    def ev(self, e, st, k, K):
        m = getattr(self, 'ev_' + type(e).__name__, None)
        if m is None: raise Unsupported("expression " + type(e).__name__ + ": " + ast.unparse(e)[:80])
        return m(e, st, k, K)
    def ev_Constant(self, e, st, k, K): return k(st, e.value)
    def ev_Name(self, e, st, k, K):
        if e.id in st.env: return k(st, st.env[e.id])
        if e.id in CLS.ids: return k(st, Val.clsv(CLS.id(e.id)))
        return k(st, PyCallable(e.id))
    def ev_Attribute(self, e, st, k, K):
        path = ast.unparse(e)
        def got(st2, base):
            if isinstance(base, PyCallable) or not isinstance(base, (PyObj,)) and not is_expr(base):
                return k(st2, PyCallable(path, base))
            addr = base.addr if isinstance(base, PyObj) else Val.a(to_val(base))
            if (path in self.attr_kinds and self.attr_kinds[path] == 'method') or path.split('.')[-1] in getattr(self, 'method_names', ()):
                return k(st2, PyCallable(path, base))
            v = st2.heap.field(e.attr)[addr]
            return k(st2, self.wrap_kind(path, v))
        return self.ev(e.value, st, got, K)
    def ev_JoinedStr(self, e, st, k, K): return k(st, fresh('fstr'))
    def ev_Dict(self, e, st, k, K):
        if e.keys and all(x is None for x in e.keys):          # {**a, **b, ...}: a new dict, later entries win
            def got(s, ds):
                if not all(isinstance(d, PyDict) for d in ds): raise Unsupported("dict unpacking of a value that is not a modelled dict: " + ast.unparse(e)[:80])
                key = Const('dkey', Val); r = alloc(s); has = Or(*[s.heap.dhas[d.addr][key] for d in ds]); val = s.heap.dval[ds[0].addr][key]
                for d in ds[1:]: val = If(s.heap.dhas[d.addr][key], s.heap.dval[d.addr][key], val)
                s.facts.append(ForAll([key], And(s.heap.dhas[r][key] == has, s.heap.dval[r][key] == val))); return k(s, PyDict(r))
            return self.ev_list(e.values, st, got, K)
        if e.keys: return k(st, fresh('dictdisplay'))
        a = alloc(st); st.pc.append(st.heap.dhas[a] == _z3.K(Val, False)); return k(st, PyDict(a))          # {}: a new, empty, modelled dict
    def ev_List(self, e, st, k, K):
        if e.elts: return k(st, fresh('listdisplay'))
        a = alloc(st); st.pc.append(st.heap.llen[a] == 0); return k(st, PyList(a))                         # []: a new, empty, modelled list
    def ev_Tuple(self, e, st, k, K): return self.ev_list(e.elts, st, lambda s, vs: k(s, PyTuple(vs)), K)
    # comprehensions  [f(x) for x in xs if c(x)]  /  {k: f(v) for k, v in d.items() if c(k, v)}  (one generator): filter and element expression are
    # executed ONCE for an arbitrary element (fresh index / key); the result collection is described by quantified facts obtained by generalising
    # that element.  Without a filter the description is exact (same length, element j is f(xs[j])); with a filter the dict result is exact
    # (key set = the keys that pass) and the list result is over-approximated soundly: 0 <= len <= len(xs), len == len(xs) iff every element
    # passes, every result element is f(some passing element) (order and multiplicity are not tracked).  Anything else (nested generators,
    # expressions that fork, write the heap or build tuples) is outside the subset -> Unsupported (UNDECIDED), never a guess.
    def ev_ListComp(self, e, st, k, K): return self._comprehension(e, st, k, K, False)
    def ev_DictComp(self, e, st, k, K): return self._comprehension(e, st, k, K, True)
    def _comprehension(self, e, st, k, K, is_dict):
        if len(e.generators) != 1 or e.generators[0].is_async: raise Unsupported("comprehension with several generators: " + ast.unparse(e)[:80])
        gen = e.generators[0]; it = gen.iter; txt = ast.unparse(e)[:80]
        over_items = isinstance(it, ast.Call) and isinstance(it.func, ast.Attribute) and it.func.attr == 'items' and not it.args and not it.keywords
        def with_src(st1, src):
            child = st1.fork(); child.env = dict(child.env)
            if over_items:
                if not isinstance(src, PyDict) or not (isinstance(gen.target, ast.Tuple) and len(gen.target.elts) == 2 and all(isinstance(t, ast.Name) for t in gen.target.elts)):
                    raise Unsupported("comprehension over " + ast.unparse(it)[:60])
                q = fresh('ckey'); child.pc.append(child.heap.dhas[src.addr][q])
                child.env[gen.target.elts[0].id] = q; child.env[gen.target.elts[1].id] = child.heap.dval[src.addr][q]
            else:
                if not isinstance(src, PyList) or not isinstance(gen.target, ast.Name): raise Unsupported("comprehension over " + ast.unparse(it)[:60])
                q = fresh('cidx', IntSort()); child.pc += [q >= 0, q < child.heap.llen[src.addr]]
                child.env[gen.target.id] = self.wrap_elem(src, child.heap.litem[src.addr][q]) if hasattr(self, 'wrap_elem') else child.heap.litem[src.addr][q]
            h0 = child.heap
            K2 = dict(K); K2['exc'] = lambda s, x: (s.__setattr__('env', dict(st1.env)), K['exc'](s, x))[1]      # some element raises: the comprehension raises
            def pure(s, npc, nfacts):
                hs = s.heap
                if len(s.facts) != nfacts: raise Unsupported("comprehension element adds quantified facts: " + txt)
                if any(not a.eq(b) for a, b in ((hs.llen, h0.llen), (hs.litem, h0.litem), (hs.dhas, h0.dhas), (hs.dval, h0.dval), (hs.cls_of, h0.cls_of))) or not (hs.next is h0.next or hs.next.eq(h0.next)) \
                   or any(not hs.fld[f].eq(h0.field(f)) for f in hs.fld):
                    raise Unsupported("comprehension element with side effects: " + txt)
                return s.pc[npc:]
            # 1. the filter, for the arbitrary element
            cond = BoolVal(True); cur = child
            for tst in gen.ifs:
                outs = []; npc, nf = len(cur.pc), len(cur.facts)
                self.ev(tst, cur, lambda s, v: outs.append((s, v)), K2)
                if len(outs) != 1: raise Unsupported(f"comprehension filter has {len(outs)} normal paths: " + txt)
                s, v = outs[0]
                if pure(s, npc, nf): raise Unsupported("comprehension filter that constrains the path: " + txt)
                c = truthy(v); cond = And(cond, c) if gen.ifs.index(tst) else c
                cur = s.fork(); cur.env = dict(s.env); cur.pc.append(c)          # later filters and the element expression are evaluated only if this one passes
            # 2. the element expression(s), for an arbitrary element that passes
            outs = []; npc, nf = len(cur.pc), len(cur.facts)
            if is_dict: self.ev(e.key, cur, lambda s, kv: self.ev(e.value, s, lambda s2, vv: outs.append((s2, kv, vv)), K2), K2)
            else: self.ev(e.elt, cur, lambda s, vv: outs.append((s, None, vv)), K2)
            if len(outs) != 1: raise Unsupported(f"comprehension element has {len(outs)} normal paths: " + txt)
            s, kv, vv = outs[0]
            if isinstance(vv, (PyTuple, PyCallable, Tok)): raise Unsupported("comprehension element value: " + txt)
            extra = pure(s, npc, nf); out = st1.fork(); r = alloc(out); v = to_val(vv)
            if is_dict:
                if not (over_items and is_expr(kv) and kv.eq(q)): raise Unsupported("dict comprehension that renames keys: " + txt)
                if gen.ifs: out.facts.append(ForAll([q], out.heap.dhas[r][q] == And(out.heap.dhas[src.addr][q], cond)))
                else: out.pc.append(out.heap.dhas[r] == out.heap.dhas[src.addr])
                out.facts.append(ForAll([q], Implies(And(out.heap.dhas[src.addr][q], cond), And(*extra, out.heap.dval[r][q] == v))))
                return k(out, PyDict(r))
            if over_items: raise Unsupported("list comprehension over dict items: " + txt)
            n = out.heap.llen[src.addr]
            if not gen.ifs:
                out.pc.append(out.heap.llen[r] == n)
                out.facts.append(ForAll([q], Implies(And(q >= 0, q < n), And(*extra, out.heap.litem[r][q] == v))))
                return k(out, PyList(r))
            m = out.heap.llen[r]; wq = fresh('cfail', IntSort()); j = fresh('cj', IntSort()); idx = Function(f'csrc!{next(_cnt)}', IntSort(), IntSort())
            out.pc += [m >= 0, m <= n, Implies(m < n, And(wq >= 0, wq < n, Not(substitute(cond, (q, wq)))))]
            out.facts.append(ForAll([q], Implies(And(q >= 0, q < n, Not(cond)), m < n)))
            out.facts.append(ForAll([j], Implies(And(j >= 0, j < m), And(idx(j) >= 0, idx(j) < n, substitute(And(cond, *extra, out.heap.litem[r][j] == v), (q, idx(j)))))))
            return k(out, PyList(r))
        return self.ev(it.func.value if over_items else it, st, with_src, K)
    def ev_list(self, es, st, k, K, acc=None):
        acc = acc or []
        if not es: return k(st, acc)
        return self.ev(es[0], st, lambda s, v: self.ev_list(es[1:], s, k, K, acc + [v]), K)
    def ev_UnaryOp(self, e, st, k, K):
        if isinstance(e.op, ast.Not): return self.ev(e.operand, st, lambda s, v: k(s, PyBool(Not(truthy(v, s)))), K)
        if isinstance(e.op, ast.USub):
            def neg(s, v):
                if isinstance(v, (PyInt, int)) and not isinstance(v, bool): return k(s, PyInt(-self.as_int(v)))
                vv = to_val(v)          # -timedelta is a timedelta; -int an int (anything else: the integer view, unspecified for other constructors)
                return self.branch(s, Val.is_td(vv), lambda a: k(a, Val.td(-Val.tus(vv))), lambda b: k(b, PyInt(-self.as_int(v))))
            return self.ev(e.operand, st, neg, K)
        raise Unsupported("unary operator " + ast.unparse(e))
    def ev_IfExp(self, e, st, k, K):
        return self.ev(e.test, st, lambda s, v: self.branch(s, truthy(v, s), lambda a: self.ev(e.body, a, k, K), lambda b: self.ev(e.orelse, b, k, K)), K)
    def ev_Starred(self, e, st, k, K): return self.ev(e.value, st, k, K)
    def as_int(self, v):
        if isinstance(v, PyInt): return v.e
        if isinstance(v, bool): return IntVal(1 if v else 0)
        if isinstance(v, int): return IntVal(v)
        return Val.i(to_val(v))
    def ev_BoolOp(self, e, st, k, K):
        # python value semantics with short circuit (side effects in later operands are conditional -> fork)
        def go(i, st2):
            def got(st3, v):
                if i == len(e.values) - 1: return k(st3, v)
                t = truthy(v, st3)
                if isinstance(e.op, ast.And): return self.branch(st3, t, lambda a: go(i + 1, a), lambda b: k(b, v))
                return self.branch(st3, t, lambda a: k(a, v), lambda b: go(i + 1, b))
            return self.ev(e.values[i], st2, got, K)
        return go(0, st)
    def ev_BinOp(self, e, st, k, K):
        def got(st2, vs):
            a, b = self.as_int(vs[0]), self.as_int(vs[1])
            if isinstance(e.op, ast.Add): return k(st2, PyInt(a + b))
            if isinstance(e.op, ast.Sub): return k(st2, PyInt(a - b))
            if isinstance(e.op, ast.Mult): return k(st2, PyInt(a * b))
            raise Unsupported("binary operator " + ast.unparse(e))
        return self.ev_list([e.left, e.right], st, got, K)
    def compare(self, op, l, r, st):
        if isinstance(op, (ast.Is, ast.IsNot)):
            # identity. For None / True / False / classes / enum members / objects it coincides with equality of the modelled values; for str, bytes, int and float
            # VALUES it does not (two equal strings are in general two objects): then `is` implies equality but not the converse - an unconstrained
            # boolean, and the path is marked as depending on an approximation.
            a_, b_ = to_val(l), to_val(r)
            singleton = lambda x: x is None or isinstance(x, (bool, PyBool, PyObj, PyList, PyDict)) or (is_expr(x) and (x.eq(Val.none) or x.decl().name() in ('ref', 'clsv', 'opq', 'boolv', 'none')))
            if singleton(l) or singleton(r): res = a_ == b_
            else:
                valuey = Or(Val.is_strv(a_), Val.is_bytesv(a_), Val.is_floatv(a_), Val.is_intv(a_))
                same_obj = fresh('is_same_object', BoolSort())
                if st is not None: approx(st, "`is` between values that may be str/bytes/int/float: identity of equal values is not determined by the language")
                res = If(valuey, And(a_ == b_, same_obj), a_ == b_)
            return res if isinstance(op, ast.Is) else Not(res)
        if isinstance(op, ast.Eq): return to_val(l) == to_val(r)
        if isinstance(op, ast.NotEq): return to_val(l) != to_val(r)
        if isinstance(op, (ast.Lt, ast.LtE, ast.Gt, ast.GtE)):
            a, b = self.as_int(l), self.as_int(r)
            return {ast.Lt: a < b, ast.LtE: a <= b, ast.Gt: a > b, ast.GtE: a >= b}[type(op)]
        if isinstance(op, (ast.In, ast.NotIn)):
            if isinstance(r, PyDict): res = st.heap.dhas[r.addr][to_val(l)]
            elif hasattr(r, 'contains'): res = r.contains(st, to_val(l))
            elif isinstance(r, PyCallable) or (is_expr(r) and r.sort() == Val):
                # membership in a container the contracts do not describe (a module-level cache, an opaque bookkeeping object): its contents depend on
                # history, so the test has both outcomes; the path is marked as an approximation (a refutation that needs one outcome is UNDECIDED)
                if st is not None: approx(st, f"membership test on a container without a contract ({getattr(r, 'name', None) or r}): unconstrained boolean")
                res = fresh('in_unknown_container', BoolSort())
            else: raise Unsupported("'in' on " + repr(r))
            return res if isinstance(op, ast.In) else Not(res)
        raise Unsupported("comparison operator")
    def ev_Compare(self, e, st, k, K):
        def got(st2, vs):          # a < b < c  ==  a < b and b < c (operands evaluated once, left to right; they are side-effect free in the subset)
            cs = [self.compare(op, vs[i], vs[i + 1], st2) for i, op in enumerate(e.ops)]
            return k(st2, PyBool(cs[0] if len(cs) == 1 else And(*cs)))
        return self.ev_list([e.left] + list(e.comparators), st, got, K)
    def ev_Subscript(self, e, st, k, K):
        def got(st2, vs):
            base, idx = vs
            if isinstance(base, PyList):
                i = self.as_int(idx)
                oblige(st2, f"index-in-range@{ast.unparse(e)}", And(i >= 0, i < st2.heap.llen[base.addr]))
                return k(st2, st2.heap.litem[base.addr][i])
            if isinstance(base, PyDict):
                return k(st2, st2.heap.dval[base.addr][to_val(idx)])
            if isinstance(base, PyTuple) and isinstance(idx, int):
                return k(st2, base.items[idx])
            if is_expr(base) and base.sort() == Val and not isinstance(idx, (PyTuple, PyCallable)):          # an object the contracts say nothing about: read through the dict view of its address
                return k(st2, st2.heap.dval[Val.a(base)][to_val(idx)])
            if isinstance(base, PyCallable) and '.' not in base.name and not base.name[:1].islower():
                # READ from a module-level container without a contract (an ALL-CAPS cache): an unconstrained value, path marked as approximation
                approx(st2, f"read from the module-level container {base.name} (no contract): unconstrained value"); return k(st2, fresh('read_' + base.name))
            raise Unsupported("subscript on " + repr(base))
        return self.ev_list([e.value, e.slice], st, got, K)
    def ev_Await(self, e, st, k, K):
        def got(st2, v):
            if isinstance(v, Tok): return v.eff(st2, k, K)
            return k(st2, v)
        return self.ev(e.value, st, got, K)
    def ev_Call(self, e, st, k, K):
        name = ast.unparse(e.func)
        if any(x.arg is None for x in e.keywords):       # **kwargs at call sites: pass the dict as kw['**']
            star = [x for x in e.keywords if x.arg is None][0]
            e = ast.Call(func=e.func, args=e.args, keywords=[ast.keyword(arg='**', value=star.value)] + [x for x in e.keywords if x.arg is not None])
        def with_recv(st1, recv):
            def with_args(st2, args):
                def with_kw(st3, kwvals):
                    kwargs = dict(zip([x.arg for x in e.keywords], kwvals))
                    h = self.find_handler(name, recv)
                    if h is None: raise Unsupported("call without a contract: " + name)
                    return h(self, st3, e, recv, args, kwargs, k, K)
                return self.ev_list([x.value for x in e.keywords], st2, with_kw, K)
            return self.ev_list(e.args, st1, with_args, K)
        # a local that holds a bound method / function taken earlier (`ack = message.ack; ...; ack()`): the call is the call of what it denotes
        if isinstance(e.func, ast.Name) and isinstance(st.env.get(e.func.id), PyCallable) and e.func.id not in self.handlers:
            alias = st.env[e.func.id]; name = alias.name
            return with_recv(st, alias.self_)
        if isinstance(e.func, ast.Name) and is_expr(st.env.get(e.func.id)) and e.func.id not in self.handlers:
            v = st.env[e.func.id]          # `cb = obj.method` read as a heap field: fld_method[addr(obj)]; calling it is calling obj.method
            if v.decl().kind() == Z3_OP_SELECT and is_const(v.arg(0)) and v.arg(0).decl().name().startswith('fld_'):
                attr = v.arg(0).decl().name()[4:].split('!')[0]; attr = re.sub(r'_(h|a)\d+$', '', attr)
                name = e.func.id + '.' + attr
                return with_recv(st, Val.ref(v.arg(1)))
        # evaluate the receiver of a method call when it is a program value (local / attribute chain rooted at a local)
        if isinstance(e.func, ast.Attribute):
            root = e.func.value
            while isinstance(root, (ast.Attribute, ast.Subscript, ast.Call)): root = root.value if not isinstance(root, ast.Call) else root.func
            if (isinstance(root, ast.Name) and root.id in st.env) or isinstance(e.func.value, ast.Call) or not isinstance(root, ast.Name):
                return self.ev(e.func.value, st, with_recv, K)
        return with_recv(st, None)
    def find_handler(self, name, recv=None):
        meth = name.split('.')[-1]
        if isinstance(recv, PyDict) and ('dict.' + meth) in self.handlers: return self.handlers['dict.' + meth]
        if isinstance(recv, PyList) and ('list.' + meth) in self.handlers: return self.handlers['list.' + meth]
        if name in self.handlers: return self.handlers[name]
        for pat, h in self.handlers.items():
            if pat.startswith('*.') and name.endswith(pat[1:]): return h
            if pat.endswith('.*') and name.startswith(pat[:-1]): return h
        if isinstance(recv, PyList) and meth == 'append': return _h_list_append
        if isinstance(recv, PyDict) and meth in _DICT_METHODS: return _DICT_METHODS[meth]
        if is_expr(recv) and recv.sort() == Val and is_const(recv) and recv.decl().name().startswith('localcontainer_') and meth in _LOCAL_CONTAINER_METHODS and name.count('.') == 1:
            # a bookkeeping container the function created itself before its loop (bind_prelude_locals): it cannot alias anything the contracts talk
            # about, so a mutation has no effect on the modelled state and a read yields an unconstrained value; the path is marked as approximation
            def h_local(ex, st, e, r, a, kw, k, K):
                approx(st, f"{name}(): bookkeeping container local to the function, contents not modelled")
                if meth in ('get', 'pop', 'setdefault', 'popitem', 'copy', 'keys', 'values', 'items'): return k(st, fresh(meth + '_of_local_container'))
                return k(st, None)
            return h_local
        h = self.inline_handler(name) or self.pure_fallback(name)
        if h is None and meth in CLS.ids and CLS.is_sub(meth, 'BaseException') and recv is None:          # ValueError("...") / exceptions.SendTaskError(...): a new exception object of that class
            return lambda ex, st, e, r, a, kw, k, K: k(st, new_exc(st, meth))
        if h is None and '.' in name and (re.match(r"^(is_|has_|can_|should_)\w+$", meth) or meth in ('locked', 'empty', 'full', 'done', 'cancelled', 'isidentifier', 'isdigit', 'startswith', 'endswith', 'is_set')) and not getattr(self, 'no_pure_fallback', False):
            def h_pred(ex, st, e, r, a, kw, k, K):          # a side-effect free predicate of an object the contracts do not describe: unconstrained boolean, marked as approximation
                approx(st, f"{name}() has no contract (pure predicate, unconstrained result)"); return k(st, PyBool(fresh(meth + '_result', BoolSort())))
            return h_pred
        if h is None and '.' in name and meth in ('lower', 'upper', 'strip', 'lstrip', 'rstrip', 'title', 'casefold', 'format', 'join', 'split', 'replace', 'encode', 'decode', 'copy', 'total_seconds') and not getattr(self, 'no_pure_fallback', False):
            def h_purem(ex, st, e, r, a, kw, k, K):
                approx(st, f"{name}() has no contract (pure method, unconstrained result)"); return k(st, fresh(meth + '_result'))
            return h_purem
        return h
    # ---------- side-effect free builtins / stdlib functions without a contract: the result is an UNCONSTRAINED value and the path is marked as
    # depending on an over-approximation (core.approx): proofs stay sound, a refutation that needs the unknown value is reported as undecided.
    # int()/float() of a value that already is an int is the value itself. Functions that can raise get an exception edge of their documented class.
    PURE = {'divmod': 'ZeroDivisionError', 'abs': None, 'min': None, 'max': None, 'round': None, 'sum': None, 'sorted': None, 'repr': None, 'hash': None, 'id': None, 'bool': None,
            'tuple': None, 'frozenset': None, 'type': None, 'callable': None, 'hasattr': None, 'math.isnan': None, 'math.isinf': None, 'math.isfinite': None, 'math.ceil': None,
            'math.floor': None, 'isinstance': None, 'issubclass': None, 'int': 'ValueError', 'float': 'ValueError', 'str': None, 'time.time': None, 'time.monotonic': None,
            'time.perf_counter': None, 'perf_counter': None, 'monotonic': None, 'os.getpid': None, 'getattr': 'AttributeError', 'len': None, 'any': None, 'all': None,
            'enumerate': None, 'zip': None, 'reversed': None, 'iter': None, 'range': None, 'list': None, 'dict': None, 'set': None, 'Counter': None, 'collections.Counter': None,
            'defaultdict': None, 'collections.defaultdict': None, 'OrderedDict': None, 'collections.OrderedDict': None, 'deque': None, 'collections.deque': None}
    def pure_fallback(self, name):
        if name not in self.PURE or getattr(self, 'no_pure_fallback', False): return None
        exc_cls = self.PURE[name]
        def h(ex, st, e, recv, args, kw, k, K):
            if name in ('int', 'float') and len(args) == 1 and not kw and isinstance(args[0], PyInt): return k(st, args[0])
            if name in ('int', 'float') and len(args) == 1 and not kw and isinstance(args[0], int) and not isinstance(args[0], bool): return k(st, args[0])
            # abs / min / max over operands that are all ints or all timedeltas: exact (library contract: abs(x) = x if x >= 0 else -x on int and
            # timedelta; min/max of two by <=); any other operand kind stays unmodelled
            if name == 'abs' and len(args) == 1 and not kw:
                if isinstance(args[0], (PyInt, int)) and not isinstance(args[0], bool):
                    a = ex.as_int(args[0]); return k(st, PyInt(If(a < 0, -a, a)))
                if is_expr(args[0]) and args[0].sort() == Val:
                    v = args[0]
                    def exact(s1): return k(s1, If(Val.is_td(v), Val.td(If(Val.tus(v) < 0, -Val.tus(v), Val.tus(v))), Val.intv(If(Val.i(v) < 0, -Val.i(v), Val.i(v)))))
                    def unmod(s1): approx(s1, "result of abs(...) is not modelled for this operand kind (unconstrained value)"); return k(s1, fresh('abs_result'))
                    return ex.branch(st, Or(Val.is_td(v), Val.is_intv(v)), exact, unmod)
            if name in ('min', 'max') and len(args) == 2 and not kw and all((isinstance(a, (PyInt, int)) and not isinstance(a, bool)) or (is_expr(a) and a.sort() == Val) for a in args):
                if all(isinstance(a, (PyInt, int)) for a in args):
                    a, b = ex.as_int(args[0]), ex.as_int(args[1]); return k(st, PyInt(If((a <= b) if name == 'min' else (a >= b), a, b)))
                x, y = to_val(args[0]), to_val(args[1])
                def exact2(s1):
                    kx = If(Val.is_td(x), Val.tus(x), Val.i(x)); ky = If(Val.is_td(y), Val.tus(y), Val.i(y))
                    return k(s1, If((kx <= ky) if name == 'min' else (kx >= ky), x, y))
                def unmod2(s1): approx(s1, f"result of {name}(...) is not modelled for these operand kinds (unconstrained value)"); return k(s1, fresh(name + '_result'))
                return ex.branch(st, Or(And(Val.is_td(x), Val.is_td(y)), And(Val.is_intv(x), Val.is_intv(y))), exact2, unmod2)
            approx(st, f"result of {name}(...) is not modelled (unconstrained value)")
            if exc_cls:
                f = st.fork(); K['exc'](f, new_exc(f, exc_cls))
            r = fresh(name.replace('.', '_') + '_result')
            if name == 'divmod': return k(st, PyTuple([fresh('divmod_q'), fresh('divmod_r')]))
            return k(st, PyBool(fresh(name.replace('.', '_') + '_result', BoolSort())) if name in ('isinstance', 'issubclass', 'callable', 'hasattr', 'bool', 'any', 'all', 'math.isnan', 'math.isinf', 'math.isfinite') else r)
        return h
    # ---------- calls into /repo that have no contract are INLINED (DESIGN 2.3): `self._helper(...)` of the same class and module-level functions of
    # the same file are executed at the call site with their REAL body (depth <= 3, no recursion), so extracting a helper is a harmless refactor
    inline_scope = None          # (Source, rel path, class name or None), set by the unit
    def inline_handler(self, name):
        if not self.inline_scope: return None
        src, rel, cls = self.inline_scope
        qual = None
        if name.startswith('self.') and name.count('.') == 1 and cls: qual = f"{cls}.{name[5:]}"
        elif '.' not in name: qual = name
        if qual is None: return None
        try: fdef = src.func(rel, qual)
        except Unsupported:
            fdef = None
            if '.' not in name:          # a helper imported from another module of the repository: `from taskiq.labels import prepare_labels`
                for n_ in src.tree(rel).body:
                    if isinstance(n_, ast.ImportFrom) and n_.module and n_.module.startswith('taskiq') and any((a_.asname or a_.name) == name for a_ in n_.names):
                        orig = next(a_.name for a_ in n_.names if (a_.asname or a_.name) == name)
                        for rel2 in (n_.module.replace('.', '/') + '.py', n_.module.replace('.', '/') + '/__init__.py'):
                            try: fdef = src.func(rel2, orig); break
                            except Exception: continue
            if fdef is None: return None
        if isinstance(fdef, ast.ClassDef): return None
        if any(ast.unparse(d).split('(')[0].split('.')[-1] not in ('staticmethod', 'wraps') for d in fdef.decorator_list): return None          # a decorated function (lru_cache, contextmanager, ...) is NOT its body
        ex_self = self
        def h(ex, st, e, recv, args, kw, k, K):
            a = fdef.args
            if a.vararg or a.kwarg or a.posonlyargs: raise Unsupported(f"inlining of {qual}: *args/**kwargs/positional-only parameters")
            params = [x.arg for x in a.args]; env = {}
            if name.startswith('self.'):
                if not params: raise Unsupported(f"inlining of {qual}: no self parameter")
                env[params[0]] = st.env.get('self'); params = params[1:]
            if len(args) > len(params): raise Unsupported(f"inlining of {qual}: too many positional arguments")
            for p_, v in zip(params, args): env[p_] = v
            for kx, v in kw.items():
                if kx in ('**', '*'): raise Unsupported(f"inlining of {qual}: star arguments")
                env[kx] = v
            defaults = dict(zip([x.arg for x in a.args][-len(a.defaults):], a.defaults)) if a.defaults else {}
            for x, dflt in zip(a.kwonlyargs, a.kw_defaults):
                if dflt is not None: defaults[x.arg] = dflt
            for p_ in params + [x.arg for x in a.kwonlyargs]:
                if p_ not in env:
                    if p_ not in defaults or not isinstance(defaults[p_], ast.Constant): raise Unsupported(f"inlining of {qual}: no value for parameter {p_}")
                    env[p_] = defaults[p_].value
            def run_body(s0, k2, K2):
                saved = s0.env; stack = saved.get('__inline_stack', ())
                if qual in stack or len(stack) >= 3: raise Unsupported(f"inlining of {qual}: recursion or nesting deeper than 3")
                s0.env = dict(env); s0.env['__inline_stack'] = stack + (qual,)
                def back(s2, v): s2.env = saved; return k2(s2, v)
                def exc(s2, x): s2.env = saved; return K2['exc'](s2, x)
                return ex_self.block(fdef.body, s0, lambda s2: back(s2, None), {'ret': back, 'exc': exc})
            if isinstance(fdef, ast.AsyncFunctionDef): return k(st, Tok(run_body, kind='inlined:' + qual))          # token rule: the body runs at the await
            return run_body(st, k, K)
        return h
    # ---------- statements
    def block(self, stmts, st, k, K):
        if not stmts: return k(st)
        return self.stmt(stmts[0], st, lambda st2: self.block(stmts[1:], st2, k, K), K)
    def stmt(self, s, st, k, K):
        m = getattr(self, 'st_' + type(s).__name__, None)
        if m is None: raise Unsupported("statement " + type(s).__name__ + ": " + ast.unparse(s)[:80])
        return m(s, st, k, K)
    def st_With(self, s, st, k, K):
        # `with <lock>:` only (a mutual-exclusion context manager never swallows exceptions and binds nothing): the body is executed as it stands
        if len(s.items) == 1 and s.items[0].optional_vars is None and re.search(r"(?i)lock|mutex", ast.unparse(s.items[0].context_expr)): return self.block(s.body, st, k, K)
        raise Unsupported("statement With: " + ast.unparse(s)[:80])
    def st_Expr(self, s, st, k, K):
        if isinstance(s.value, ast.Constant): return k(st)
        return self.ev(s.value, st, lambda st2, v: k(st2), K)
    def st_Pass(self, s, st, k, K): return k(st)
    def st_Delete(self, s, st, k, K):
        # `del d[key]`: on a modelled dict the key is removed (KeyError edge when absent); on a bookkeeping container local to the function: tainted no-op
        if len(s.targets) != 1 or not isinstance(s.targets[0], ast.Subscript): raise Unsupported("statement Delete: " + ast.unparse(s)[:80])
        tgt = s.targets[0]
        def got(st2, vs):
            base, idx = vs
            if isinstance(base, PyDict):
                kx = to_val(idx)
                def present(s3):
                    s3.heap = s3.heap.copy(); s3.heap.dhas = Store(s3.heap.dhas, base.addr, Store(s3.heap.dhas[base.addr], kx, False)); return k(s3)
                def absent(s3): return K['exc'](s3, new_exc(s3, 'KeyError'))
                return self.branch(st2, st2.heap.dhas[base.addr][kx], present, absent)
            if is_expr(base) and base.sort() == Val and is_const(base) and base.decl().name().startswith('localcontainer_'):
                approx(st2, "del " + ast.unparse(tgt) + ": bookkeeping container local to the function, contents not modelled"); return k(st2)
            raise Unsupported("statement Delete: " + ast.unparse(s)[:80])
        return self.ev_list([tgt.value, tgt.slice], st, got, K)
    def assign(self, tgt, v, st, k, K):
        if isinstance(tgt, ast.Name):
            st.env = dict(st.env); st.env[tgt.id] = v; return k(st)
        if isinstance(tgt, ast.Tuple):
            if not isinstance(v, PyTuple) or len(v.items) != len(tgt.elts): raise Unsupported("tuple unpacking of a non-tuple: " + ast.unparse(tgt))
            def go(i, st2):
                if i == len(tgt.elts): return k(st2)
                return self.assign(tgt.elts[i], v.items[i], st2, lambda s3: go(i + 1, s3), K)
            return go(0, st)
        if isinstance(tgt, ast.Subscript):
            def got(st2, vs):
                base, idx = vs; st2.heap = st2.heap.copy(); h = st2.heap
                if isinstance(base, PyList):
                    i = self.as_int(idx); oblige(st2, f"store-in-range@{ast.unparse(tgt)}", And(i >= 0, i < h.llen[base.addr]))
                    h.litem = Store(h.litem, base.addr, Store(h.litem[base.addr], i, to_val(v)))
                elif isinstance(base, PyDict):
                    kx = to_val(idx)
                    h.dval = Store(h.dval, base.addr, Store(h.dval[base.addr], kx, to_val(v)))
                    h.dhas = Store(h.dhas, base.addr, Store(h.dhas[base.addr], kx, True))
                elif is_expr(base) and base.sort() == Val and not isinstance(idx, (PyTuple, PyCallable)):
                    # bookkeeping object without a contract (a counter dict, a cache): the store goes to the dict view of its address; nothing says that address
                    # differs from the collections the contracts talk about: the store is assumed not to alias them (frame), and the path is marked as approximation
                    approx(st2, "store through " + ast.unparse(tgt) + ": an object without a contract, assumed not to alias any collection the contracts talk about (no effect on the modelled heap)")
                elif isinstance(base, PyCallable) and '.' not in base.name and not base.name[:1].islower():
                    # store into a module-level container without a contract (an ALL-CAPS cache): reads from it are unconstrained anyway; no effect on the modelled heap
                    approx(st2, "store into the module-level container " + base.name + " (no contract; assumed not to alias any collection the contracts talk about)")
                else: raise Unsupported("store through subscript on " + repr(base))
                return k(st2)
            return self.ev_list([tgt.value, tgt.slice], st, got, K)
        if isinstance(tgt, ast.Attribute):
            def got(st2, base):
                st2.heap = st2.heap.copy(); addr = base.addr if isinstance(base, PyObj) else Val.a(to_val(base))
                st2.heap.fld[tgt.attr] = Store(st2.heap.field(tgt.attr), addr, to_val(v)); return k(st2)
            return self.ev(tgt.value, st, got, K)
        raise Unsupported("assignment target " + ast.unparse(tgt))
    def st_Assign(self, s, st, k, K):
        def got(st2, v):          # a = b = value: the value is evaluated once and bound to every target, left to right
            def go(i, s3):
                if i == len(s.targets): return k(s3)
                return self.assign(s.targets[i], v, s3, lambda s4: go(i + 1, s4), K)
            return go(0, st2)
        return self.ev(s.value, st, got, K)
    def st_AnnAssign(self, s, st, k, K):
        if s.value is None: return k(st)
        return self.ev(s.value, st, lambda st2, v: self.assign(s.target, v, st2, k, K), K)
    def st_AugAssign(self, s, st, k, K):
        return self.ev(ast.BinOp(s.target, s.op, s.value), st, lambda st2, v: self.assign(s.target, v, st2, k, K), K)
    def _st_If_raw(self, s, st, k, K):
        return self.ev(s.test, st, lambda st2, v: self.branch(st2, truthy(v, st2), lambda a: self.block(s.body, a, k, K), lambda b: self.block(s.orelse, b, k, K)), K)
    def st_Return(self, s, st, k, K):
        if s.value is None: return K['ret'](st, None)
        return self.ev(s.value, st, K['ret'], K)
    def st_Continue(self, s, st, k, K): return K['cont'](st)
    def st_Break(self, s, st, k, K): return K['brk'](st)
    def st_Raise(self, s, st, k, K):
        if s.exc is None: return K['exc'](st, st.env['__caught'])
        def got(st2, v):
            if s.cause is not None:
                def with_cause(st3, c):
                    st3.heap = st3.heap.copy(); st3.heap.fld['__cause__'] = Store(st3.heap.field('__cause__'), Val.a(to_val(v)), to_val(c))
                    return K['exc'](st3, to_val(v))
                return self.ev(s.cause, st2, with_cause, K)
            return K['exc'](st2, to_val(v))
        return self.ev(s.exc, st, got, K)
    def handler_matches(self, st, cid, h):
        if h.type is None: return BoolVal(True)
        names = [ast.unparse(x) for x in (h.type.elts if isinstance(h.type, ast.Tuple) else [h.type])]
        for n in names:
            if n.split('.')[-1] not in CLS.ids: raise Unsupported("except clause names an unregistered class: " + n)
        return Or(*[CLS.sub_expr(cid, n.split('.')[-1]) for n in names])
    def _st_Try_raw(self, s, st, k, K):
        def handler(st2, exc):
            cid = st2.heap.cls_of[Val.a(exc)]
            def try_h(i, st3):
                if i == len(s.handlers): return K['exc'](st3, exc)
                h = s.handlers[i]
                cond = self.handler_matches(st3, cid, h)
                def take(st4):
                    st4.env = dict(st4.env); st4.env['__caught'] = exc
                    if h.name: st4.env[h.name] = exc
                    return self.block(h.body, st4, k, K)
                return self.branch(st3, cond, take, lambda st4: try_h(i + 1, st4))
            return try_h(0, st2)
        if s.orelse and not s.finalbody:
            K2 = dict(K); K2['exc'] = handler
            return self.block(s.body, st, lambda st2: self.block(s.orelse, st2, k, K), K2)
        if s.orelse: raise Unsupported("try/else/finally")
        if s.finalbody:
            fin = s.finalbody
            k_f = lambda st2: self.block(fin, st2, k, K)
            K_out = dict(K)
            K_out['exc'] = lambda st2, x: self.block(fin, st2, lambda s3: K['exc'](s3, x), K)
            if 'ret' in K: K_out['ret'] = lambda st2, v: self.block(fin, st2, lambda s3: K['ret'](s3, v), K)
            for nm in ('brk', 'cont'):
                if nm in K: K_out[nm] = (lambda f: (lambda st2: self.block(fin, st2, f, K)))(K[nm])
            inner = ast.Try(body=s.body, handlers=s.handlers, orelse=[], finalbody=[])
            if not s.handlers: return self.block(s.body, st, k_f, K_out)
            return self._st_Try_raw(inner, st, k_f, K_out)
        K2 = dict(K); K2['exc'] = handler
        return self.block(s.body, st, k, K2)

    # ---------- path merging (opt-in per unit: self.merge = True). The normal continuation of an `if` / `try` statement is entered
    # once with the join of all states that reach it (values become ite-terms over the branch conditions); exceptional/return/break
    # continuations are never merged. If some value cannot be merged the states continue separately (always sound).
    merge = False
    def st_If(self, s, st, k, K):
        if not self.merge: return self._st_If_raw(s, st, k, K)
        out = []; self._st_If_raw(s, st, out.append, K)
        for m in merge_states(out): k(m)
    def st_Try(self, s, st, k, K):
        if not self.merge: return self._st_Try_raw(s, st, k, K)
        out = []; self._st_Try_raw(s, st, out.append, K)
        for m in merge_states(out): k(m)
    def st_For(self, s, st, k, K):
        h = self.handlers.get('@for')
        if h is None: raise Unsupported("for loop without an invariant: " + ast.unparse(s.iter))
        return h(self, s, st, k, K)
    def st_While(self, s, st, k, K):
        h = self.handlers.get('@while')
        if h is None: raise Unsupported("while loop without an invariant: " + ast.unparse(s.test))
        return h(self, s, st, k, K)
    def call_inline(self, fdef, argvals, st, k, K, kwvals=None):
        """execute the REAL body of a repo helper at the call site (DESIGN 2.3: calls into /repo without a contract are inlined)"""
        params = [a.arg for a in fdef.args.args]
        saved = st.env; env = {}
        defaults = fdef.args.defaults; ndef = len(defaults)
        for i, p in enumerate(params):
            if i < len(argvals): env[p] = argvals[i]
            elif kwvals and p in kwvals: env[p] = kwvals[p]
            elif i >= len(params) - ndef: env[p] = ast.literal_eval(defaults[i - (len(params) - ndef)])
            else: raise Unsupported(f"inline call of {fdef.name}: missing argument {p}")
        st.env = env
        def back(s2, v): s2.env = saved; return k(s2, v)
        K2 = {'ret': back, 'exc': lambda s2, x: (setattr(s2, 'env', saved), K['exc'](s2, x))[1]}
        return self.block(fdef.body, st, lambda s2: back(s2, None), K2)
    TRANSPARENT_DECORATORS = {'staticmethod', 'classmethod', 'abstractmethod', 'overload', 'wraps', 'validate_call', 'validator', 'root_validator',
                              'model_validator', 'field_validator', 'field_serializer', 'property'}
    def run(self, fdef, st, on_ret, on_exc):
        # a function under a decorator that replaces it (lru_cache, cache, contextmanager, ...) is NOT its body: calls go to the wrapper,
        # which may answer without running the body at all. The contract on the body then says nothing about the call -> undecided.
        for d in getattr(fdef, 'decorator_list', []):
            nm = ast.unparse(d).split('(')[0].split('.')[-1]
            if nm not in self.TRANSPARENT_DECORATORS and nm not in getattr(self, 'allowed_decorators', ()):
                raise Unsupported(f"{fdef.name} is wrapped by @{ast.unparse(d)}: calls reach the wrapper, not the verified body")
        K = {'ret': on_ret, 'exc': on_exc}
        return self.block(fdef.body, st, lambda st2: on_ret(st2, None), K)



def _h_list_append(ex, st, e, l, args, kw, k, K):
    st.heap = st.heap.copy(); hh = st.heap; m = hh.llen[l.addr]
    hh.litem = Store(hh.litem, l.addr, Store(hh.litem[l.addr], m, to_val(args[0]))); hh.llen = Store(hh.llen, l.addr, m + 1); return k(st, None)
def _h_dict_get(ex, st, e, d, args, kw, k, K):
    kx = to_val(args[0]); return k(st, If(st.heap.dhas[d.addr][kx], st.heap.dval[d.addr][kx], to_val(args[1]) if len(args) > 1 else Val.none))
def _h_dict_setdefault(ex, st, e, d, args, kw, k, K):
    kx = to_val(args[0]); dv = to_val(args[1]) if len(args) > 1 else Val.none; st.heap = st.heap.copy(); h = st.heap
    r = If(h.dhas[d.addr][kx], h.dval[d.addr][kx], dv)
    h.dval = Store(h.dval, d.addr, Store(h.dval[d.addr], kx, r)); h.dhas = Store(h.dhas, d.addr, Store(h.dhas[d.addr], kx, True)); return k(st, r)
_DICT_METHODS = {'get': _h_dict_get, 'setdefault': _h_dict_setdefault}
def _h_setattr(ex, st, e, recv, args, kw, k, K):
    """BaseException.__setattr__(obj, 'name', value) / object.__setattr__(...): the attribute store `obj.name = value` made with the base class's setter (it
    cannot be intercepted by the object's own class); routed through the executor's own assignment so that a unit's model of that store applies"""
    if len(e.args) != 3 or not (isinstance(e.args[1], ast.Constant) and isinstance(e.args[1].value, str)): raise Unsupported("__setattr__ with a computed attribute name: " + ast.unparse(e))
    tgt = ast.copy_location(ast.Attribute(value=e.args[0], attr=e.args[1].value, ctx=ast.Store()), e)
    return ex.assign(tgt, args[2], st, lambda s: k(s, None), K)
class MergeFail(Exception): pass
def _merge_vals(conds, vals):
    """ite-join of python-side values under mutually exclusive guards `conds`"""
    v0 = vals[0]
    if all(v is v0 for v in vals): return v0
    if all(is_expr(v) for v in vals) and all(v.sort() == v0.sort() for v in vals) and all(v.eq(v0) for v in vals): return v0
    def ite(zs):
        r = zs[-1]
        for c, z in zip(reversed(conds[:-1]), reversed(zs[:-1])): r = If(c, z, r)
        return r
    if all(isinstance(v, dict) for v in vals) and all(set(v) == set(v0) for v in vals):
        return {kx: _merge_vals(conds, [v[kx] for v in vals]) for kx in v0}
    for cls in (PyList, PyDict):
        if all(isinstance(v, cls) for v in vals): return cls(ite([v.addr if is_expr(v.addr) else IntVal(v.addr) for v in vals]))
    if all(isinstance(v, PyObj) for v in vals): return PyObj(ite([v.addr if is_expr(v.addr) else IntVal(v.addr) for v in vals]), v0.kind if all(v.kind == v0.kind for v in vals) else None)
    if all(isinstance(v, PyTuple) for v in vals) and all(len(v.items) == len(v0.items) for v in vals):
        return PyTuple([_merge_vals(conds, [v.items[i] for v in vals]) for i in range(len(v0.items))])
    if all(isinstance(v, PyBool) for v in vals): return PyBool(ite([v.e for v in vals]))
    if all(isinstance(v, PyInt) for v in vals): return PyInt(ite([v.e for v in vals]))
    if all(is_expr(v) and not v.sort() == Val for v in vals) and all(v.sort() == v0.sort() for v in vals): return ite(list(vals))
    if any(isinstance(v, (Tok, PyCallable, tuple, list, set)) or (isinstance(v, str) and v.startswith(('CLS:', 'TZ:'))) for v in vals): raise MergeFail()
    try: zs = [to_val(v) for v in vals]
    except Unsupported: raise MergeFail()
    if not all(z.sort() == Val for z in zs): raise MergeFail()
    return ite(zs)
def merge_states(states):
    if len(states) <= 1: return states
    try:
        n = 0; pcs = [s.pc for s in states]
        while all(len(p) > n for p in pcs) and all(p[n] is pcs[0][n] or p[n].eq(pcs[0][n]) for p in pcs): n += 1
        conds0 = [And(*p[n:]) if len(p) > n else BoolVal(True) for p in pcs]
        # The guards of the joined states need NOT be mutually exclusive (a nondeterministic fork - "user code returns or raises" - adds no
        # distinguishing literal), so an ite-chain over them would silently prefer the first state and lose the others. A fresh selector makes the
        # join exact: the merged state is in branch i iff sel == i, and then branch i's own path condition holds.
        sel = fresh('merge_branch', IntSort())
        conds = [sel == i for i in range(len(states))]
        m = State(); m.kinds = states[0].kinds
        m.pc = list(pcs[0][:n]) + [Or(*[And(c, c0) for c, c0 in zip(conds, conds0)])]
        seen = set(); m.facts = []
        for s in states:
            for f in s.facts:
                if f.get_id() not in seen: seen.add(f.get_id()); m.facts.append(f)
        keys = set().union(*[set(s.env) for s in states])
        m.env = {}
        for kx in keys:
            if not all(kx in s.env for s in states): continue        # defined on some branches only: dropped (a later use is Unsupported, not unsound)
            m.env[kx] = _merge_vals(conds, [s.env[kx] for s in states])
        gk = set().union(*[set(s.ghost) for s in states])
        if not all(set(s.ghost) | {'__approx', '__exc_objs'} == gk | {'__approx', '__exc_objs'} for s in states): raise MergeFail()
        m.ghost = {kx: _merge_vals(conds, [s.ghost[kx] for s in states]) for kx in gk if kx not in ('__approx', '__exc_objs')}
        if '__exc_objs' in gk: m.ghost['__exc_objs'] = _merge_vals(conds, [exc_objs(s) for s in states])
        ap = tuple(sorted({r_ for s in states for r_ in s.ghost.get('__approx', ())}))
        if ap: m.ghost['__approx'] = ap
        h = states[0].heap.copy()
        for attr in ('llen', 'litem', 'dhas', 'dval', 'cls_of', 'next'):
            setattr(h, attr, _merge_vals(conds, [getattr(s.heap, attr) for s in states]))
        fk = set().union(*[set(s.heap.fld) for s in states])
        h.fld = {fx: _merge_vals(conds, [s.heap.field(fx) for s in states]) for fx in fk}
        m.heap = h
        return [m]
    except MergeFail:
        return states

def alloc(st):
    st.heap = st.heap.copy(); a = st.heap.next; st.heap.next = a + 1; return a
def new_exc(st, clsname):
    st.heap = st.heap.copy(); a = st.heap.next; st.heap.next = a + 1
    st.pc.append(st.heap.cls_of[a] == CLS.id(clsname)); return Val.ref(a)
def raise_any(st, base):
    """freshly allocated exception object of some (unknown, registered) subclass of `base`"""
    st.heap = st.heap.copy(); a = st.heap.next; st.heap.next = a + 1
    st.pc.append(CLS.sub_expr(st.heap.cls_of[a], base)); mark_exception(st, Val.ref(a)); return Val.ref(a)
def noop(ex, st, e, recv, args, kw, k, K):
    # used for logger.* calls: a logging call does not raise (handler errors are swallowed by logging itself) - EXCEPT that Logger.makeRecord raises KeyError
    # when `extra` holds a key named like a LogRecord attribute ("module", "name", "args", "message", ...). A computed `extra` is therefore not a no-op.
    if isinstance(e, ast.Call) and any(k_.arg == 'extra' and not (isinstance(k_.value, ast.Dict) and all(isinstance(x, ast.Constant) and isinstance(x.value, str) and x.value not in _LOGRECORD_ATTRS for x in k_.value.keys)) for k_ in e.keywords):
        raise Unsupported("logging call with a computed `extra=`: Logger.makeRecord raises KeyError for keys that collide with LogRecord attributes: " + ast.unparse(e)[:80])
    return k(st, None)
_LOGRECORD_ATTRS = {'name', 'msg', 'args', 'levelname', 'levelno', 'pathname', 'filename', 'module', 'exc_info', 'exc_text', 'stack_info', 'lineno', 'funcName', 'created', 'msecs',
                    'relativeCreated', 'thread', 'threadName', 'processName', 'process', 'message', 'asctime', 'taskName'}
def opaque(name):
    def h(ex, st, e, recv, args, kw, k, K): return k(st, fresh(name))
    return h


# ------------------------------------------------------------------ source access (the verified text is the code that runs)
class Source:
    """reads the real sources from REPO on every run; records hashes of the functions put under contract."""
    def __init__(self, edits=None):
        self.functions = []; self.edits = edits or []; self.applied = set()
        self._cache = {}
    def text(self, rel):
        if rel not in self._cache:
            t = open(os.path.join(REPO, rel)).read()
            for i, (a, b) in enumerate(self.edits):
                if a in t: t = t.replace(a, b); self.applied.add(i)
            self._cache[rel] = t
        return self._cache[rel]
    def tree(self, rel): return ast.parse(self.text(rel))
    def func(self, rel, qual, nested=None):
        """locate `Class.method` / `function` (and optionally a nested def inside it) in rel; never cached between runs."""
        tree = self.tree(rel); body = tree.body; node = None
        for part in qual.split('.'):
            flat = []
            def walk_top(stmts):          # definitions under module-level `if` / `try` blocks (version switches) are visible too; the first branch wins
                for n in stmts:
                    if isinstance(n, (ast.FunctionDef, ast.AsyncFunctionDef, ast.ClassDef)): flat.append(n)
                    elif isinstance(n, ast.If):          # a version switch: the names the first branch defines are taken from it (the branch in force with the installed dependencies: IS_PYDANTIC2, sys.version_info >= ...); the other branch only contributes names the first does not define
                        k0 = len(flat); walk_top(n.body); in_body = {x.name for x in flat[k0:]}
                        k1 = len(flat); walk_top(n.orelse); flat[k1:] = [x for x in flat[k1:] if x.name not in in_body]
                    elif isinstance(n, ast.Try): walk_top(n.body)
            walk_top(body)
            first = {}
            for n in flat: first.setdefault((n.name, id(n) if any(ast.unparse(d).split('.')[-1] == 'overload' for d in getattr(n, 'decorator_list', [])) else 0), []).append(n)
            cands = [n for n in flat if isinstance(n, (ast.FunctionDef, ast.AsyncFunctionDef, ast.ClassDef)) and n.name == part
                     and not any(ast.unparse(d).split('.')[-1] == 'overload' for d in getattr(n, 'decorator_list', []))]
            node = cands[-1] if cands else None          # the last (effective) definition; @overload stubs are skipped
            if node is None: raise Unsupported(f"function {qual} not found in {rel}")
            body = node.body
        if nested:
            node = next((n for n in ast.walk(node) if isinstance(n, (ast.FunctionDef, ast.AsyncFunctionDef)) and n.name == nested), None)
            if node is None: raise Unsupported(f"nested function {nested} not found in {rel}::{qual}")
        seg = ast.get_source_segment(self.text(rel), node) or ast.unparse(node)
        target = f"{rel}::{qual}" + (f".<locals>.{nested}" if nested else "")
        if not any(f['target'] == target for f in self.functions):
            self.functions.append({'target': target, 'sha256': hashlib.sha256(seg.encode()).hexdigest(), 'lines': f"{node.lineno}-{node.end_lineno}"})
        return node
    def note_paths(self, target_suffix, n):
        for f in self.functions:
            if f['target'].endswith(target_suffix): f['paths'] = n


# ------------------------------------------------------------------ discharge
def skolem(goal):
    if is_app(goal) and goal.decl().kind() == Z3_OP_IMPLIES: return Implies(goal.arg(0), skolem(goal.arg(1)))
    if is_app(goal) and goal.decl().kind() == Z3_OP_AND: return And(*[skolem(c) for c in goal.children()])
    if is_quantifier(goal) and goal.is_forall():
        vs = [Const(f"sk!{goal.var_name(i)}!{next(_cnt)}", goal.var_sort(i)) for i in range(goal.num_vars())]
        return skolem(substitute_vars(goal.body(), *reversed(vs)))
    return goal

def _run_cvc5(txt, timeout_ms):
    try:
        with tempfile.NamedTemporaryFile('w', suffix='.smt2', delete=False) as f:
            f.write("(set-logic ALL)\n" + txt); path = f.name
        try:
            out = subprocess.run(['/usr/bin/cvc5', f'--tlimit={timeout_ms}', path], capture_output=True, text=True, timeout=timeout_ms / 1000 + 5).stdout.strip().splitlines()
        finally:
            os.unlink(path)
        r = out[0] if out else 'unknown'
        return r if r in ('sat', 'unsat', 'unknown') else 'error'
    except Exception:
        return 'unknown'

def _solve_smt2(job):
    idx, full, qf, timeout, kind = job
    import z3
    t0 = time.time()
    def run(txt, to):
        sv = z3.Solver(); sv.set('timeout', to); sv.from_string(txt); return str(sv.check())
    if kind == 'mustfail':
        # vacuity guard: hypotheses must be satisfiable. quantifier-free part first; the quantified facts get a short budget
        # (sat/unknown = not shown inconsistent; only a definite unsat marks the context vacuous)
        r = run(qf, timeout)
        if r != 'unsat' and full != qf:
            r2 = run(full, 3000)
            if r2 == 'unsat': r = 'unsat'
        return idx, r, 'z3', int((time.time() - t0) * 1000)
    r = run(full, timeout); solver = 'z3'
    if r == 'unknown':
        r2 = run(qf, timeout)
        if r2 == 'unsat': r = 'unsat'; solver = 'z3(qf)'
        else:
            r3 = _run_cvc5(full, timeout)
            if r3 == 'unsat': r = 'unsat'; solver = 'cvc5'
            elif r2 == 'sat': r = 'sat(candidate)'; solver = 'z3(qf)'
            elif r3 == 'sat': r = 'sat'; solver = 'cvc5'
    if os.environ.get('PYVC_CROSS') == '1' and r == 'unsat' and not solver.startswith('cvc5'):
        rc = _run_cvc5(full, 8000)          # thorough tier: independent second solver on every proved obligation
        solver += '+cvc5:' + rc
    return idx, r, solver, int((time.time() - t0) * 1000)

def val_to_py(m, v):
    """decode a model value of sort Val into JSON-able python"""
    def ev(x): return m.eval(x, model_completion=True)
    if is_true(ev(Val.is_none(v))): return None
    if is_true(ev(Val.is_boolv(v))): return is_true(ev(Val.b(v)))
    if is_true(ev(Val.is_intv(v))): return ev(Val.i(v)).as_long()
    if is_true(ev(Val.is_strv(v))):
        i = ev(Val.s(v)).as_long(); n = STR.name_of(i); return {'str': n if n is not None else f'<str#{i}>'}
    if is_true(ev(Val.is_dt(v))): return {'dt_us': ev(Val.us(v)).as_long(), 'aware': is_true(ev(Val.aware(v))), 'tz': ev(Val.tz(v)).as_long()}
    if is_true(ev(Val.is_td(v))): return {'td_us': ev(Val.tus(v)).as_long()}
    if is_true(ev(Val.is_ref(v))): return {'ref': ev(Val.a(v)).as_long()}
    if is_true(ev(Val.is_clsv(v))): return {'cls': CLS.name_of(ev(Val.c(v)).as_long())}
    return {'other': str(ev(v))}

def _model_value(m, e):
    try:
        if e.sort() == Val: return val_to_py(m, e)
        v = m.eval(e, model_completion=True)
    except Exception:
        return None
    if is_int_value(v): return v.as_long()
    if is_true(v): return True
    if is_false(v): return False
    s = str(v)
    if s.startswith('strv('):
        try: return {'str': STR.name_of(int(s[5:-1]))}
        except Exception: pass
    return s

def discharge(timeout=10000, procs=16, verbose=False):
    """returns a list of result dicts, one per recorded obligation (identical queries are solved once)."""
    import multiprocessing as mp
    t0 = time.time(); jobs = {}; keyof = []
    for ob in OBL:
        ng = Not(skolem(ob.goal))
        s = Solver(); s.add(*ob.hyps); s.add(ng); full = s.to_smt2()
        key = hashlib.sha1((ob.kind + full).encode()).hexdigest(); keyof.append(key)
        if key in jobs: continue
        s2 = Solver(); s2.add(*[h for h in ob.hyps if not is_quantifier(h)]); s2.add(ng)
        jobs[key] = (key, full, s2.to_smt2(), timeout, ob.kind)
    t1 = time.time()
    if jobs:
        with mp.Pool(min(procs, max(1, len(jobs)))) as pool: out = pool.map(_solve_smt2, list(jobs.values()), chunksize=max(1, min(8, len(jobs) // (procs * 2) or 1)))
    else: out = []
    res = {k: (r, sv, ms) for k, r, sv, ms in out}
    results = []
    for ob, key in zip(OBL, keyof):
        r, sv, ms = res[key]
        d = {'name': ob.name, 'props': list(ob.props), 'kind': ob.kind, 'solver': sv, 'ms': ms, 'raw': r}
        if ob.kind == 'mustfail':
            d['status'] = 'reachable' if r.startswith('sat') or r == 'unknown' else 'infeasible'      # check.py: a function none of whose guards is reachable is VACUOUS
        else:
            d['status'] = {'unsat': 'proved', 'sat': 'refuted', 'sat(candidate)': 'refuted', 'unknown': 'undecided'}[r]
            if r == 'sat(candidate)': d['candidate'] = True
            if d['status'] == 'refuted' and ob.approx:
                d['status'] = 'undecided'; d['approx'] = list(ob.approx); d['note'] = 'refuted only on a path that depends on an over-approximation of code without a contract: ' + '; '.join(ob.approx)
        if ob.kind == 'mustfail' and d['status'] == 'reachable' and ob.witness and os.environ.get('PYVC_PATH_MODELS') == '1':
            s = Solver(); s.set('timeout', 5000); s.add(*[h for h in ob.hyps if not is_quantifier(h)])
            if s.check() == sat:
                m = s.model(); d['witness'] = {kx: _model_value(m, vx) for kx, vx in ob.witness.items()}
                if ob.replay: d['replay'] = ob.replay
        if d['status'] == 'refuted':
            # re-solve in process to obtain a model and evaluate the witness terms
            s = Solver(); s.set('timeout', timeout)
            s.add(*[h for h in ob.hyps if not (d.get('candidate') and is_quantifier(h))]); s.add(Not(skolem(ob.goal)))
            rr = s.check()
            if rr != sat and not d.get('candidate'):
                s = Solver(); s.set('timeout', timeout); s.add(*[h for h in ob.hyps if not is_quantifier(h)]); s.add(Not(skolem(ob.goal))); rr = s.check()
                if rr == sat: d['witness_from_quantifier_free_hypotheses'] = True
            if rr == sat:
                m = s.model(); d['witness'] = {kx: _model_value(m, vx) for kx, vx in ob.witness.items()}
                d['model_excerpt'] = str(m)[:1500]
            else:
                d['witness'] = {}; d['model_excerpt'] = '(model not reproduced in-process)'
            if ob.replay: d['replay'] = ob.replay
        results.append(d)
    if verbose:
        c = collections.Counter(d['status'] for d in results)
        print(f"obligations {len(OBL)} distinct {len(jobs)} {dict(c)} encode {t1 - t0:.1f}s solve {time.time() - t1:.1f}s", file=sys.stderr)
        for n, st_ in collections.Counter((d['name'], d['status']) for d in results if d['status'] not in ('proved', 'reachable')).items():
            print("   NOT PROVED", n, st_, file=sys.stderr)
    return results
