"""
Demo / property check for C11 (retry middleware re-sends a failing task a
bounded number of times) -- negative control K1.

K1 makes ``SimpleRetryMiddleware.on_error`` survive a failing re-send
(``SendTaskError``): the error is logged and the attempt keeps its real error
as result instead of the exception escaping from ``Receiver.run_task``.

The script exits 0 on the ORIGINAL and on the CHANGED code.

Part 1 sweeps the quantifier of C11 with a reliable broker:
  * per-attempt outcome sequences F^k S, F^k N (k = 0..7) and F forever,
  * max_retries 0..6 given as int label, as str label or as middleware default,
  * retry_on_error given as bool label, string label or middleware default,
  * both no_result_on_retry settings,
  * async tasks, async tasks that yield to the loop, and sync (thread) tasks,
  * every attempt goes through formatter.dumps -> broker -> formatter.loads ->
    parse_labels (a real encode/decode cycle).
  and compares executions, ids, arguments, user labels, every result written
  to the result backend and the finally stored result with an executable
  model of the property.

Part 2 injects send faults into the re-send (the point K1 touches) and checks
the parts of C11 that must hold on both versions: bounded number of
executions, same id / arguments / user labels, nothing re-sent for disabled
or no-result tasks, and "whatever is stored is the outcome of the last
executed attempt unless that attempt stored nothing".
"""

import asyncio
import logging
import sys
import time
from typing import Any, Dict, List, Optional, Tuple

from taskiq import InMemoryBroker, SimpleRetryMiddleware, TaskiqMiddleware
from taskiq.exceptions import NoResultError
from taskiq.message import BrokerMessage, TaskiqMessage
from taskiq.result import TaskiqResult

logging.disable(logging.CRITICAL)

TASK_ID = "fixed-task-id-0001"
ARGS = (7, "x")
KWARGS = {"flag": True, "items": [1, 2, 3]}
USER_LABELS = {"tenant": "acme", "prio": 5, "ratio": 0.5, "blob": b"\x00\x01"}


class Recorder(TaskiqMiddleware):
    """Records every decoded message that reaches execution."""

    def __init__(self) -> None:
        super().__init__()
        self.seen: List[TaskiqMessage] = []

    def pre_execute(self, message: TaskiqMessage) -> TaskiqMessage:
        self.seen.append(message.model_copy(deep=True))
        return message


class FaultyBroker(InMemoryBroker):
    """InMemoryBroker with injectable kick faults and a safe drain."""

    def __init__(self, fail_kicks: Optional[Dict[int, str]] = None) -> None:
        super().__init__(await_inplace=False)
        self.kicks = 0
        self.fail_kicks = fail_kicks or {}
        self.stores: List[Tuple[str, TaskiqResult[Any]]] = []
        self.escaped: List[BaseException] = []
        orig_set = self.result_backend.set_result

        async def recording_set(task_id: str, result: TaskiqResult[Any]) -> None:
            self.stores.append((task_id, result))
            await orig_set(task_id, result)

        self.result_backend.set_result = recording_set  # type: ignore

    async def kick(self, message: BrokerMessage) -> None:
        self.kicks += 1
        mode = self.fail_kicks.get(self.kicks)
        if mode == "lost":
            raise ConnectionError("broker is down (message lost)")
        await super().kick(message)
        if mode == "delivered":
            raise ConnectionError("broker timed out (message was delivered)")

    async def drain(self) -> None:
        while self._running_tasks:
            tasks = list(self._running_tasks)
            done = await asyncio.gather(*tasks, return_exceptions=True)
            self.escaped.extend(d for d in done if isinstance(d, BaseException))
            await asyncio.sleep(0)


def outcome(seq: str, attempt: int) -> str:
    """Outcome of the attempt (1-based); the last letter repeats forever."""
    return seq[attempt - 1] if attempt <= len(seq) else seq[-1]


def model(
    seq: str,
    enabled: bool,
    bound: int,
    no_result_on_retry: bool,
) -> Tuple[int, List[str]]:
    """Executable model of C11: (number of executions, list of stored results)."""
    stored: List[str] = []
    n = 0
    while True:
        n += 1
        out = outcome(seq, n)
        if out == "S":
            stored.append(f"ok{n}")
            return n, stored
        if out == "N":
            return n, stored
        if enabled and n < bound:
            if not no_result_on_retry:
                stored.append(f"err{n}")
            continue
        stored.append(f"err{n}")
        return n, stored


def render(result: TaskiqResult[Any]) -> str:
    if result.is_err:
        return "err" + str(result.error).split()[1]
    return str(result.return_value)


def user_labels(labels: Dict[str, Any]) -> Dict[str, Any]:
    return {k: v for k, v in labels.items() if k != "_retries"}


async def run_scenario(  # noqa: PLR0913
    seq: str,
    task_labels: Dict[str, Any],
    default_count: int,
    default_label: bool,
    no_result_on_retry: bool,
    flavour: str = "async",
    fail_kicks: Optional[Dict[int, str]] = None,
) -> Tuple[FaultyBroker, Recorder, int]:
    rec = Recorder()
    broker = FaultyBroker(fail_kicks).with_middlewares(
        rec,
        SimpleRetryMiddleware(
            default_retry_count=default_count,
            default_retry_label=default_label,
            no_result_on_retry=no_result_on_retry,
        ),
    )
    runs = 0

    def body() -> str:
        nonlocal runs
        runs += 1
        out = outcome(seq, runs)
        if out == "S":
            return f"ok{runs}"
        if out == "N":
            raise NoResultError
        raise ValueError(f"attempt {runs} failed")

    if flavour == "sync":

        @broker.task(task_name="demo_task", **task_labels)
        def demo_task(a: int, b: str, flag: bool, items: List[int]) -> str:
            return body()

    else:

        @broker.task(task_name="demo_task", **task_labels)
        async def demo_task(  # type: ignore
            a: int,
            b: str,
            flag: bool,
            items: List[int],
        ) -> str:
            if flavour == "yield":
                for _ in range(3):
                    await asyncio.sleep(0)
            return body()

    await demo_task.kicker().with_task_id(TASK_ID).kiq(*ARGS, **KWARGS)
    await broker.drain()
    broker.executor.shutdown(wait=True)
    return broker, rec, runs


def check_identity(rec: Recorder, first_labels: Dict[str, Any]) -> List[str]:
    errs = []
    for i, msg in enumerate(rec.seen, 1):
        if msg.task_id != TASK_ID:
            errs.append(f"attempt {i}: task id {msg.task_id!r}")
        if tuple(msg.args) != ARGS or msg.kwargs != KWARGS:
            errs.append(f"attempt {i}: args {msg.args!r} kwargs {msg.kwargs!r}")
        if user_labels(msg.labels) != first_labels:
            errs.append(f"attempt {i}: labels {msg.labels!r} != {first_labels!r}")
        if i > 1 and int(msg.labels.get("_retries", -1)) != i - 1:
            errs.append(f"attempt {i}: _retries={msg.labels.get('_retries')!r}")
    return errs


RETRY_VARIANTS: List[Tuple[str, Dict[str, Any], bool, bool]] = [
    # description, labels, middleware default_retry_label, expected enabled
    ("bool label True", {"retry_on_error": True}, False, True),
    ("bool label False", {"retry_on_error": False}, True, False),
    ("str label 'true'", {"retry_on_error": "true"}, False, True),
    ("str label 'True'", {"retry_on_error": "True"}, False, True),
    ("str label 'TRUE'", {"retry_on_error": "TRUE"}, False, True),
    ("str label 'false'", {"retry_on_error": "false"}, True, False),
    ("str label 'False'", {"retry_on_error": "False"}, True, False),
    ("default True", {}, True, True),
    ("default False", {}, False, False),
]

SEQUENCES = (
    ["F" * k + "S" for k in range(8)] + ["F" * k + "N" for k in range(8)] + ["F"]
)


async def part1() -> int:
    bad = 0
    total = 0
    for flavour in ("async", "yield", "sync"):
        seqs = SEQUENCES if flavour == "async" else ["S", "FFS", "FN", "F", "FFFFFFFS"]
        for seq in seqs:
            for bound in range(7):
                for how in ("int label", "str label", "default"):
                    if how == "int label":
                        mr_labels: Dict[str, Any] = {"max_retries": bound}
                        default_count = 4 if bound != 4 else 2
                    elif how == "str label":
                        mr_labels = {"max_retries": str(bound)}
                        default_count = 4 if bound != 4 else 2
                    else:
                        mr_labels = {}
                        default_count = bound
                    for desc, r_labels, default_label, enabled in RETRY_VARIANTS:
                        for nror in (True, False):
                            labels = {**USER_LABELS, **mr_labels, **r_labels}
                            broker, rec, runs = await run_scenario(
                                seq,
                                labels,
                                default_count,
                                default_label,
                                nror,
                                flavour,
                            )
                            total += 1
                            exp_runs, exp_stored = model(seq, enabled, bound, nror)
                            errs = check_identity(rec, labels)
                            if broker.escaped:
                                errs.append(f"escaped exceptions {broker.escaped!r}")
                            if runs != exp_runs or len(rec.seen) != exp_runs:
                                errs.append(
                                    f"executions={runs} (received {len(rec.seen)}) "
                                    f"expected={exp_runs}",
                                )
                            if runs > max(1, bound):
                                errs.append(f"more than max(1,{bound}) executions")
                            got_stored = [render(r) for _, r in broker.stores]
                            if got_stored != exp_stored:
                                errs.append(
                                    f"stored {got_stored!r} expected {exp_stored!r}",
                                )
                            if any(tid != TASK_ID for tid, _ in broker.stores):
                                errs.append("result stored under another task id")
                            final = broker.result_backend.results.get(TASK_ID)
                            final_r = render(final) if final is not None else None
                            exp_final = exp_stored[-1] if exp_stored else None
                            if final_r != exp_final:
                                errs.append(f"final {final_r!r} expected {exp_final!r}")
                            if errs:
                                bad += 1
                                print(
                                    f"VIOLATION [{flavour}] seq={seq} max_retries="
                                    f"{bound} via {how}, retry {desc}, "
                                    f"no_result_on_retry={nror}: " + "; ".join(errs),
                                )
    print(f"part 1: {total} scenarios, {bad} violations")
    return bad


async def part2() -> int:
    """Send faults on the re-send: checks valid for both versions."""
    bad = 0
    total = 0
    escaped_total = 0  # informational only: differs between the two versions
    kept_total = 0
    for seq in ("F", "FFS", "FFFN", "FS"):
        for bound in (0, 1, 2, 3, 5):
            for enabled in (True, False):
                for nror in (True, False):
                    for fail_at in (2, 3):
                        for mode in ("lost", "delivered"):
                            labels = {
                                **USER_LABELS,
                                "max_retries": bound,
                                "retry_on_error": enabled,
                            }
                            broker, rec, runs = await run_scenario(
                                seq,
                                labels,
                                3,
                                False,
                                nror,
                                "async",
                                {fail_at: mode},
                            )
                            total += 1
                            ref_runs, _ = model(seq, enabled, bound, nror)
                            errs = check_identity(rec, labels)
                            if runs > max(1, bound) or runs > ref_runs:
                                errs.append(
                                    f"executions={runs} bound={bound} "
                                    f"fault-free={ref_runs}",
                                )
                            if not enabled and (runs != 1 or broker.kicks != 1):
                                errs.append("disabled task was re-sent")
                            if mode == "delivered" and runs != ref_runs:
                                errs.append(
                                    f"delivered re-send: executions={runs} "
                                    f"expected {ref_runs}",
                                )
                            if mode == "lost" and broker.kicks >= fail_at:
                                # kick number fail_at is the re-send after
                                # attempt fail_at-1 and it was lost.
                                if runs != fail_at - 1:
                                    errs.append(
                                        f"lost re-send: executions={runs} "
                                        f"expected {fail_at - 1}",
                                    )
                            # whatever is stored belongs to an executed attempt,
                            # stores are in attempt order, and the finally
                            # stored result is the last one written.
                            got = [render(r) for _, r in broker.stores]
                            nums = [int(g[2:] if g.startswith("ok") else g[3:]) for g in got]
                            if nums != sorted(set(nums)) or any(n > runs for n in nums):
                                errs.append(f"stored results {got!r} for {runs} runs")
                            final = broker.result_backend.results.get(TASK_ID)
                            final_r = render(final) if final is not None else None
                            if final_r != (got[-1] if got else None):
                                errs.append(f"final {final_r!r} stores {got!r}")
                            last = outcome(seq, runs)
                            if last == "S" and final_r != f"ok{runs}":
                                errs.append(f"final {final_r!r} but last run succeeded")
                            allowed = {None, f"err{runs}"}
                            if not nror:
                                allowed.add(f"err{runs - 1}")
                            if last == "F" and final_r not in allowed:
                                errs.append(f"final {final_r!r} after failing run {runs}")
                            # escaping exceptions are allowed only at the
                            # faulty re-send (original behaviour).
                            if len(broker.escaped) > 1:
                                errs.append(f"escaped {broker.escaped!r}")
                            escaped_total += len(broker.escaped)
                            if (
                                mode == "lost"
                                and broker.kicks >= fail_at
                                and final_r == f"err{runs}"
                            ):
                                kept_total += 1
                            if errs:
                                bad += 1
                                print(
                                    f"VIOLATION [fault {mode}@kick{fail_at}] seq={seq} "
                                    f"max_retries={bound} enabled={enabled} "
                                    f"no_result_on_retry={nror}: " + "; ".join(errs),
                                )
    print(f"part 2: {total} fault scenarios, {bad} violations")
    print(
        f"  (info, not checked: {escaped_total} exceptions escaped from the "
        f"receiver callback, {kept_total} lost re-sends left the attempt's real "
        f"error as stored result)",
    )
    return bad


async def main() -> int:
    started = time.monotonic()
    bad = await part1()
    bad += await part2()
    print(f"elapsed {time.monotonic() - started:.1f}s")
    if bad:
        print("FAIL: property C11 violated")
        return 1
    print("OK: property C11 holds on all scenarios")
    return 0


if __name__ == "__main__":
    sys.exit(asyncio.run(main()))
