"""
Demo / check of property C13 (a cron schedule is due exactly in the minutes its
expression matches the wall clock shifted by the schedule's offset).

Run as:
    cd /tmp/wt/C13 && PYTHONPATH=/tmp/wt/C13 /venv/bin/python <path>/demo.py

The script is independent of the implementation details of
taskiq.cli.scheduler.run: it only controls the clock the module reads
(`datetime.now(...)`), and compares the scheduler's decision with an
independent oracle:
  * the shifted wall clock is computed with `zoneinfo` / plain timedelta
    arithmetic (NOT with pytz, which the implementation uses);
  * the five-field expression is matched by a small matcher written here
    (cross-checked against pycron so that the demo itself is trustworthy).

Exit code 0: property holds in all scenarios. 1: property violated. 2: demo broken.
"""
import asyncio
import logging
import random
import sys
import time as _time
from datetime import datetime, timedelta, timezone
from typing import Any, List, Optional, Tuple, Union
from zoneinfo import ZoneInfo

import pycron

import taskiq.cli.scheduler.run as run
from taskiq import InMemoryBroker
from taskiq.abc.schedule_source import ScheduleSource
from taskiq.scheduler.scheduled_task import ScheduledTask
from taskiq.scheduler.scheduler import TaskiqScheduler

logging.disable(logging.CRITICAL)
T0 = _time.time()
RNG = random.Random(13)
FAILURES: List[str] = []
CHECKS = 0
DUE = 0  # how many of the checks expected "due" (shows the checks are not vacuous)

Offset = Optional[Union[str, timedelta]]


# --------------------------------------------------------------------------- clock
class Clock:
    utc = datetime(2024, 1, 1)  # naive UTC instant
    host_offset = timedelta(0)  # simulated UTC offset of the host's local time zone
    reads = 0


class FakeDT(datetime):
    """datetime replacement whose now() returns the controlled instant."""

    @classmethod
    def now(cls, tz: Any = None) -> datetime:  # type: ignore[override]
        Clock.reads += 1
        if tz is None:  # naive local time of the (simulated) host
            return Clock.utc + Clock.host_offset
        return Clock.utc.replace(tzinfo=timezone.utc).astimezone(tz)

    @classmethod
    def utcnow(cls) -> datetime:  # type: ignore[override]
        return Clock.utc


run.datetime = FakeDT  # type: ignore[attr-defined]


# --------------------------------------------------------------------------- oracle
def field_matches(expr: str, target: int, min_value: int) -> bool:
    for item in expr.split(","):
        if item == "*":
            return True
        if item.startswith("*/"):
            if (target - min_value) % int(item[2:]) == 0:
                return True
            continue
        step = 1
        if "/" in item:
            item, step_s = item.split("/")
            step = int(step_s)
        if "-" in item:
            lo, hi = (int(x) for x in item.split("-"))
            if lo <= target <= hi and (target - lo) % step == 0:
                return True
        elif int(item) == target:
            return True
    return False


def cron_matches(expr: str, wall: datetime) -> bool:
    minute, hour, dom, month, dow = expr.split(" ")
    weekday = wall.isoweekday() % 7  # sunday = 0
    dom_ok = field_matches(dom, wall.day, 1)
    dow_ok = field_matches(dow, weekday, 0)
    # same day rule as classic cron: if both day fields are restricted, either may match
    day_ok = (dom_ok or dow_ok) if ("*" not in dom and "*" not in dow) else (dom_ok and dow_ok)
    return (
        field_matches(minute, wall.minute, 0)
        and field_matches(hour, wall.hour, 0)
        and field_matches(month, wall.month, 1)
        and day_ok
    )


def shifted_wall_clock(utc: datetime, offset: Offset) -> datetime:
    """Independent computation of the wall clock the schedule refers to."""
    if offset is None:
        return utc
    if isinstance(offset, timedelta):
        return utc + offset
    return utc.replace(tzinfo=timezone.utc).astimezone(ZoneInfo(offset)).replace(tzinfo=None)


def expected_due(expr: str, utc: datetime, offset: Offset) -> bool:
    return cron_matches(expr, shifted_wall_clock(utc, offset))


# --------------------------------------------------------------------------- grammar
RANGES = [(0, 59), (0, 23), (1, 31), (1, 12), (0, 6)]


def rand_item(lo: int, hi: int, hit: Optional[int], alone: bool = True) -> str:
    kind = RNG.random()
    if kind < 0.15 and alone:  # a bare star is only used as a whole field
        return "*"
    if kind < 0.3:
        return f"*/{RNG.randint(1, max(2, (hi - lo) // 2))}"
    if kind < 0.55:
        v = hit if (hit is not None and RNG.random() < 0.6) else RNG.randint(lo, hi)
        return str(v)
    a = RNG.randint(lo, hi)
    if hit is not None and RNG.random() < 0.6:
        a = RNG.randint(lo, hit)
        b = RNG.randint(hit, hi)
    else:
        b = RNG.randint(a, hi)
    if kind < 0.8:
        return f"{a}-{b}"
    return f"{a}-{b}/{RNG.randint(1, 7)}"


def rand_expr(hint: Optional[datetime] = None) -> str:
    hits: List[Optional[int]] = [None] * 5
    if hint is not None and RNG.random() < 0.7:
        hits = [hint.minute, hint.hour, hint.day, hint.month, hint.isoweekday() % 7]
    fields = []
    for (lo, hi), hit in zip(RANGES, hits):
        n = 1 if RNG.random() < 0.6 else RNG.randint(2, 3)
        fields.append(",".join(rand_item(lo, hi, hit, n == 1) for _ in range(n)))
    # keep day fields mostly open, otherwise nearly nothing is ever due
    if RNG.random() < 0.6:
        fields[2] = "*"
    if RNG.random() < 0.6:
        fields[4] = "*"
    if RNG.random() < 0.5:
        fields[3] = "*"
    return " ".join(fields)


def mk(expr: str, offset: Offset, name: str = "demo:task") -> ScheduledTask:
    return ScheduledTask(
        task_name=name,
        labels={},
        args=[],
        kwargs={},
        cron=expr,
        cron_offset=offset,
    )


def decide(task: ScheduledTask, utc: datetime) -> Any:
    """What the scheduler decides for `task` at instant `utc` (True/False/'raised ...')."""
    Clock.utc = utc
    try:
        delay = run.get_task_delay(task)
    except Exception as exc:  # noqa: BLE001
        return f"raised {type(exc).__name__}: {exc}"
    if delay is None:
        return False
    if delay == 0:
        return True
    return f"unexpected delay {delay!r}"


def check(scn: str, task: ScheduledTask, utc: datetime) -> None:
    global CHECKS, DUE
    CHECKS += 1
    want = expected_due(task.cron, utc, task.cron_offset or None)  # type: ignore[arg-type]
    DUE += want
    got = decide(task, utc)
    if got is not want and len(FAILURES) < 30:
        FAILURES.append(
            f"[{scn}] utc={utc} offset={task.cron_offset!r} cron={task.cron!r}: "
            f"expected due={want}, scheduler says {got}",
        )
    elif got is not want:
        FAILURES.append("...")


ZONES = [
    "America/New_York",
    "Europe/Berlin",
    "Australia/Lord_Howe",  # 30-minute DST shift, +10:30/+11
    "Asia/Kathmandu",  # +5:45
    "Asia/Kolkata",  # +5:30
    "Pacific/Chatham",  # +12:45/+13:45
    "America/St_Johns",  # -3:30/-2:30
    "Australia/Adelaide",  # +9:30/+10:30
    "Asia/Tokyo",
    "UTC",
]


# --------------------------------------------------------------------------- scenario 0
def scenario_oracle_selfcheck() -> None:
    """The matcher of this demo agrees with pycron on the numeric grammar."""
    for _ in range(20000):
        wall = datetime(2015, 1, 1) + timedelta(minutes=RNG.randrange(21 * 365 * 1440))
        expr = rand_expr(wall)
        if cron_matches(expr, wall) != pycron.is_now(expr, wall):
            print(f"DEMO BROKEN: oracle and pycron disagree on {expr!r} at {wall}")
            sys.exit(2)


# --------------------------------------------------------------------------- scenario 1
DST_WINDOWS: List[Tuple[Offset, datetime]] = [
    ("America/New_York", datetime(2024, 3, 10)),
    ("America/New_York", datetime(2024, 11, 3)),
    ("Europe/Berlin", datetime(2024, 3, 31)),
    ("Europe/Berlin", datetime(2024, 10, 27)),
    ("Australia/Lord_Howe", datetime(2024, 4, 7)),
    ("Australia/Lord_Howe", datetime(2024, 10, 6)),
    ("Pacific/Chatham", datetime(2024, 9, 29)),
    ("America/St_Johns", datetime(2025, 3, 9)),
    ("Asia/Kathmandu", datetime(2024, 2, 29)),
    (None, datetime(2024, 12, 31)),
    (timedelta(hours=5, minutes=45), datetime(2023, 12, 31)),
    (timedelta(hours=-26), datetime(2024, 3, 1)),
    (timedelta(hours=26), datetime(2024, 2, 28)),
    (timedelta(hours=25, minutes=59, seconds=59), datetime(2025, 1, 1)),
    (timedelta(0), datetime(2024, 6, 15)),
]

FIXED_EXPRS = [
    "30 2 * * *",
    "*/15 1-3 * * *",
    "0,30 * * * 0",
    "59 23 31 12 *",
    "0 0 1 1 *",
    "15-45/10 0-23/2 * * 1-5",
    "0 0 29 2 *",
    "*/7 */5 * * *",
]


def scenario_minute_exhaustive() -> None:
    """Every minute of 36 h around DST changes / day, month, year boundaries."""
    for offset, day in DST_WINDOWS:
        exprs = list(FIXED_EXPRS)
        mid = shifted_wall_clock(day + timedelta(hours=7), offset)
        exprs += [rand_expr(mid) for _ in range(4)]
        tasks = [mk(e, offset) for e in exprs]
        start = day - timedelta(hours=14)
        for m in range(36 * 60):
            sec = (m * 7) % 60
            utc = start + timedelta(minutes=m, seconds=sec, microseconds=(m * 9973) % 10**6)
            for task in tasks:
                check("minute-exhaustive", task, utc)


# --------------------------------------------------------------------------- scenario 2
def scenario_seconds_independent() -> None:
    """Within one minute the decision does not depend on seconds/microseconds."""
    global CHECKS
    for _ in range(1500):
        minute = datetime(2015, 1, 1) + timedelta(minutes=RNG.randrange(21 * 365 * 1440))
        offset: Offset = RNG.choice(
            [None, RNG.choice(ZONES), timedelta(minutes=RNG.randint(-26 * 60, 26 * 60))],
        )
        task = mk(rand_expr(shifted_wall_clock(minute, offset)), offset)
        want = expected_due(task.cron, minute, offset)  # type: ignore[arg-type]
        for sec, us in ((0, 0), (0, 1), (29, 500000), (59, 0), (59, 999999)):
            CHECKS += 1
            got = decide(task, minute + timedelta(seconds=sec, microseconds=us))
            if got is not want:
                FAILURES.append(
                    f"[seconds] minute={minute} +{sec}.{us:06d}s offset={offset!r} "
                    f"cron={task.cron!r}: expected {want}, got {got}",
                )


# --------------------------------------------------------------------------- scenario 3
def scenario_random() -> None:
    """Random instants 2015-2035, random expressions, offsets within +-26h and zones."""
    span = 21 * 365 * 86400
    for i in range(40000):
        utc = datetime(2015, 1, 1) + timedelta(
            seconds=RNG.randrange(span),
            microseconds=RNG.randrange(10**6),
        )
        k = i % 4
        offset: Offset
        if k == 0:
            offset = None
        elif k == 1:
            offset = timedelta(seconds=RNG.randint(-26 * 3600, 26 * 3600))
        elif k == 2:
            offset = timedelta(minutes=RNG.choice([-26 * 60, 26 * 60, 0, 1, -1, 1439, 1440, -1440]))
        else:
            offset = RNG.choice(ZONES)
        task = mk(rand_expr(shifted_wall_clock(utc, offset)), offset)
        check("random", task, utc)


# --------------------------------------------------------------------------- scenario 4
class ListSource(ScheduleSource):
    def __init__(self, tasks: List[ScheduledTask]) -> None:
        self.tasks = tasks

    async def get_schedules(self) -> List[ScheduledTask]:
        return list(self.tasks)


class RecordingScheduler(TaskiqScheduler):
    def __init__(self, sources: List[ScheduleSource]) -> None:
        super().__init__(InMemoryBroker(), sources)
        self.sent: List[Tuple[int, str]] = []
        self.tick = 0

    async def on_ready(self, source: ScheduleSource, task: ScheduledTask) -> None:
        self.sent.append((self.tick, task.schedule_id))


class AsyncioProxy:
    """Stands in for the `asyncio` module inside run.py: only sleep() is replaced."""

    def __init__(self, fake_sleep: Any) -> None:
        self.sleep = fake_sleep

    def __getattr__(self, name: str) -> Any:
        return getattr(asyncio, name)


def run_loop(tasks_per_source: List[List[ScheduledTask]], instants: List[datetime]) -> RecordingScheduler:
    sched = RecordingScheduler([ListSource(t) for t in tasks_per_source])

    async def fake_sleep(delay: float) -> None:
        # let the spawned send tasks of this tick finish, then move the clock
        for _ in range(5):
            await asyncio.sleep(0)
        sched.tick += 1
        if sched.tick >= len(instants):
            raise asyncio.CancelledError
        Clock.utc = instants[sched.tick]

    async def main() -> None:
        Clock.utc = instants[0]
        try:
            await run.run_scheduler_loop(sched)
        except asyncio.CancelledError:
            pass

    real = run.asyncio
    run.asyncio = AsyncioProxy(fake_sleep)  # type: ignore[attr-defined]
    try:
        asyncio.run(main())
    finally:
        run.asyncio = real  # type: ignore[attr-defined]
    return sched


LOOP_INSTANTS = [
    datetime(2024, 3, 10, 6, 59, 0, 1200),  # 01:59 EST
    datetime(2024, 3, 10, 7, 0, 0, 800),  # 03:00 EDT (02:xx does not exist)
    datetime(2024, 3, 10, 7, 1, 0, 300),
    datetime(2024, 11, 3, 5, 30, 0, 100),  # 01:30 EDT
    datetime(2024, 11, 3, 6, 30, 0, 100),  # 01:30 EST (second time)
    datetime(2024, 11, 3, 6, 30, 59, 999999),  # very late in the minute
    datetime(2024, 10, 5, 15, 29, 0, 5),  # Lord Howe 01:59 -> 02:30 jump
    datetime(2024, 10, 5, 15, 30, 0, 5),
    datetime(2024, 12, 31, 23, 59, 0, 0),
    datetime(2025, 1, 1, 0, 0, 0, 0),
]


def loop_tasks() -> List[List[ScheduledTask]]:
    a = [
        mk("59 1 * * *", "America/New_York"),
        mk("0 3 10 3 *", "America/New_York"),
        mk("0-59 2 * * *", "America/New_York"),
        mk("30 1 3 11 *", "America/New_York"),
        mk("*/30 2 * * *", "Australia/Lord_Howe"),
        mk("59 1 6 10 *", "Australia/Lord_Howe"),
        mk("0 0 1 1 *", None),
        mk("59 23 31 12 2", None),
    ]
    b = [
        mk("0 2 10 3 *", timedelta(hours=-5)),
        mk("0 3 10 3 *", timedelta(hours=-4)),
        mk("59 1 2 1 *", timedelta(hours=26)),
        mk("0 2 2 1 *", timedelta(hours=26)),
        mk("59 21 30 12 *", timedelta(hours=-26)),
        mk("15 11 * * *", "Asia/Kathmandu"),
        mk("14,15 11 * * *", "Asia/Kathmandu"),
        mk("* * * * *", "Asia/Kolkata"),
    ]
    return [a, b]


def compare_loop(scn: str, sched: RecordingScheduler, groups: List[List[ScheduledTask]], skip: Tuple[str, ...] = ()) -> None:
    global CHECKS
    for tick, utc in enumerate(LOOP_INSTANTS):
        for group in groups:
            for task in group:
                if task.schedule_id in skip:
                    continue
                CHECKS += 1
                want = expected_due(task.cron, utc, task.cron_offset or None)  # type: ignore[arg-type]
                n = sched.sent.count((tick, task.schedule_id))
                if n != (1 if want else 0):
                    FAILURES.append(
                        f"[{scn}] tick utc={utc} offset={task.cron_offset!r} cron={task.cron!r}: "
                        f"expected due={want}, scheduler loop sent it {n} time(s)",
                    )
    if sched.tick != len(LOOP_INSTANTS):
        FAILURES.append(f"[{scn}] loop made {sched.tick} ticks instead of {len(LOOP_INSTANTS)}")


def scenario_loop() -> None:
    """The real run_scheduler_loop spawns a send exactly for the schedules that are due."""
    for host in (timedelta(0), timedelta(hours=5, minutes=45), timedelta(hours=-8)):
        Clock.host_offset = host  # the host's own time zone must not matter
        groups = loop_tasks()
        sched = run_loop(groups, LOOP_INSTANTS)
        compare_loop(f"loop host=UTC{host}", sched, groups)
    Clock.host_offset = timedelta(0)


# --------------------------------------------------------------------------- scenario 5
def scenario_outside_the_property() -> None:
    """
    Inputs the property does not quantify over (unknown zone names, expressions with
    irregular whitespace). Whatever the implementation does with them (it differs
    between versions), the valid schedules around them must still be decided correctly.
    """
    utc = datetime(2024, 3, 10, 7, 0, 13)
    bad_zone = mk("* * * * *", "Mars/Olympus_Mons")
    res = decide(bad_zone, utc)
    print(f"  unknown zone name     -> get_task_delay: {res}")
    ws = mk("  0   3\t10 3 * ", "America/New_York")
    res_ws = decide(ws, utc)
    print(f"  irregular whitespace  -> get_task_delay: {res_ws}")
    if res_ws in (True, False):
        # if such an expression is accepted at all it must mean its five fields
        norm = mk("0 3 10 3 *", "America/New_York")
        for m in range(-90, 90):
            t = utc + timedelta(minutes=m)
            want = expected_due(norm.cron, t, norm.cron_offset)  # type: ignore[arg-type]
            got = decide(ws, t)
            if got is not want:
                FAILURES.append(f"[whitespace] utc={t}: expected {want}, got {got}")
    # valid schedules interleaved with the odd ones, through get_task_delay
    good = [mk(e, z) for z in ("America/New_York", "Asia/Kathmandu", None) for e in FIXED_EXPRS]
    for m in range(0, 1440, 7):
        t = datetime(2024, 3, 10) + timedelta(minutes=m, seconds=m % 60)
        for task in good:
            decide(bad_zone, t)
            decide(ws, t)
            check("interleaved", task, t)
    # ... and through the loop, when the implementation tolerates the odd schedule
    # (on versions where get_task_delay lets a non-ValueError escape, the loop would
    # simply die: nothing is "considered due" any more, which the property allows).
    groups = loop_tasks()
    extra = []
    if str(res).startswith("raised") and "ValueError" not in _mro_names(bad_zone, utc):
        print("  loop with unknown zone: not run (exception is not a ValueError, loop would stop)")
    else:
        extra.append(bad_zone)
    extra.append(ws)
    groups[0][3:3] = extra
    sched = run_loop(groups, LOOP_INSTANTS)
    compare_loop("loop+odd", sched, groups, skip=tuple(t.schedule_id for t in extra))


def _mro_names(task: ScheduledTask, utc: datetime) -> List[str]:
    Clock.utc = utc
    try:
        run.get_task_delay(task)
    except Exception as exc:  # noqa: BLE001
        return [c.__name__ for c in type(exc).__mro__]
    return ["ValueError"]  # nothing raised: loop is fine


def main() -> int:
    for fn in (
        scenario_oracle_selfcheck,
        scenario_minute_exhaustive,
        scenario_seconds_independent,
        scenario_random,
        scenario_loop,
        scenario_outside_the_property,
    ):
        before = CHECKS
        fn()
        print(f"{fn.__name__}: {CHECKS - before} checks, failures so far: {len(FAILURES)}")
    print(f"clock reads: {Clock.reads}, elapsed {_time.time() - T0:.1f}s")
    if FAILURES:
        print(f"C13 VIOLATED: {len(FAILURES)} of {CHECKS} checks disagree.")
        for f in FAILURES[:30]:
            print("  " + f)
        return 1
    print(f"C13 holds: all {CHECKS} checks agree with the oracle ({DUE} of them expected 'due').")
    return 0


if __name__ == "__main__":
    sys.exit(main())
