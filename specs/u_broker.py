"""Unit `broker`: taskiq/abc/broker.py — AsyncBroker.add_middlewares, with_middlewares, get_all_tasks, find_task: the registry helpers the hook loops
(C10), the label schedule source (C16) and the receiver's task lookup (C01, C06) read from.

add_middlewares / with_middlewares: every given middleware (instances of TaskiqMiddleware: the precondition) is bound to this broker
(set_broker(self)) and appended to broker.middlewares, all of them, in the order given, after the ones already there; with_middlewares returns
the broker.  get_all_tasks: the union of the global and the broker's own registry, the broker's own task winning for a name present in both.
find_task: the broker's own task of that name if there is one, else the global one, else None."""
import ast
from z3 import *
import z3 as _z3
from pyvc.core import *

PROPS = ['C10', 'C16', 'C01', 'C06', 'C09', 'C08']
REL = 'taskiq/abc/broker.py'
TRUSTED = ["registered tasks are truthy objects (AsyncTaskiqDecoratedTask defines neither __bool__ nor __len__)", "dict(...)/{**a, **b}: later entries win; list.append appends at the end"]


def generate(src):
    self_a, mws_a, cur_a, glob_a, loc_a = Ints('self_a given_middlewares broker_middlewares global_registry local_registry')
    j = Int('j'); key = Const('key', Val)
    for fname, returns_self in (('add_middlewares', False), ('with_middlewares', True)):
        fd = src.func(REL, 'AsyncBroker.' + fname)
        st = State(); h = st.heap; n = h.llen[mws_a]; n0 = h.llen[cur_a]; GIVEN = h.litem[mws_a]; OLD = h.litem[cur_a]
        if not fd.args.vararg: raise Unsupported(fname + ": expected *middlewares")
        st.env = {'self': PyObj(self_a), fd.args.vararg.arg: PyList(mws_a)}
        h.fld['middlewares'] = Store(h.field('middlewares'), self_a, Val.ref(cur_a))
        st.pc += [Distinct(self_a, mws_a, cur_a), n >= 0, n0 >= 0]
        bound = Function('set_broker_called_' + fname, IntSort(), BoolSort())          # ghost: position j of the given middlewares was bound to the broker
        st.ghost = dict(bound=_z3.K(IntSort(), False), idx=None)
        def Inv(s, i):
            hh = s.heap
            return [hh.llen[cur_a] == n0 + i, hh.llen[mws_a] == n, hh.litem[mws_a] == GIVEN, hh.field('middlewares')[self_a] == Val.ref(cur_a),
                    ForAll([j], Implies(And(0 <= j, j < n0), hh.litem[cur_a][j] == OLD[j])),
                    ForAll([j], Implies(And(0 <= j, j < i), And(hh.litem[cur_a][n0 + j] == GIVEN[j], s.ghost['bound'][j])))]
        TXT = ["broker.middlewares grows by one per middleware visited", "the given middlewares are not modified", "the given middlewares are not modified", "broker.middlewares stays the same list",
               "middlewares registered earlier keep their positions", "every middleware visited so far is bound to the broker and appended, in the order given"]
        def h_for(ex, s, st_, k, K, fname=fname, Inv=Inv, n=n, GIVEN=GIVEN):
            if ast.unparse(s.iter) != fd.args.vararg.arg or not isinstance(s.target, ast.Name): raise Unsupported(fname + ": loop over " + ast.unparse(s.iter))
            for c, tx in zip(Inv(st_, IntVal(0)), TXT): oblige(st_, f"{fname}/loop/inv-entry: {tx}  [C10]", c)
            it = st_.fork(); i = fresh('i', IntSort()); it.heap = it.heap.copy()
            it.heap.litem = Const('litem_h', it.heap.litem.sort()); it.heap.llen = Const('llen_h', it.heap.llen.sort()); it.ghost = dict(it.ghost); it.ghost['bound'] = Const('bound_h', ArraySort(IntSort(), BoolSort()))
            it.pc += [i >= 0, i < n]; assume(it, Inv(it, i)); it.env = dict(it.env); it.env[s.target.id] = GIVEN[i]; it.ghost['idx'] = i
            def back(s3):
                for c, tx in zip(Inv(s3, i + 1), TXT): oblige(s3, f"{fname}/loop/inv-preserved: {tx}  [C10]", c)
            K2 = dict(K); K2['cont'] = back
            K2['brk'] = lambda s3: oblige(s3, f"{fname}/loop: no early exit - EVERY given middleware is registered  [C10]", BoolVal(False))
            K2['ret'] = lambda s3, v: oblige(s3, f"{fname}/loop: no return from inside the loop - EVERY given middleware is registered  [C10]", BoolVal(False))
            ex.block(s.body, it, back, K2)
            out = st_.fork(); out.heap = out.heap.copy(); out.heap.litem = Const('litem_o', out.heap.litem.sort()); out.heap.llen = Const('llen_o', out.heap.llen.sort())
            out.ghost = dict(out.ghost); out.ghost['bound'] = Const('bound_o', ArraySort(IntSort(), BoolSort())); assume(out, Inv(out, n)); return k(out)
        def h_isinstance(ex, st_, e, recv, args, kw, k, K): return k(st_, PyBool(BoolVal(True)))          # precondition: every given object is a TaskiqMiddleware
        def h_set_broker(ex, st_, e, recv, args, kw, k, K):
            i = st_.ghost['idx']
            oblige(st_, f"{fname}/set_broker: the middleware is bound to THIS broker  [C10]", to_val(args[0]) == Val.ref(self_a) if args else BoolVal(False))
            st_.ghost = dict(st_.ghost); st_.ghost['bound'] = Store(st_.ghost['bound'], i, True); return k(st_, None)
        ex = Exec({'@for': h_for, 'isinstance': h_isinstance, '*.set_broker': h_set_broker, 'logger.*': noop}, attr_kinds={'self.middlewares': 'list'})
        def on_ret(s, v, fname=fname, returns_self=returns_self, n=n, n0=n0, GIVEN=GIVEN):
            hh = s.heap
            oblige(s, f"{fname}/post: all given middlewares are registered after the existing ones, in the order given, each bound to the broker  [C10]",
                   And(hh.llen[cur_a] == n0 + n, ForAll([j], Implies(And(0 <= j, j < n), And(hh.litem[cur_a][n0 + j] == GIVEN[j], s.ghost['bound'][j])))))
            if returns_self: oblige(s, f"{fname}/post: returns the broker itself  [C10]", to_val(v) == Val.ref(self_a))
            reach(s, f"{fname}/reach@return")
        ex.run(fd, st, on_ret, lambda s, x: oblige(s, f"{fname}/raises: nothing  [C10]", BoolVal(False)))
    # ---------------- get_all_tasks / find_task
    class ExD(Exec):
        def ev_Dict(self, e, st, k, K):
            if not e.keys or any(x is not None for x in e.keys): return super().ev_Dict(e, st, k, K)
            def got(s, ds):          # {**a, **b, ...}: later entries win
                if not all(isinstance(d, PyDict) for d in ds): raise Unsupported("dict unpacking of a non-dict: " + ast.unparse(e))
                r = alloc(s); has = Or(*[s.heap.dhas[d.addr][key] for d in ds]); val = s.heap.dval[ds[0].addr][key]
                for d in ds[1:]: val = If(s.heap.dhas[d.addr][key], s.heap.dval[d.addr][key], val)
                s.facts.append(ForAll([key], And(s.heap.dhas[r][key] == has, s.heap.dval[r][key] == val))); return k(s, PyDict(r))
            return self.ev_list(e.values, st, got, K)
    def h_get(ex, st, e, d, args, kw, k, K):
        kx = to_val(args[0]); return k(st, If(st.heap.dhas[d.addr][kx], st.heap.dval[d.addr][kx], to_val(args[1]) if len(args) > 1 else Val.none))
    exd = ExD({'dict.get': h_get}, attr_kinds={'self.global_task_registry': 'dict', 'self.local_task_registry': 'dict'})
    def mk():
        s = State(); s.env = {'self': PyObj(self_a)}
        s.heap.fld['global_task_registry'] = Store(s.heap.field('global_task_registry'), self_a, Val.ref(glob_a)); s.heap.fld['local_task_registry'] = Store(s.heap.field('local_task_registry'), self_a, Val.ref(loc_a))
        s.pc += [Distinct(self_a, glob_a, loc_a), s.heap.next > self_a, s.heap.next > glob_a, s.heap.next > loc_a]
        s.facts += [ForAll([key], Implies(s.heap.dhas[glob_a][key], Val.is_ref(s.heap.dval[glob_a][key]))), ForAll([key], Implies(s.heap.dhas[loc_a][key], Val.is_ref(s.heap.dval[loc_a][key])))]          # tasks are objects (truthy)
        return s
    s0 = mk(); G0, L0, GH, LH = s0.heap.dval[glob_a], s0.heap.dval[loc_a], s0.heap.dhas[glob_a], s0.heap.dhas[loc_a]
    def g_ret(s, v):
        if not isinstance(v, PyDict): oblige(s, "get_all_tasks/post: returns a dict  [C16]", BoolVal(False)); return
        oblige(s, "get_all_tasks/post: exactly the names registered globally or on this broker; for a name in both, the broker's OWN task (the receiver prepares signatures from this listing and executes what find_task returns: both must name the same function)  [C16/C08]",
               ForAll([key], And(s.heap.dhas[v.addr][key] == Or(GH[key], LH[key]), Implies(Or(GH[key], LH[key]), s.heap.dval[v.addr][key] == If(LH[key], L0[key], G0[key])))))
        oblige(s, "get_all_tasks/frame: the registries themselves are not modified  [C16]", And(s.heap.dval[glob_a] == G0, s.heap.dval[loc_a] == L0, s.heap.dhas[glob_a] == GH, s.heap.dhas[loc_a] == LH))
        reach(s, "get_all_tasks/reach@return")
    exd.run(src.func(REL, 'AsyncBroker.get_all_tasks'), s0, g_ret, lambda s, x: oblige(s, "get_all_tasks/raises: nothing  [C16]", BoolVal(False)))
    s1 = mk(); name = fresh('task_name'); s1.env['task_name'] = name
    def f_ret(s, v):
        oblige(s, "find_task/post: the broker's own task of that name if there is one, else the globally registered one, else None  [C01/C06]",
               to_val(v) == If(LH[name], L0[name], If(GH[name], G0[name], Val.none)))
        reach(s, "find_task/reach@return")
    exd.run(src.func(REL, 'AsyncBroker.find_task'), s1, f_ret, lambda s, x: oblige(s, "find_task/raises: nothing  [C01]", BoolVal(False)))
    # ---------------- AsyncBroker.task / register_task: the labels declared on a task reach the decorated task object, in every calling form  [C09]
    # (call-site obligations: the nested closures are not executed; each expression that hands the labels on is evaluated symbolically in the
    #  environment of its function, and a name that is re-bound in that function is unknown at the call - approximation, left to the native driver)
    la = Int('declared_labels'); lbl = PyDict(la)
    def same_labels(s, v): return And(isinstance(v, PyDict), ForAll([key], And(s.heap.dhas[v.addr][key] == s.heap.dhas[la][key], Implies(s.heap.dhas[la][key], s.heap.dval[v.addr][key] == s.heap.dval[la][key])))) if isinstance(v, PyDict) else BoolVal(False)
    def own_nodes(fd_):          # nodes of the function itself, not of the functions nested in it
        out, todo = [], list(fd_.body)
        while todo:
            n_ = todo.pop()
            if isinstance(n_, (ast.FunctionDef, ast.AsyncFunctionDef, ast.Lambda)): continue
            out.append(n_); todo.extend(ast.iter_child_nodes(n_))
        return out
    def env_for(fd_, names, st_):
        rebound = {n_.id for n_ in own_nodes(fd_) if isinstance(n_, ast.Name) and isinstance(n_.ctx, ast.Store)} | {x for n_ in own_nodes(fd_) if isinstance(n_, ast.Nonlocal) for x in n_.names}
        for nm, v in names.items():
            if nm in rebound: st_.env[nm] = fresh(nm + '_rebound'); approx(st_, f"{fd_.name}: `{nm}` is re-bound in the body")
            else: st_.env[nm] = v
    exl = Exec({})
    tfd = src.func(REL, 'AsyncBroker.task')
    mk_defs = [n_ for n_ in tfd.body if isinstance(n_, ast.FunctionDef)]
    rets = [n_ for n_ in own_nodes(tfd) if isinstance(n_, ast.Return)]
    if len(mk_defs) != 1 or not rets: raise Unsupported("AsyncBroker.task: expected one nested factory and return statements")
    MK = mk_defs[0]; inner_defs = [n_ for n_ in MK.body if isinstance(n_, ast.FunctionDef)]
    if len(inner_defs) != 1 or not MK.args.args: raise Unsupported("AsyncBroker.task: expected factory(inner_labels, ...) with one nested decorator")
    INNER = inner_defs[0]; LP = MK.args.args[0].arg
    for r_ in rets:
        c = r_.value
        if isinstance(c, ast.Call) and isinstance(c.func, ast.Call): c = c.func          # factory(...)(func): the no-parentheses form
        if not (isinstance(c, ast.Call) and isinstance(c.func, ast.Name) and c.func.id == MK.name):
            oblige(State(), f"task/return@{r_.lineno - tfd.lineno}: every form of the decorator goes through the one factory that attaches the labels  [C09]", BoolVal(False)); continue
        e_ = next((k_.value for k_ in c.keywords if k_.arg == LP), c.args[0] if c.args else None)
        st_ = State(); st_.env = {'self': PyObj(self_a)}; env_for(tfd, {tfd.args.kwarg.arg if tfd.args.kwarg else 'labels': lbl, 'task_name': fresh('task_name')}, st_); st_.pc.append(st_.heap.next > la)
        if e_ is None: oblige(st_, f"task/call@{r_.lineno - tfd.lineno}: the declared labels are handed to the factory  [C09]", BoolVal(False)); continue
        exl.ev(e_, st_, lambda s, v, r_=r_: (oblige(s, f"task/call@return#{rets.index(r_)}: the labels handed to the factory are exactly the labels declared in the call (`**labels`), for every calling form  [C09]", same_labels(s, v)), reach(s, f"task/reach@return#{rets.index(r_)}/{'t' if True else ''}{len(s.pc)}")), {'exc': lambda s, x: None})
    dc = [n_ for n_ in own_nodes(INNER) if isinstance(n_, ast.Call) and ast.unparse(n_.func) == 'self.decorator_class']
    if len(dc) != 1: raise Unsupported("AsyncBroker.task: expected exactly one construction of the decorated task")
    kwd = {k_.arg: k_.value for k_ in dc[0].keywords}
    for opt, nm in (('labels', LP), ('original_func', INNER.args.args[0].arg), ('broker', 'self')):
        st_ = State(); vals = {LP: lbl, INNER.args.args[0].arg: fresh('func'), 'self': PyObj(self_a)}; st_.env = {}; env_for(INNER, vals, st_); st_.pc.append(st_.heap.next > la)
        if opt not in kwd: oblige(st_, f"task/decorated task: `{opt}` is passed to the task object  [C09]", BoolVal(False)); continue
        exl.ev(kwd[opt], st_, lambda s, v, opt=opt, nm=nm, vals=vals: (oblige(s, f"task/decorated task: {opt} is the factory's `{nm}` (the declared labels are stored on the task object as given)  [C09]",
               same_labels(s, v) if opt == 'labels' else to_val(v) == to_val(vals[nm])), reach(s, f"task/reach@decorated:{opt}")), {'exc': lambda s, x: None})
    rfd = src.func(REL, 'AsyncBroker.register_task'); rr = [n_ for n_ in own_nodes(rfd) if isinstance(n_, ast.Return)]
    for r_ in rr:
        c = r_.value; ok_shape = isinstance(c, ast.Call) and isinstance(c.func, ast.Call) and ast.unparse(c.func.func) == 'self.task' and len(c.args) == 1
        st_ = State(); st_.env = {'self': PyObj(self_a)}; st_.pc.append(st_.heap.next > la)
        if not ok_shape: oblige(st_, "register_task/return: registers through self.task(...)(func)  [C09]", BoolVal(False)); continue
        env_for(rfd, {rfd.args.kwarg.arg if rfd.args.kwarg else 'labels': lbl, rfd.args.args[1].arg: fresh('func'), 'task_name': fresh('task_name')}, st_)
        star = [k_.value for k_ in c.func.keywords if k_.arg is None]
        named = [k_.arg for k_ in c.func.keywords if k_.arg not in (None, 'task_name')]
        if len(star) != 1 or named: oblige(st_, "register_task/call: the declared labels are forwarded as `**labels` (and nothing else is injected)  [C09]", BoolVal(False)); continue
        exl.ev(star[0], st_, lambda s, v: (oblige(s, "register_task/call: the labels forwarded to self.task are exactly the labels declared in the call  [C09]", same_labels(s, v)), reach(s, "register_task/reach@call")), {'exc': lambda s, x: None})
    return {}
