"""Native replay for units `labels` / `kicker` (C09): real AsyncKicker -> formatter/serializer -> Receiver.callback, labels of the five primitive
types (extreme ints, non-finite floats, empty / non-UTF-8 bytes, unicode), first delivery and two requeues via the REAL Context.requeue,
with every importable bundled serializer; plus the no-leak scenarios for kicker()/with_labels()/with_task_id().  /venv/bin/python."""
import sys, json, asyncio, logging, math
logging.disable(logging.CRITICAL)

def same(a, b):
    if type(a) is not type(b): return False
    if isinstance(a, float) and math.isnan(a) and math.isnan(b): return True
    return a == b

VALUES = {'i0': 0, 'i1': 1, 'f0': 0.0, 'f1': 1.0, 'ibig': 2 ** 70,          # 0 / 0.0 / False and 1 / 1.0 / True are equal and hash alike: a cache keyed on the value must not confuse them
          'ineg': -(10 ** 30), 's': 'x', 'sempty': '', 'suni': 'zé中\U0001f600', 'snum': '12', 'strue': 'True',
          'f': 1.5, 'finf': float('inf'), 'fnan': float('nan'), 'fsmall': 5e-324, 'bt': True, 'bf': False,
          'y': b'abcd', 'yempty': b'', 'ybin': b'\xff\xfe\x00', 'y3': b'abc',
          'timeout': 50, 'max_retries': '3', 'retry_on_error': 'no'}          # label names the worker itself reads (an int timeout, text for the others): they are still the user's labels

async def delivery(serializer_name, requeues):
    from taskiq import InMemoryBroker, Context, TaskiqDepends, TaskiqMiddleware
    from taskiq.abc.broker import AsyncBroker
    from taskiq.receiver import Receiver
    import taskiq.serializers as S
    AsyncBroker.global_task_registry = {}
    sent = []
    class B(InMemoryBroker):
        async def kick(self, message): sent.append(message)
    b = B()
    ser = getattr(S, serializer_name)()
    b = b.with_serializer(ser)
    seen = []
    class MW(TaskiqMiddleware):
        def pre_execute(self, message): seen.append(('middleware', dict(message.labels))); return message
        def post_execute(self, message, result): seen.append(('post_execute middleware', dict(message.labels)))          # also AFTER the task ran (and possibly requeued itself): the current message still carries its labels
    b.add_middlewares(MW())
    stored = []; errors = []
    class RB(type(b.result_backend)):
        async def set_result(self, task_id, result):
            stored.append(dict(result.labels))
            if result.is_err: errors.append(f"{type(result.error).__name__}: {result.error}")
    b.result_backend = RB()
    async def t(ctx: Context = TaskiqDepends()):
        seen.append(('context', dict(ctx.message.labels)))
        if len([s for s in seen if s[0] == 'context']) <= requeues:
            try: await ctx.requeue()
            finally: seen.append(('context after requeue()', dict(ctx.message.labels)))
    task = b.register_task(t, task_name='t', **{k: v for k, v in VALUES.items()})
    await task.kiq()
    r = Receiver(b, run_startup=False, max_async_tasks=3)
    i = 0; problems = []
    while i < len(sent):
        before = len([s for s in seen if s[0] == 'context'])
        try: await r.callback(sent[i].message)
        except BaseException as e: problems.append(f"C09: delivery {i} raised {type(e).__name__}: {e}")
        if len([s for s in seen if s[0] == 'context']) == before: problems.append(f"C09: delivery {i} ({'requeue ' + str(i) if i else 'first delivery'}) was not executed (message unparsable or skipped)")
        i += 1
        if i > requeues + 2: break
    nctx = 0
    for where, labels in seen + [('stored result', l) for l in stored]:
        if where == 'context': nctx += 1
        for k, v in VALUES.items():
            if k not in labels: problems.append(f"C09: label {k} missing in {where} (delivery {nctx})")
            elif not same(labels[k], v): problems.append(f"C09: label {k}={v!r} arrived in {where} (delivery {nctx}, serializer {serializer_name}) as {labels[k]!r}")
    if nctx != requeues + 1: problems.append(f"C09: expected {requeues + 1} executions (first delivery + {requeues} requeues), saw {nctx}" + (f"; the task failed with {errors[0][:160]}" if errors else ""))
    return problems

async def no_leak():
    from taskiq import InMemoryBroker
    from taskiq.abc.broker import AsyncBroker
    from taskiq.brokers.shared_broker import async_shared_broker
    AsyncBroker.global_task_registry = {}
    problems = []
    sent = []
    class B(InMemoryBroker):
        async def kick(self, message): sent.append(message)
    b = B(); b2 = B()
    async def t(): pass
    task = b.register_task(t, task_name='t', declared=1)
    declared = dict(task.labels)
    k1 = task.kicker().with_labels(x=5).with_task_id('custom')
    await k1.kiq()
    if dict(task.labels) != declared: problems.append(f"C09: task.labels changed from {declared} to {dict(task.labels)} after kicker().with_labels(x=5).kiq()")
    k2 = task.kicker()
    if 'x' in k2.labels: problems.append("C09: a second kicker sees the first kicker's label x")
    await task.kiq()
    if 'x' in sent[-1].labels: problems.append(f"C09: a plain kiq() after a customised send carries label x: {sent[-1].labels}")
    if sent[-1].task_id == 'custom': problems.append("C09: task id override leaked into the next call")
    task.kicker().with_broker(b2)
    if task.broker is not b: problems.append("C09: with_broker changed the task's broker")
    @async_shared_broker.task(task_name='shared', declared=2)
    async def st(): pass
    async_shared_broker.default_broker(b)
    d0 = dict(st.labels)
    await st.kicker().with_labels(y=1).kiq()
    if dict(st.labels) != d0: problems.append(f"C09: shared task labels changed from {d0} to {dict(st.labels)}")
    # every way of declaring a task carries its labels to the message that is sent
    async def f1(): pass
    async def f2(): pass
    async def f3(): pass
    async def f4(): pass
    forms = {'@broker.task(task_name=..., **labels)': b.task(task_name='f1', form=1, flag=True)(f1), '@broker.task(**labels)': b.task(form=2, flag=True)(f2),
             'broker.task(func, **labels)': b.task(f3, form=3, flag=True), 'broker.register_task(func, **labels)': b.register_task(f4, form=4, flag=True)}
    for i, (form, tk) in enumerate(forms.items(), 1):
        await tk.kiq()
        got = {k: str(v) for k, v in sent[-1].labels.items() if k in ('form', 'flag')}          # the broker message carries the text form (the types travel in labels_types)
        if got != {'form': str(i), 'flag': 'True'}: problems.append(f"C09: labels declared with {form} = {{'form': {i}, 'flag': True}} arrive in the sent message as {got}")
    return problems

def run(sc):
    import taskiq.serializers as S
    fails = []; n = 0
    for name in ('JSONSerializer', 'PickleSerializer', 'ORJSONSerializer', 'MSGPackSerializer', 'CBORSerializer'):
        if not hasattr(S, name): continue
        try: getattr(S, name)()
        except Exception: continue
        for requeues in (0, 2):
            try: pr = asyncio.run(delivery(name, requeues))
            except BaseException as e: pr = [f"C09: {name}: scenario raised {type(e).__name__}: {e}"]
            n += 1
            if pr: fails.append({'key': f"{name}/requeues={requeues}", 'config': {'serializer': name, 'requeues': requeues}, 'failed_clauses': sorted(set(pr))[:12]})
    pr = asyncio.run(no_leak()); n += 1
    if pr: fails.append({'key': 'no-leak', 'config': 'kicker()/with_labels()/with_task_id()/with_broker() on one task', 'failed_clauses': pr})
    return {'reproduced': bool(fails), 'runs': n, 'n_failures': len(fails), 'failures': fails[:400]}

if __name__ == '__main__':
    sc = json.load(open(sys.argv[1])) if len(sys.argv) > 1 else {}
    print(json.dumps(run(sc.get('scenario', sc)), default=str))
