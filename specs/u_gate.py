"""Unit `gate`: taskiq/serialization.py::exception_to_python, get_pickled_exception, _UnpickleableExceptionWrapper.restore, create_exception_cls,
subclass_exception — C20 (loading a stored error never instantiates anything but an exception class).

(call-target safety) every call whose callee is not a statically known name — `cls(*exc_msg)` in exception_to_python and
`create_exception_cls(...)(*self.exc_args)` in restore — is reached only with the proved fact isinstance(callee, type) and
issubclass(callee, BaseException): by the gate for the first, by the postcondition of create_exception_cls (type(name, (parent,), ...) with
parent an Exception subclass) for the second; the gate's failing branch raises SecurityError; recursion into cause/context re-enters the
same function (same obligations at every nesting level, by induction).
(no import) the load path contains no import statement / __import__ / importlib / eval / exec / compile and looks the class up through
sys.modules[...] and getattr only (syntactic frame over the real ASTs, transitive over the repo functions it calls).
(synthetic class) KeyError/AttributeError during the lookup, or exc_module None, yield create_exception_cls(exc_type, <module name>)."""
import ast, re
from z3 import *
from pyvc.core import *

PROPS = ['C20']          # the 'raises only SecurityError' clause also serves C19 (loading a stored error never fails otherwise)
REPLAY = {'driver': 'ser', 'parts': ['gate']}
REL = 'taskiq/serialization.py'
TRUSTED = [
    "attribute lookup (getattr, sys.modules[...]) has no side effects and raises only AttributeError / KeyError (excludes property getters on planted instances: recorded, not decided)",
    "isinstance(x, type) / issubclass(x, BaseException) are the Python predicates; type(name, (parent,), ns) creates a subclass of parent",
    "@validate_call passes arguments of the declared types through unchanged (a payload of another type is rejected with a validation error before the body runs)",
    "instantiating an exception class runs only that class's own constructor (user __init__ may raise anything)",
]


def generate(src):
    fdef = src.func(REL, 'exception_to_python')
    GPE = src.func(REL, 'get_pickled_exception'); RESTORE = src.func(REL, '_UnpickleableExceptionWrapper.restore'); CEC = src.func(REL, 'create_exception_cls'); SUB = src.func(REL, 'subclass_exception')
    CLS.add('SecurityError', 'Exception')
    is_type = Function('is_type', Val, BoolSort()); is_exc_cls = Function('is_exc_cls', Val, BoolSort()); is_exc_inst = Function('is_exc_inst', Val, BoolSort())
    inst_of = Function('instance_created_from', Val, Val)
    dyn_calls = []
    def h_isinstance(ex, st, e, recv, args, kw, k, K):
        what = ast.unparse(e.args[1]); v = to_val(args[0])
        if what == 'BaseException': return k(st, PyBool(is_exc_inst(v)))
        if what == 'type': return k(st, PyBool(is_type(v)))
        raise Unsupported(what)
    def h_issubclass(ex, st, e, recv, args, kw, k, K):
        assert ast.unparse(e.args[1]) == 'BaseException'; return k(st, PyBool(is_exc_cls(to_val(args[0]))))
    def h_get_pickled(ex, st, e, recv, args, kw, k, K):
        r = fresh('restored'); st.pc.append(is_exc_inst(r)); return k(st, r)          # contract of get_pickled_exception (proved separately)
    def h_create_cls(ex, st, e, recv, args, kw, k, K):
        c = fresh('synthetic_cls'); st.pc += [is_type(c), is_exc_cls(c)]; setG(st, synthetic=c, synth_name=to_val(args[0]) if args else Val.none); return k(st, c)   # contract: type(name,(Exception,),..) is an exception class
    def h_getattr(ex, st, e, recv, args, kw, k, K):
        ok = st.fork(); k(ok, fresh('attr'))
        f = st.fork(); setG(f, lookup_failed=BoolVal(True)); K['exc'](f, new_exc(f, 'AttributeError'))
    def h_split(ex, st, e, recv, args, kw, k, K): return k(st, 'SPLIT')
    def h_security(ex, st, e, recv, args, kw, k, K): return k(st, new_exc(st, 'SecurityError'))
    def h_Exception(ex, st, e, recv, args, kw, k, K):
        r = fresh('generic_exc'); st.pc.append(is_exc_inst(r)); return k(st, r)
    def h_dynamic(ex, st, e, recv, args, kw, k, K):
        callee = st.env[ast.unparse(e.func)]; c = to_val(callee)
        oblige(st, f"exception_to_python/call-target@{ast.unparse(e)}: the callee is a class and a BaseException subclass  [C20]", And(is_type(c), is_exc_cls(c)))
        g = st.ghost; unresolved = Or(g['lookup_failed'], st.heap.field('exc_module')[Val.a(to_val(st.env['exc']))] == Val.none)
        first = not g.get('dyn_seen'); setG(st, dyn_seen=True)          # the class the stored type name resolves to is the FIRST dynamic callee of a path (later ones, e.g. gated base classes in a fallback, only need the call-target obligation)
        if first: oblige(st, "exception_to_python/synthetic: a type that cannot be resolved (unknown module / attribute, or no module) is replaced by a synthetic exception class of that name  [C20]",
               Implies(unresolved, And(c == g['synthetic'], g['synth_name'] == st.heap.field('exc_type')[Val.a(to_val(st.env['exc']))])))
        dyn_calls.append(ast.unparse(e))
        ok = st.fork(); r = fresh('inst'); ok.pc.append(is_exc_inst(r)); k(ok, r)
        f = st.fork(); K['exc'](f, raise_any(f, 'BaseException'))          # user __init__ may raise anything
    def h_recursive(ex, st, e, recv, args, kw, k, K):
        ok = st.fork(); r = fresh('rec'); ok.pc.append(Or(r == Val.none, is_exc_inst(r))); k(ok, r)
        f = st.fork(); setG(f, from_recursion=BoolVal(True)); K['exc'](f, new_exc(f, 'SecurityError'))
    def h_for_generic(ex, s, st, k, K):
        """any other loop of the load path: the loop variable is an ARBITRARY value (nothing is known about what an iterable yields), every local
        assigned in the body is havocked at the loop head and after the loop, constrained only by the candidate invariants ("is an exception
        instance", "is an exception class") that hold at entry and are preserved by the body (Houdini: candidates that are not preserved are
        dropped and the body is re-executed).  Sound for the call-target obligations: they are checked inside the body for the arbitrary element."""
        if s.orelse: raise Unsupported("for/else in exception_to_python")
        assigned = sorted({n_.id for n_ in ast.walk(s) if isinstance(n_, ast.Name) and isinstance(n_.ctx, ast.Store)})
        tnames = {n_.id for n_ in ast.walk(s.target) if isinstance(n_, ast.Name)}
        cands = []
        for v in assigned:
            if v in tnames or v not in st.env or not (is_expr(st.env[v]) or st.env[v] is None): continue
            for nm, pred in (('exc_inst', lambda x: Or(x == Val.none, is_exc_inst(x))), ('exc_cls', lambda x: And(is_type(x), is_exc_cls(x)))):
                chk = st.fork(); chk.pc.append(Not(pred(to_val(st.env[v]))))
                if not ex.feasible(chk): cands.append((v, nm, pred))
        def havoc(state):
            state.env = dict(state.env)
            for v in assigned: state.env[v] = fresh(v)
            for v, nm, pred in cands: state.pc.append(pred(state.env[v]))
        for _round in range(4):
            nobl = len(OBL); ends = []; exits_ = []
            it = st.fork(); havoc(it)
            K2 = dict(K); K2['brk'] = lambda s3: exits_.append(s3); K2['cont'] = lambda s3: ends.append(s3)
            ex.block(s.body, it, lambda s3: ends.append(s3), K2)
            bad = []
            for (v, nm, pred) in cands:
                for e_ in ends:
                    if v not in e_.env: continue
                    chk = e_.fork(); chk.pc.append(Not(pred(to_val(e_.env[v]))))
                    if ex.feasible(chk): bad.append((v, nm)); break
            if not bad: break
            del OBL[nobl:]; cands = [c for c in cands if (c[0], c[1]) not in bad]          # the obligations of a discarded round are re-generated
        else: raise Unsupported("loop invariant inference did not converge: " + ast.unparse(s.iter))
        for s3 in exits_: k(s3)
        out = st.fork(); havoc(out); return k(out)
    def h_for(ex, s, st, k, K):
        if not (isinstance(s.iter, ast.Call) and isinstance(s.iter.func, ast.Attribute) and s.iter.func.attr == 'split' and isinstance(s.target, ast.Name)): return h_for_generic(ex, s, st, k, K)
        it = st.fork(); it.env = dict(it.env); it.env['cls'] = fresh('cls'); it.env['name'] = fresh('name')
        ex.block(s.body, it, lambda s3: None, K)                       # arbitrary iteration (invariant: True)
        out = st.fork(); out.env = dict(out.env); out.env['cls'] = fresh('cls'); return k(out)
    MODNAME = fresh('modname')
    class Ex(Exec):
        def ev_Name(self, e, st, k, K):
            if e.id == '__name__' and e.id not in st.env: return k(st, MODNAME)
            return super().ev_Name(e, st, k, K)
        def ev_Subscript(self, e, st, k, K):
            if ast.unparse(e.value) == 'sys.modules':
                ok = st.fork(); k(ok, fresh('module'))
                f = st.fork(); setG(f, lookup_failed=BoolVal(True)); return K['exc'](f, new_exc(f, 'KeyError'))
            return super().ev_Subscript(e, st, k, K)
        def ev_Attribute(self, e, st, k, K):
            p = ast.unparse(e)
            if p in ('taskiq.exceptions.__name__',): return k(st, fresh('modname'))
            if p.startswith('exc.'): return k(st, st.heap.field(e.attr)[Val.a(to_val(st.env['exc']))])
            return super().ev_Attribute(e, st, k, K)
        def ev_Starred(self, e, st, k, K): return self.ev(e.value, st, k, K)
        def ev_Call(self, e, st, k, K):
            self.cur_env = st.env; return super().ev_Call(e, st, k, K)
        def ev_IfExp(self, e, st, k, K):
            return self.ev(e.test, st, lambda s, v: self.branch(s, truthy(v, s), lambda a: self.ev(e.body, a, k, K), lambda b: self.ev(e.orelse, b, k, K)), K)
        def find_handler(self, name, recv=None):
            if name == 'cls' or (name.isidentifier() and name in getattr(self, 'cur_env', {}) and name not in self.handlers): return h_dynamic          # a local variable is called: dynamic callee
            h = super().find_handler(name, recv)
            if h is None:
                self.unmodelled.add(name)
                def opaque_call(ex_, st_, e, r, a, kw, k, K):
                    approx(st_, f"call of {name} on the load path has no contract (modelled as: returns anything, may raise any Exception)")
                    ok = st_.fork(); k(ok, fresh('unmodelled')); f = st_.fork(); K['exc'](f, raise_any(f, 'Exception'))
                return opaque_call
            return h
        def assign(self, tgt, v, st, k, K):
            if isinstance(tgt, ast.Attribute) and ast.unparse(tgt.value) == 'exception': return k(st)     # setting __cause__ etc. on the new exception
            return super().assign(tgt, v, st, k, K)
    ex = Ex({'isinstance': h_isinstance, 'issubclass': h_issubclass, 'get_pickled_exception': h_get_pickled, 'create_exception_cls': h_create_cls, 'getattr': h_getattr,
             'exc_type.split': h_split, 'taskiq.exceptions.SecurityError': h_security, 'Exception': h_Exception, 'exception_to_python': h_recursive, '@for': h_for})
    ex.inline_scope = (src, REL, None)          # helpers of the same file without a contract are executed with their real body at the call site
    st = State(); exc = fresh('exc'); st.env = {'exc': exc, '__name__': fresh('modname')}; st.ghost = dict(lookup_failed=BoolVal(False), synthetic=Val.none, synth_name=Val.none)
    st.pc.append(Or(exc == Val.none, is_exc_inst(exc), And(Val.is_ref(exc), Not(is_exc_inst(exc)))))      # None | BaseException | ExceptionRepr
    exits = collections.Counter()
    def on_ret(s, v):
        exits['return'] += 1; vv = to_val(v)
        oblige(s, "exception_to_python/post: the result is None or an exception instance  [C20]", Or(vv == Val.none, is_exc_inst(vv)))
        if exits['return'] <= 3: reach(s, f"exception_to_python/reach@return#{exits['return']}")
    def on_exc(s, x):
        exits['raise'] += 1
        oblige(s, "exception_to_python/raises: an unresolvable type never ends in an error - it yields the synthetic class  [C20]",
               Implies(CLS.sub_expr(s.heap.cls_of[Val.a(x)], 'SecurityError'), Or(s.ghost.get('from_recursion', BoolVal(False)), Not(Or(s.ghost['lookup_failed'], s.heap.field('exc_module')[Val.a(exc)] == Val.none)))))
        oblige(s, "exception_to_python/raises: loading fails only with SecurityError (a constructor that rejects its stored arguments yields the generic stand-in), or a non-Exception BaseException from a user constructor  [C19/C20]", Or(CLS.sub_expr(s.heap.cls_of[Val.a(x)], 'SecurityError'), Not(CLS.sub_expr(s.heap.cls_of[Val.a(x)], 'Exception'))))
    ex.run(fdef, st, on_ret, on_exc)
    src.note_paths('::exception_to_python', sum(exits.values()))
    # ---------------- create_exception_cls / subclass_exception: the result is a new class derived from an Exception subclass
    made = []; class_name = Function('class___name__', Val, Val)
    def h_type3(ex_, st_, e, recv, args, kw, k, K):
        if len(args) != 3 or not isinstance(args[1], PyTuple) or len(args[1].items) != 1: raise Unsupported("type(...) call shape in subclass_exception")
        c = fresh('new_class'); parent = to_val(args[1].items[0]); st_.pc += [is_type(c), Implies(is_exc_cls(parent), is_exc_cls(c)), class_name(c) == to_val(args[0])]; made.append((c, parent)); return k(st_, c)
    EXC = fresh('Exception_class')
    class ExC(Exec):
        def ev_Name(self, e, st_, k, K):
            if e.id == 'Exception' and e.id not in st_.env: return k(st_, EXC)
            return super().ev_Name(e, st_, k, K)
        def ev_Dict(self, e, st_, k, K): return k(st_, fresh('namespace'))
    def h_subclass(ex_, st_, e, recv, args, kw, k, K): return ex_.call_inline(SUB, args, st_, k, K)
    exc_ = ExC({'type': h_type3, 'subclass_exception': h_subclass})
    parent_in = fresh('parent'); stc = State(); stc.env = {'name': fresh('name'), 'module': fresh('module'), 'parent': parent_in}
    stc.pc += [is_exc_cls(EXC), is_type(EXC), Or(parent_in == Val.none, And(is_type(parent_in), is_exc_cls(parent_in)))]
    def c_ret(s, v):
        oblige(s, "create_exception_cls/post: returns a class that is a BaseException subclass (derived from Exception or the given exception parent)  [C20]", And(is_type(to_val(v)), is_exc_cls(to_val(v))))
        oblige(s, "create_exception_cls/post: the synthetic class carries exactly the requested name (the stored type name, dotted or not)  [C20]", class_name(to_val(v)) == to_val(stc.env['name']))
        reach(s, "create_exception_cls/reach@return")
    exc_.run(CEC, stc, c_ret, lambda s, x: oblige(s, "create_exception_cls/raises: nothing  [C20]", BoolVal(False)))
    # ---------------- restore(): the dynamic call create_exception_cls(...)(*args) has an exception class as its callee
    def h_cec(ex_, st_, e, recv, args, kw, k, K): c = fresh('synthetic_cls'); st_.pc += [is_type(c), is_exc_cls(c)]; return k(st_, c)        # contract proved above
    class ExR(Exec):
        def ev_Call(self, e, st_, k, K):
            if isinstance(e.func, ast.Call):           # <expr>(...)(*args): dynamic callee
                def got(s2, callee):
                    c = to_val(callee)
                    oblige(s2, "restore/call-target@create_exception_cls(...)(*self.exc_args): the callee is a class and a BaseException subclass  [C20]", And(is_type(c), is_exc_cls(c)))
                    ok = s2.fork(); r = fresh('inst'); ok.pc.append(is_exc_inst(r)); k(ok, r)
                    f = s2.fork(); K['exc'](f, raise_any(f, 'BaseException'))
                return self.ev(e.func, st_, got, K)
            return super().ev_Call(e, st_, k, K)
        def ev_Attribute(self, e, st_, k, K): return k(st_, fresh(ast.unparse(e).replace('.', '_')))
    exr = ExR({'create_exception_cls': h_cec})
    str_ = State(); str_.env = {'self': fresh('wrapper')}
    exr.run(RESTORE, str_, lambda s, v: (oblige(s, "restore/post: returns an exception instance  [C20]", is_exc_inst(to_val(v))), reach(s, "restore/reach@return")), lambda s, x: None)
    # ---------------- get_pickled_exception: restores wrappers, returns everything else unchanged
    is_wrapper = Function('is_wrapper', Val, BoolSort())
    def h_isinst2(ex_, st_, e, recv, args, kw, k, K):
        if ast.unparse(e.args[1]) != '_UnpickleableExceptionWrapper': raise Unsupported("isinstance in get_pickled_exception")
        return k(st_, PyBool(is_wrapper(to_val(args[0]))))
    def h_restore(ex_, st_, e, recv, args, kw, k, K):
        ok = st_.fork(); r = fresh('restored'); ok.pc.append(is_exc_inst(r)); k(ok, r)           # contract of restore() proved above
        f = st_.fork(); K['exc'](f, raise_any(f, 'BaseException'))
    exg = Exec({'isinstance': h_isinst2, 'exc.restore': h_restore})
    ein = fresh('exc_in'); stg = State(); stg.env = {'exc': ein}; stg.pc.append(is_exc_inst(ein))
    exg.run(GPE, stg, lambda s, v: (oblige(s, "get_pickled_exception/post: returns an exception instance (the restored one for a wrapper, the argument otherwise)  [C20]",
                                           And(is_exc_inst(to_val(v)), Implies(Not(is_wrapper(ein)), to_val(v) == ein))), reach(s, "get_pickled_exception/reach@return")), lambda s, x: None)
    # ---------------- syntactic frame over the load path (transitive over the repo functions it calls)
    BANNED_CALLS = ('__import__', 'importlib.import_module', 'import_module', 'eval', 'exec', 'compile', 'import_object', 'pydoc.locate', 'locate')
    def banned(fd): return [ast.unparse(n)[:60] for n in ast.walk(fd) if isinstance(n, (ast.Import, ast.ImportFrom)) or (isinstance(n, ast.Call) and ast.unparse(n.func) in BANNED_CALLS)]
    load_path = {'exception_to_python': fdef, 'get_pickled_exception': GPE, 'restore': RESTORE, 'create_exception_cls': CEC, 'subclass_exception': SUB}
    module_funcs = {n_.name: n_ for n_ in ast.walk(src.tree(REL)) if isinstance(n_, (ast.FunctionDef, ast.AsyncFunctionDef))}
    changed = True
    while changed:          # helpers of the same file that the load path calls belong to the load path (transitively): their bodies are scanned as well
        changed = False
        for fd in list(load_path.values()):
            for n_ in ast.walk(fd):
                if isinstance(n_, ast.Call) and isinstance(n_.func, ast.Name) and n_.func.id in module_funcs and n_.func.id not in load_path:
                    load_path[n_.func.id] = module_funcs[n_.func.id]; changed = True
    dyn_names = sorted({c.split('(')[0] for c in dyn_calls})
    callees = sorted({ast.unparse(n.func) for fd in load_path.values() for n in ast.walk(fd) if isinstance(n, ast.Call)})
    known = set(load_path) | {'isinstance', 'issubclass', 'get_pickled_exception', 'create_exception_cls', 'subclass_exception', 'getattr', 'exc_type.split', 'taskiq.exceptions.SecurityError', 'Exception', 'exception_to_python',
             'cls', 'exc.restore', 'type', 'getmro', 'inspect.getmro', 'takewhile', 'itertools.takewhile', 'tuple', 'list', 'len', 'str', 'repr', 'reversed', 'iter', 'next', 'BaseException.__setattr__',          # pure builtins (the base class's own attribute setter: a field store, runs no user code) / stdlib helpers
             *dyn_names,          # local variables that are called: each such site carries a proved call-target obligation (h_dynamic)
             'create_exception_cls(self.exc_cls_name, self.exc_module)', 'validate_call', 'pydantic.ConfigDict'}          # the last two: the @validate_call decorator (TRUSTED)
    callees = [c for c in callees if not re.match(r"^(logger|logging|log|_?LOGGER)\.\w+$", c)]          # logging calls: no-ops for this property
    sf = State()
    oblige(sf, "load path/frame: no import statement, __import__, importlib, eval, exec or compile anywhere on the load path  [C20]", BoolVal(not any(banned(fd) for fd in load_path.values())), witness={})
    sfu = State()
    if not set(callees) <= known: approx(sfu, "callees without a contract on the load path: " + ", ".join(sorted(set(callees) - known))[:300])          # not provably harmless, not provably harmful: undecided, the native gate driver decides
    oblige(sfu, "load path/frame: every callee on the load path is accounted for (gate-protected dynamic call, repo function under contract, or a pure builtin)  [C20]", BoolVal(set(callees) <= known))
    subs = [ast.unparse(n) for fd_ in load_path.values() for n in ast.walk(fd_) if isinstance(n, ast.Subscript) and isinstance(n.value, ast.Attribute) and ast.unparse(n.value).startswith('sys.')]
    oblige(sf, "load path/frame: modules are only looked up in sys.modules (never loaded)  [C20]", BoolVal(all(s_.startswith('sys.modules[') for s_ in subs) and len(subs) >= 1))
    return {'exits': dict(exits), 'dynamic_call_sites': sorted(set(dyn_calls)), 'load_path_callees': callees}
