"""
Demo for property C09 (negative control, change K2).

C09: labels of type int, float, bool, str and bytes set on the task or on a
kicker arrive at the worker - in the message seen by middlewares, in Context
and in the stored result - with identical value and type, on first delivery
and on every retry or requeue.  Labels, task id or broker overrides applied
through a kicker affect only that one send.

Scenarios (all deterministic, InMemoryBroker with await_inplace=True):

  S1  round trip through every bundled serializer and the JSON formatter;
      the task requeues itself twice and fails twice (retried by
      SimpleRetryMiddleware), labels are checked on all five deliveries in
      pre_execute / post_execute / on_error / post_save middlewares, in
      Context, in the result handed to post_save and in the stored result;
  S2  FAULT: the broker refuses the message while the task requeues itself
      (transient broker failure in Context.requeue); the failed attempt is
      retried by the retry middleware and requeued again - labels must
      still be intact on every delivery that does happen, and nothing may
      leak into the declared labels;
  S3  FAULT: the broker refuses the very first send (kiq raises
      SendTaskError); the next send of the same task is unaffected;
  S6  retries by kind of error: when SimpleRetryMiddleware supports the
      `types_of_exceptions` filter it is switched on (ValueError is retried,
      KeyError is not), otherwise every error is retried; labels are checked
      on every delivery that happens and in the stored (error) result; also
      subclasses / empty filter / invalid filter;
  S7  retries exhausted (max_retries overridden per call) and retries
      switched off per call: the stored error result carries the labels,
      the overrides do not leak into the declaration or the next send;
  S4  isolation: a seeded random history of kicker() / with_labels() /
      with_task_id() / with_broker() / kiq() calls on one task; every send
      carries exactly declared + its own labels, its own task id, goes to
      its own broker, and the declared labels never change;
  S4b the same for a shared task (AsyncSharedBroker with a default broker);
  S5  pure functions: prepare_label / parse_label round trip on a wide grid
      of values (and prepare_labels, when the helper exists).

Exit code 0: property holds.  Exit code 1: property violated.
"""
import asyncio
import inspect
import logging
import math
import random
import sys
from typing import Any, Callable, Dict, List, Optional, Tuple

from taskiq import (
    Context,
    InMemoryBroker,
    SimpleRetryMiddleware,
    TaskiqDepends,
    TaskiqMiddleware,
)
from taskiq import labels as labels_module
from taskiq.brokers.shared_broker import AsyncSharedBroker
from taskiq.exceptions import SendTaskError
from taskiq.formatters.json_formatter import JSONFormatter
from taskiq.labels import parse_label, prepare_label
from taskiq.serializers import (
    CBORSerializer,
    JSONSerializer,
    MSGPackSerializer,
    ORJSONSerializer,
    PickleSerializer,
)

logging.disable(logging.CRITICAL)  # failing tasks are expected to be noisy

problems: List[str] = []
SKIPPED: List[str] = []

DECLARED: Dict[str, Any] = {
    "queue": "",
    "attempts": 0,
    "retry_on_error": True,
    "max_retries": 7,
    "ratio": 0.5,
    "secret": b"\x00declared\xff",
}
CUSTOM: Dict[str, Any] = {
    "zero_f": 0.0,
    "neg_zero": -0.0,
    "nan": float("nan"),
    "inf": float("inf"),
    "ninf": float("-inf"),
    "tiny": 5e-324,
    "big_f": 1.7976931348623157e308,
    "third": 1 / 3,
    "off": False,
    "on": True,
    "zero": 0,
    "one": 1,
    "huge": 2**4000,
    "neg_huge": -(2**200) - 1,
    "uni": "é中\U0001f600 \x00 ‮﻿",
    "empty": "",
    "looks_bool": "true",
    "looks_int": "007",
    "looks_float": "1e3",
    "raw": b"\xff\xfe\x00",
    "empty_blob": b"",
    "ascii_blob": b"plain",
}
# Bookkeeping labels added by requeue / retry / scheduler themselves.
INTERNAL = ("X-Taskiq-requeue", "_retries")


def same_value(left: Any, right: Any) -> bool:
    """Identical type and identical value (nan == nan, 0.0 != -0.0)."""
    if type(left) is not type(right):
        return False
    if isinstance(left, float):
        if math.isnan(left) or math.isnan(right):
            return math.isnan(left) and math.isnan(right)
        return left == right and math.copysign(1, left) == math.copysign(1, right)
    return bool(left == right)


def check(where: str, got: Dict[str, Any], expected: Dict[str, Any]) -> None:
    got = {k: v for k, v in got.items() if k not in INTERNAL}
    if set(got) != set(expected):
        problems.append(f"{where}: label names {sorted(got)} != {sorted(expected)}")
        return
    for name, value in expected.items():
        if not same_value(value, got[name]):
            problems.append(
                f"{where}: label {name!r} sent as {value!r} ({type(value).__name__}) "
                f"arrived as {got[name]!r} ({type(got[name]).__name__})",
            )


def expect(cond: bool, text: str) -> None:
    if not cond:
        problems.append(text)


class Recorder(TaskiqMiddleware):
    """Records the labels seen by every worker-side hook."""

    def __init__(self) -> None:
        super().__init__()
        self.seen: List[Tuple[str, str, Dict[str, Any]]] = []
        self.open_deliveries: List[Any] = []  # deliveries nest with await_inplace

    def pre_execute(self, message: Any) -> Any:
        self.seen.append(("pre_execute", message.task_id, dict(message.labels)))
        self.open_deliveries.append(message.labels.get("_retries"))
        return message

    def post_execute(self, message: Any, result: Any) -> None:
        # The retry counter of THIS delivery must not be bumped by the code
        # that prepares the NEXT attempt (the retry kicker works on a copy).
        at_start = self.open_deliveries.pop()
        for now in (message.labels.get("_retries"), result.labels.get("_retries")):
            expect(
                type(now) is type(at_start) and now == at_start,
                f"_retries of one delivery changed from {at_start!r} to {now!r}",
            )
        self.seen.append(("post_execute", message.task_id, dict(message.labels)))
        self.seen.append(("post_execute/result", message.task_id, dict(result.labels)))

    def on_error(self, message: Any, result: Any, exception: BaseException) -> None:
        self.seen.append(("on_error", message.task_id, dict(message.labels)))
        self.seen.append(("on_error/result", message.task_id, dict(result.labels)))

    def post_save(self, message: Any, result: Any) -> None:
        self.seen.append(("post_save", message.task_id, dict(message.labels)))
        self.seen.append(("post_save/result", message.task_id, dict(result.labels)))


class FlakyBroker(InMemoryBroker):
    """InMemoryBroker whose kick() fails on selected calls (1-based)."""

    def __init__(self, fail_on: Tuple[int, ...] = (), **kwargs: Any) -> None:
        super().__init__(**kwargs)
        self.fail_on = set(fail_on)
        self.kicks = 0
        self.accepted: List[Any] = []

    async def kick(self, message: Any) -> None:
        self.kicks += 1
        if self.kicks in self.fail_on:
            raise ConnectionError(f"broker is down (kick #{self.kicks})")
        self.accepted.append(message)
        await super().kick(message)


def variants() -> Dict[str, Callable[..., InMemoryBroker]]:
    def make(configure: Callable[[InMemoryBroker], Any]) -> Callable[..., InMemoryBroker]:
        def factory(fail_on: Tuple[int, ...] = ()) -> InMemoryBroker:
            broker = FlakyBroker(fail_on=fail_on, await_inplace=True)
            configure(broker)
            return broker

        return factory

    return {
        "json": make(lambda b: b.with_serializer(JSONSerializer())),
        "orjson": make(lambda b: b.with_serializer(ORJSONSerializer())),
        "msgpack": make(lambda b: b.with_serializer(MSGPackSerializer())),
        "cbor": make(lambda b: b.with_serializer(CBORSerializer())),
        "pickle": make(lambda b: b.with_serializer(PickleSerializer())),
        "json_formatter": make(lambda b: b.with_formatter(JSONFormatter())),
        "default": make(lambda b: None),
    }


async def lifecycle(
    name: str,
    broker: InMemoryBroker,
    plan: List[str],
    expected_deliveries: int,
    first_send_fails: bool = False,
    retry_kwargs: Optional[Dict[str, Any]] = None,
    custom: Optional[Dict[str, Any]] = None,
    final_error: Optional[type] = None,
) -> None:
    """
    Run one task through the plan.

    plan[i] is what delivery number i does: "requeue", "fail" (ValueError),
    "fatal" (KeyError) or "ok".
    """
    recorder = Recorder()
    retry = SimpleRetryMiddleware(no_result_on_retry=True, **(retry_kwargs or {}))
    broker.add_middlewares(recorder, retry)
    in_context: List[Dict[str, Any]] = []
    custom = CUSTOM if custom is None else custom
    expected = {**DECLARED, **custom}

    @broker.task(task_name=f"demo_{name}", **DECLARED)
    async def job(ctx: Context = TaskiqDepends()) -> int:
        in_context.append(dict(ctx.message.labels))
        action = plan[len(in_context) - 1]
        if action == "requeue":
            await ctx.requeue()
        if action == "fail":
            raise ValueError("fail, to be retried")
        if action == "fatal":
            raise KeyError("fail with another kind of error")
        return len(in_context)

    if first_send_fails:
        try:
            await job.kicker().with_labels(**custom).with_task_id("lost").kiq()
        except SendTaskError:
            pass
        else:
            problems.append(f"{name}: refused send did not raise SendTaskError")
        expect(not in_context, f"{name}: refused send was delivered anyway")
        expect(job.labels == DECLARED, f"{name}: declared labels altered by failed send")

    task = await job.kicker().with_labels(**custom).with_task_id("the-id").kiq()
    result = await task.wait_result(timeout=5)

    expect(
        len(in_context) == expected_deliveries,
        f"{name}: expected {expected_deliveries} deliveries, got {len(in_context)}",
    )
    if final_error is None:
        expect(
            not result.is_err and result.return_value == expected_deliveries,
            f"{name}: unexpected final result {result!r}",
        )
    else:
        expect(
            result.is_err and type(result.error) is final_error,
            f"{name}: expected a stored {final_error.__name__}, got {result!r}",
        )
    for hook, task_id, labels in recorder.seen:
        check(f"{name} / {hook} middleware", labels, expected)
        expect(task_id == "the-id", f"{name} / {hook}: task id {task_id!r}")
    hooks = [hook for hook, _, _ in recorder.seen]
    expect(hooks.count("pre_execute") == expected_deliveries, f"{name}: {hooks}")
    expect(hooks.count("post_save") >= 1, f"{name}: result never saved: {hooks}")
    for number, labels in enumerate(in_context, 1):
        check(f"{name} / delivery {number} / Context", labels, expected)
    check(f"{name} / stored result", result.labels, expected)
    stored = await broker.result_backend.get_result("the-id")
    check(f"{name} / result backend", stored.labels, expected)
    # Nothing leaked into the declaration, and a later plain send is clean.
    expect(job.labels == DECLARED, f"{name}: declared labels altered: {job.labels!r}")
    for key, value in DECLARED.items():
        expect(same_value(job.labels[key], value), f"{name}: declared {key!r} changed")
    plan.append("ok")
    plain = await job.kiq()
    plain_result = await plain.wait_result(timeout=5)
    check(f"{name} / later plain send / Context", in_context[-1], DECLARED)
    check(f"{name} / later plain send / result", plain_result.labels, DECLARED)
    expect(plain.task_id != "the-id", f"{name}: custom task id leaked to next send")


def available() -> Dict[str, Callable[..., InMemoryBroker]]:
    usable = {}
    for name, factory in variants().items():
        try:
            factory()
        except ImportError as exc:  # optional dependency is not installed
            if name not in SKIPPED:
                SKIPPED.append(name)
                print(f"(skipping {name}: {exc})")
            continue
        usable[name] = factory
    return usable


async def scenario_round_trip() -> None:
    for name, factory in available().items():
        plan = ["requeue", "fail", "requeue", "fail", "ok"]
        await lifecycle(f"S1_{name}", factory(), plan, expected_deliveries=5)


async def scenario_requeue_fault() -> None:
    # kick #1: kiq.  Delivery 1 requeues -> kick #2 is REFUSED by the broker,
    # so delivery 1 ends with an error; the retry middleware re-sends it
    # (kick #3).  Delivery 2 requeues (kick #4 accepted), delivery 3 requeues
    # but kick #5 is refused again -> retried (kick #6) -> delivery 4 is ok.
    for name, factory in available().items():
        plan = ["requeue", "requeue", "requeue", "ok"]
        broker = factory(fail_on=(2, 5))
        await lifecycle(f"S2_{name}", broker, plan, expected_deliveries=4)
        expect(broker.kicks == 7, f"S2_{name}: {broker.kicks} kicks")  # + plain send


async def scenario_first_send_fault() -> None:
    for name, factory in available().items():
        plan = ["fail", "ok"]
        await lifecycle(
            f"S3_{name}",
            factory(fail_on=(1,)),
            plan,
            expected_deliveries=2,
            first_send_fails=True,
        )


def random_label(rng: random.Random) -> Any:
    kind = rng.randrange(5)
    if kind == 0:
        return rng.choice([0, 1, -1, 2**63, -(2**64), rng.randrange(-(10**30), 10**30)])
    if kind == 1:
        return rng.choice(
            [0.0, -0.0, float("nan"), float("inf"), float("-inf"), rng.uniform(-1e9, 1e9)],
        )
    if kind == 2:
        return rng.choice([True, False])
    if kind == 3:
        size = rng.randrange(0, 6)
        return "".join(chr(rng.choice([0, 0x41, 0xE9, 0x4E2D, 0x1F600])) for _ in range(size))
    return bytes(rng.randrange(256) for _ in range(rng.randrange(0, 6)))


def retry_supports_exception_filter() -> bool:
    parameters = inspect.signature(SimpleRetryMiddleware.__init__).parameters
    return "types_of_exceptions" in parameters


async def scenario_retry_by_kind() -> None:
    """
    Two ValueErrors, then a KeyError.

    A retry middleware that is able to filter by exception type is told to
    retry ValueError only: the KeyError ends the task, its (error) result is
    stored after 3 deliveries.  Without the filter every error is retried and
    the 4th delivery succeeds.  Either way every delivery that happens and the
    stored result carry the labels unchanged.
    """
    filtered = retry_supports_exception_filter()
    for name, factory in available().items():
        plan = ["fail", "requeue", "fail", "fatal", "ok"]
        await lifecycle(
            f"S6_{name}",
            factory(),
            plan,
            expected_deliveries=4 if filtered else 5,
            retry_kwargs={"types_of_exceptions": [ValueError]} if filtered else {},
            final_error=KeyError if filtered else None,
        )
    if filtered:
        # Base classes match subclasses; an empty filter retries nothing.
        plan = ["fail", "fatal", "ok"]
        await lifecycle(
            "S6_base_class",
            available()["pickle"](),
            plan,
            expected_deliveries=3,
            retry_kwargs={"types_of_exceptions": (ArithmeticError, LookupError, ValueError)},
        )
        await lifecycle(
            "S6_empty_filter",
            available()["json"](),
            ["fail", "ok"],
            expected_deliveries=1,
            retry_kwargs={"types_of_exceptions": ()},
            final_error=ValueError,
        )
        for bad in ([1], ["ValueError"], [ValueError("instance")], [int]):
            try:
                SimpleRetryMiddleware(types_of_exceptions=bad)
            except TypeError:
                pass
            else:
                problems.append(f"S6: invalid filter {bad!r} was accepted")


async def scenario_retries_exhausted() -> None:
    """max_retries overridden per call; the last failure is stored with its labels."""
    for name, factory in available().items():
        custom = {**CUSTOM, "max_retries": 3, "retry_on_error": True}
        await lifecycle(
            f"S7_{name}",
            factory(),
            ["fail", "fail", "fail", "ok"],
            expected_deliveries=3,
            custom=custom,
            final_error=ValueError,
        )
        # per-call retry_on_error=False switches retries off for that send only
        custom = {**CUSTOM, "retry_on_error": False}
        await lifecycle(
            f"S7_off_{name}",
            factory(),
            ["fail", "ok"],
            expected_deliveries=1,
            custom=custom,
            final_error=ValueError,
        )


async def scenario_isolation() -> None:
    rng = random.Random(9)
    home = InMemoryBroker(await_inplace=True)
    other = InMemoryBroker(await_inplace=True).with_serializer(PickleSerializer())
    declared = {"queue": "main", "prio": 3, "flag": False, "w": 2.5, "blob": b"\x01"}
    snapshot = dict(declared)
    seen: Dict[str, List[Tuple[str, Dict[str, Any]]]] = {"home": [], "other": []}

    def make_task(broker: InMemoryBroker, where: str) -> Any:
        @broker.task(task_name="iso", **declared)
        async def iso(ctx: Context = TaskiqDepends()) -> str:
            seen[where].append((ctx.message.task_id, dict(ctx.message.labels)))
            return where

        return iso

    task = make_task(home, "home")
    make_task(other, "other")

    names = ["queue", "prio", "flag", "extra", "k1", "k2"]
    # Some kickers are created up-front and used later, interleaved with others.
    parked = [task.kicker().with_labels(parked=index) for index in range(3)]
    for step in range(60):
        own: Dict[str, Any] = {}
        kicker = task.kicker()
        if parked and rng.random() < 0.1:
            kicker = parked.pop()
            own["parked"] = len(parked)
        for _ in range(rng.randrange(0, 4)):
            update = {rng.choice(names): random_label(rng) for _ in range(rng.randrange(1, 3))}
            kicker = kicker.with_labels(**update)
            own.update(update)
        custom_id: Optional[str] = None
        if rng.random() < 0.5:
            custom_id = f"custom-{step}"
            kicker = kicker.with_task_id(custom_id)
        where = "home"
        if rng.random() < 0.3:
            where = "other"
            kicker = kicker.with_broker(other)
        before = {key: len(val) for key, val in seen.items()}
        sent = await kicker.kiq()
        result = await sent.wait_result(timeout=5)
        for key in seen:
            grew = len(seen[key]) - before[key]
            expect(grew == (1 if key == where else 0), f"S4 step {step}: {key} got {grew}")
        got_id, got_labels = seen[where][-1]
        expected = {**snapshot, **own}
        check(f"S4 step {step} / Context", got_labels, expected)
        check(f"S4 step {step} / result", result.labels, expected)
        expect(result.return_value == where, f"S4 step {step}: ran on wrong broker")
        expect(got_id == sent.task_id, f"S4 step {step}: task id mismatch")
        if custom_id is not None:
            expect(got_id == custom_id, f"S4 step {step}: id {got_id!r} != {custom_id!r}")
        else:
            expect(not got_id.startswith("custom-"), f"S4 step {step}: id leaked: {got_id}")
        expect(task.labels == snapshot, f"S4 step {step}: declared labels: {task.labels!r}")
        expect(task.broker is home, f"S4 step {step}: task broker was replaced")
        for key, value in snapshot.items():
            expect(same_value(task.labels[key], value), f"S4 step {step}: {key!r} changed")
    ids = [task_id for entries in seen.values() for task_id, _ in entries]
    expect(len(ids) == len(set(ids)) == 60, "S4: task ids are not unique per send")


async def scenario_shared_task() -> None:
    home = InMemoryBroker(await_inplace=True)
    shared = AsyncSharedBroker()
    shared.default_broker(home)
    declared = {"queue": "shared", "prio": 1, "flag": True, "w": -0.0, "blob": b""}
    seen: List[Tuple[str, Dict[str, Any]]] = []

    @shared.task(task_name="demo_shared_task", **declared)
    async def shared_job(ctx: Context = TaskiqDepends()) -> int:
        seen.append((ctx.message.task_id, dict(ctx.message.labels)))
        return len(seen)

    history = [
        ({"prio": 10, "extra": b"\xff"}, "shared-1"),
        ({}, None),
        ({"flag": False, "w": float("nan")}, None),
        ({}, "shared-2"),
        ({}, None),
    ]
    for step, (own, custom_id) in enumerate(history):
        kicker = shared_job.kicker().with_labels(**own)
        if custom_id is not None:
            kicker = kicker.with_task_id(custom_id)
        sent = await kicker.kiq() if own or custom_id else await shared_job.kiq()
        result = await sent.wait_result(timeout=5)
        expect(len(seen) == step + 1, f"S4b step {step}: not delivered exactly once")
        got_id, got_labels = seen[-1]
        check(f"S4b step {step} / Context", got_labels, {**declared, **own})
        check(f"S4b step {step} / result", result.labels, {**declared, **own})
        expect(got_id == sent.task_id, f"S4b step {step}: task id mismatch")
        expect(custom_id in (None, got_id), f"S4b step {step}: custom id not used")
        expect(custom_id is not None or not got_id.startswith("shared-"), "S4b: id leaked")
        check(f"S4b step {step} / declared labels", shared_job.labels, declared)


def scenario_pure() -> None:
    grid: List[Any] = list(DECLARED.values()) + list(CUSTOM.values())
    grid += [2**63 - 1, -(2**63), 10**4299, -(10**4298), 1e-310, 123456789.123456789]
    grid += ["True", "False", "none", " ", "\n", "\U0010ffff", "a" * 10000]
    grid += [bytes(range(256)), b"\x80", b"=", b"===="]
    rng = random.Random(99)
    grid += [random_label(rng) for _ in range(500)]
    for value in grid:
        prepared, type_code = prepare_label(value)
        expect(type(prepared) is str, f"S5: prepared {value!r} is not str")
        back = parse_label(prepared, type_code)
        expect(same_value(back, value), f"S5: {value!r} came back as {back!r}")
    helper = getattr(labels_module, "prepare_labels", None)
    if helper is not None:
        source = {f"l{index}": value for index, value in enumerate(grid)}
        frozen = dict(source)
        prepared_all, types_all = helper(source)
        expect(source == frozen or all(
            same_value(source[k], frozen[k]) for k in frozen
        ), "S5: prepare_labels modified its argument")
        expect(list(prepared_all) == list(source) == list(types_all), "S5: keys differ")
        for key, value in source.items():
            expect(
                (prepared_all[key], types_all[key]) == prepare_label(value),
                f"S5: prepare_labels differs from prepare_label for {value!r}",
            )


async def main() -> int:
    scenarios = [
        scenario_round_trip,
        scenario_requeue_fault,
        scenario_first_send_fault,
        scenario_retry_by_kind,
        scenario_retries_exhausted,
        scenario_isolation,
        scenario_shared_task,
    ]
    for scenario in scenarios:
        try:
            await scenario()
        except Exception as exc:  # a crash of a scenario is a failure too
            problems.append(f"{scenario.__name__} crashed: {exc!r} (cause {exc.__cause__!r})")
    scenario_pure()
    if problems:
        print(f"C09 VIOLATED ({len(problems)} problems):")
        for problem in problems[:40]:
            print("  -", problem[:300])
        return 1
    print("C09 holds: labels kept value and type on every delivery; no leaks.")
    return 0


if __name__ == "__main__":
    sys.exit(asyncio.run(main()))
