"""
C02 demo: acknowledgement happens exactly once and never before the configured point.

The script drives the real ``taskiq.receiver.Receiver`` and records a global trace of
observable events ``(tag, event)`` with events

    ack         the ack callback of delivery <tag> was CALLED (recorded on entry)
    start/end   the task function of delivery <tag> started / finished
                (returned, raised, or was cancelled by its timeout)
    save_begin/save_end
                the attempt to store the result of delivery <tag> began / completed

and then checks C02 on EVERY PREFIX of the trace (= a worker crash after every
observable event): in no prefix a delivery is acknowledged more than once or before the
point selected by the acknowledge type, and at the end of a run every delivery was
acknowledged exactly once.

Parts
  1. matrix over Receiver.callback: 3 ack types x sync/async ack callback x
     9 outcomes (return, exception, timeout, no-result, result-backend failure,
     post_save hook failure, post_execute hook failure, sync function return,
     sync function exception).  A failing post_execute hook aborts the processing
     of the message before the store attempt, so for that outcome the check is
     "at most once and not before the point" (under when_saved: never);
  2. the same with an ack callback that itself FAILS (sync raise / async raise):
     it must still be called exactly once, at the right point, and never retried;
  3. the whole Receiver.listen pipeline (prefetcher + runner) with 16 concurrent
     deliveries of mixed outcomes/durations, limited concurrency, per-delivery ack
     callbacks, for each ack type;
  4. configuration spellings: ack_type=None (default when_saved) and the string value
     of the enum behave like the enum member.

Exit code 0 = property holds on all runs, 1 = violation found.
"""

import asyncio
import logging
import sys
import time
from concurrent.futures import ThreadPoolExecutor
from typing import Any, AsyncGenerator, Dict, List, Optional, Tuple

from taskiq import AsyncBroker, BrokerMessage, TaskiqMiddleware
from taskiq.acks import AckableMessage, AcknowledgeType
from taskiq.brokers.inmemory_broker import InmemoryResultBackend
from taskiq.exceptions import NoResultError
from taskiq.message import TaskiqMessage
from taskiq.receiver import Receiver

logging.disable(logging.CRITICAL)

Trace = List[Tuple[int, str]]

OUTCOMES = [
    "return",
    "exception",
    "timeout",
    "no_result",
    "backend_failure",
    "post_save_failure",
    "post_execute_failure",
    "sync_return",
    "sync_exception",
]


class TracingBackend(InmemoryResultBackend):  # type: ignore[type-arg]
    """Result backend that records save attempts and fails for selected deliveries."""

    def __init__(self, trace: Trace, outcomes: Dict[int, str]) -> None:
        super().__init__()
        self.trace = trace
        self.outcomes = outcomes

    async def set_result(self, task_id: str, result: Any) -> None:
        tag = int(task_id.split("-")[1])
        self.trace.append((tag, "save_begin"))
        try:
            await asyncio.sleep(0)
            if self.outcomes[tag] == "backend_failure":
                raise ConnectionError("result backend is down")
            await super().set_result(task_id, result)
        finally:
            self.trace.append((tag, "save_end"))


class FailingPostSave(TaskiqMiddleware):
    """post_save / post_execute hooks that fail for selected deliveries."""

    def __init__(self, outcomes: Dict[int, str]) -> None:
        super().__init__()
        self.outcomes = outcomes

    async def post_execute(self, message: TaskiqMessage, result: Any) -> None:
        tag = int(message.task_id.split("-")[1])
        if self.outcomes[tag] == "post_execute_failure":
            raise RuntimeError("post_execute hook failed")

    async def post_save(self, message: TaskiqMessage, result: Any) -> None:
        if self.outcomes[int(message.task_id.split("-")[1])] == "post_save_failure":
            raise RuntimeError("post_save hook failed")


class TaggedBroker(AsyncBroker):
    """Broker that hands out prepared deliveries, each with its own ack callback."""

    def __init__(self, trace: Trace, outcomes: Dict[int, str], ack_fault: bool) -> None:
        super().__init__(None, None)
        self.trace = trace
        self.outcomes = outcomes
        self.ack_fault = ack_fault
        self.result_backend = TracingBackend(trace, outcomes)
        self.add_middlewares(FailingPostSave(outcomes))
        self.pending: "asyncio.Queue[AckableMessage]" = asyncio.Queue()
        trace_ = trace

        @self.task(task_name="aio_task")
        async def aio_task(tag: int, delay: float) -> int:
            trace_.append((tag, "start"))
            try:
                await asyncio.sleep(delay)
                outcome = outcomes[tag]
                if outcome == "exception":
                    raise ValueError("boom")
                if outcome == "no_result":
                    raise NoResultError
                if outcome == "timeout":
                    await asyncio.sleep(30)
                return tag
            finally:
                trace_.append((tag, "end"))

        @self.task(task_name="sync_task")
        def sync_task(tag: int, delay: float) -> int:
            trace_.append((tag, "start"))
            try:
                time.sleep(delay)
                if outcomes[tag] == "sync_exception":
                    raise ValueError("boom")
                return tag
            finally:
                trace_.append((tag, "end"))

    async def kick(self, message: BrokerMessage) -> None:  # pragma: no cover
        raise NotImplementedError

    def delivery(self, tag: int, delay: float, async_ack: bool) -> AckableMessage:
        outcome = self.outcomes[tag]
        data = self.formatter.dumps(
            TaskiqMessage(
                task_id=f"id-{tag}",
                task_name="sync_task" if outcome.startswith("sync_") else "aio_task",
                labels={"timeout": 0.05} if outcome == "timeout" else {},
                args=[tag, delay],
                kwargs={},
            ),
        ).message

        def sync_ack() -> None:
            self.trace.append((tag, "ack"))
            if self.ack_fault:
                raise ConnectionError("channel closed")

        async def aio_ack() -> None:
            self.trace.append((tag, "ack"))
            await asyncio.sleep(0)
            if self.ack_fault:
                raise ConnectionError("channel closed")

        return AckableMessage(data=data, ack=aio_ack if async_ack else sync_ack)

    async def listen(self) -> AsyncGenerator[AckableMessage, None]:
        while True:
            yield await self.pending.get()


class CountingReceiver(Receiver):
    """Receiver that counts finished callbacks (only to know when a run is over)."""

    finished = 0

    async def callback(self, message: Any, raise_err: bool = False) -> None:
        try:
            await super().callback(message, raise_err)
        finally:
            self.finished += 1


def check(
    ack_type: AcknowledgeType,
    outcomes: Dict[int, str],
    trace: Trace,
    complete: bool = True,
) -> List[str]:
    """Check C02 on every prefix of the trace and the final exactly-once condition."""
    problems: List[str] = []
    seen: Dict[int, List[str]] = {tag: [] for tag in outcomes}
    for idx, (tag, event) in enumerate(trace):
        before = seen[tag]
        if event == "ack":
            where = f"delivery {tag} ({outcomes[tag]}), crash after event #{idx}"
            if "ack" in before:
                problems.append(f"{where}: acknowledged a second time")
            if ack_type == AcknowledgeType.WHEN_RECEIVED:
                if "start" in before:
                    problems.append(f"{where}: ack after the task function started")
            else:
                if "end" not in before:
                    problems.append(f"{where}: ack before the task function finished")
                if ack_type == AcknowledgeType.WHEN_SAVED:
                    if outcomes[tag] == "no_result":
                        if "save_begin" in before:
                            problems.append(f"{where}: no-result outcome was saved")
                    elif "save_end" not in before:
                        problems.append(
                            f"{where}: ack before the attempt to save completed",
                        )
        if (
            event == "start"
            and ack_type == AcknowledgeType.WHEN_RECEIVED
            and "ack" not in before
        ):
            problems.append(
                f"delivery {tag} ({outcomes[tag]}): task function started "
                "before the when_received ack",
            )
        before.append(event)
    if complete:
        for tag, events in seen.items():
            expected_once = outcomes[tag] != "post_execute_failure"
            if events.count("ack") != 1 and (expected_once or events.count("ack") > 1):
                problems.append(
                    f"delivery {tag} ({outcomes[tag]}): ack callback ran "
                    f"{events.count('ack')} times (expected exactly 1); "
                    f"events: {events}",
                )
    return problems


async def callback_run(
    ack_type: Optional[Any],
    async_ack: bool,
    outcome: str,
    ack_fault: bool,
) -> Trace:
    """Exactly what Receiver.runner does for one fetched message."""
    trace: Trace = []
    outcomes = {1: outcome}
    broker = TaggedBroker(trace, outcomes, ack_fault)
    with ThreadPoolExecutor(max_workers=2) as pool:
        receiver = Receiver(broker, executor=pool, max_async_tasks=10, ack_type=ack_type)
        try:
            await receiver.callback(
                message=broker.delivery(1, 0.0, async_ack),
                raise_err=False,
            )
        except Exception:  # noqa: BLE001, S110
            pass  # the runner's task would just end with this exception
    return trace


async def listen_run(ack_type: AcknowledgeType, ack_fault: bool) -> Tuple[Trace, Dict[int, str]]:
    """16 concurrent deliveries through prefetcher + runner."""
    trace: Trace = []
    outcomes = {tag: OUTCOMES[tag % len(OUTCOMES)] for tag in range(1, 17)}
    broker = TaggedBroker(trace, outcomes, ack_fault)
    for tag in outcomes:
        delay = 0.01 * ((tag * 7) % 5)
        broker.pending.put_nowait(broker.delivery(tag, delay, async_ack=tag % 2 == 0))
    stop = asyncio.Event()
    with ThreadPoolExecutor(max_workers=3) as pool:
        receiver = CountingReceiver(
            broker,
            executor=pool,
            max_async_tasks=4,
            max_prefetch=2,
            run_startup=False,
            ack_type=ack_type,
        )
        listener = asyncio.create_task(receiver.listen(stop))
        deadline = time.monotonic() + 20
        while time.monotonic() < deadline:
            if receiver.finished >= len(outcomes):
                break
            await asyncio.sleep(0.02)
        await asyncio.sleep(0.2)
        stop.set()
        await asyncio.wait_for(listener, timeout=20)
    return trace, outcomes


async def main() -> int:  # noqa: C901
    failures: List[str] = []
    runs = 0

    # Part 1 and 2: matrix over Receiver.callback, with and without failing ack.
    for ack_fault in (False, True):
        for ack_type in AcknowledgeType:
            for async_ack in (False, True):
                for outcome in OUTCOMES:
                    trace = await callback_run(ack_type, async_ack, outcome, ack_fault)
                    runs += 1
                    for problem in check(ack_type, {1: outcome}, trace):
                        failures.append(
                            f"callback ack_type={ack_type.value} "
                            f"ack={'async' if async_ack else 'sync'} "
                            f"ack_fault={ack_fault}: {problem}\n    trace: {trace}",
                        )

    # Part 3: whole pipeline with concurrent deliveries.
    for ack_fault in (False, True):
        for ack_type in AcknowledgeType:
            trace, outcomes = await listen_run(ack_type, ack_fault)
            runs += 1
            # With a failing when_received ack the message may stay unexecuted,
            # but it still must be acked exactly once.
            for problem in check(ack_type, outcomes, trace):
                failures.append(
                    f"listen ack_type={ack_type.value} ack_fault={ack_fault}: {problem}",
                )

    # Part 4: configuration spellings.
    for spelled, meant in (
        (None, AcknowledgeType.WHEN_SAVED),
        ("when_received", AcknowledgeType.WHEN_RECEIVED),
        ("when_executed", AcknowledgeType.WHEN_EXECUTED),
        ("when_saved", AcknowledgeType.WHEN_SAVED),
    ):
        for outcome in ("return", "exception", "no_result", "backend_failure"):
            trace = await callback_run(spelled, True, outcome, False)
            runs += 1
            for problem in check(meant, {1: outcome}, trace):
                failures.append(f"callback ack_type={spelled!r}: {problem}\n    trace: {trace}")

    # Informational only (outside of the property: not one of the three types).
    try:
        Receiver(TaggedBroker([], {}, False), max_async_tasks=1, ack_type="sometimes")  # type: ignore[arg-type]
        print("note: an unknown ack_type is accepted by Receiver()")
    except ValueError as exc:
        print(f"note: an unknown ack_type is rejected at start-up: {exc}")

    if failures:
        for failure in failures:
            print("C02 VIOLATION", failure)
        print(f"{len(failures)} violation(s) of C02 in {runs} runs.")
        return 1
    print(f"C02 holds on all {runs} runs (every trace prefix checked).")
    return 0


if __name__ == "__main__":
    sys.exit(asyncio.run(main()))
