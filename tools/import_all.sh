#!/bin/sh
# tools/import_all.sh [seed-source-root] [jobs]  (default /tmp/wt, 3): verify + test every seed found there and store it under seeded/.
# Each job uses its own scratch worktree of /repo (/tmp/wt/imp<k>, created here and removed at the end); /repo itself is never touched.
R=${1:-/tmp/wt}; J=${2:-3}; cd "$(dirname "$0")/.."
for k in $(seq 1 $J); do git -C /repo worktree remove --force /tmp/wt/imp$k 2>/dev/null; git -C /repo worktree add -q --detach /tmp/wt/imp$k HEAD; done
ls -d "$R"/C??_out/? | awk -v J=$J '{print (NR % J) + 1, $0}' > /tmp/wt/import_jobs.txt
for k in $(seq 1 $J); do
  ( grep "^$k " /tmp/wt/import_jobs.txt | cut -d" " -f2 | while read d; do
      id=$(basename "$(dirname "$d")" | sed 's/_out//')-$(basename "$d"); prop=$(echo "$id" | cut -c1-3)
      [ -f "$d/patch.diff" ] && SEED_WT=/tmp/wt/imp$k tools/import_seed.py "$d" "$id" "$prop" 2>&1 | tail -1 | cut -c1-200
    done ) &
done
wait
for k in $(seq 1 $J); do git -C /repo worktree remove --force /tmp/wt/imp$k; rm -f /tmp/wt/imp$k.demo_*.txt; done
echo ALLDONE
