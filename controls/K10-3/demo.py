"""
Demo for the send-side middleware hook property of AsyncKicker.kiq.

Run as:  PYTHONPATH=<tree> /venv/bin/python demo.py

Every history below sends messages through a recording broker and compares the
recorded trace of (event, middleware, task_id, labels-seen) with the trace the
documented behaviour prescribes: pre_send of every overriding middleware in
registration order (each seeing its predecessor's message), then the broker,
then post_send in registration order only if the send succeeded, a failed send
surfacing as SendTaskError - each hook once per message per registration.
"""
import asyncio
import gc
import sys
from typing import Any, AsyncGenerator, List

import taskiq
from taskiq import AsyncBroker, BrokerMessage, TaskiqMessage, TaskiqMiddleware
from taskiq.exceptions import SendTaskError
from taskiq.kicker import AsyncKicker

LOG: List[Any] = []
CHECKS = 0


class RecBroker(AsyncBroker):
    fail = False

    async def kick(self, message: BrokerMessage) -> None:
        if self.fail:
            LOG.append(("kick-fail", message.task_id))
            raise RuntimeError("boom")
        LOG.append(("kick", message.task_id, message.labels.get("chain", "")))

    async def listen(self) -> AsyncGenerator[BrokerMessage, None]:  # pragma: no cover
        return
        yield  # type: ignore


def _pre(self: Any, message: TaskiqMessage) -> TaskiqMessage:
    LOG.append(("pre", self.name, message.task_id, message.labels.get("chain", "")))
    message.labels["chain"] = message.labels.get("chain", "") + self.name
    return message


def _post(self: Any, message: TaskiqMessage) -> None:
    LOG.append(("post", self.name, message.task_id, message.labels.get("chain", "")))


class Named(TaskiqMiddleware):
    def __init__(self, name: str) -> None:
        super().__init__()
        self.name = name


class SyncBoth(Named):
    pre_send = _pre
    post_send = _post


class AsyncBoth(Named):
    async def pre_send(self, message: TaskiqMessage) -> TaskiqMessage:
        await asyncio.sleep(0)
        return _pre(self, message)

    async def post_send(self, message: TaskiqMessage) -> None:
        await asyncio.sleep(0)
        _post(self, message)


class PreOnly(Named):
    pre_send = _pre


class PostOnly(Named):
    post_send = _post


class Nothing(Named):
    pass


def expect(title: str, got: List[Any], want: List[Any]) -> None:
    global CHECKS
    CHECKS += 1
    if got != want:
        print(f"FAIL {title}\n   got : {got}\n   want: {want}")
        sys.exit(1)
    print(f"ok   {title}: {len(want)} events as documented")


def trace(tid: str, pres: str, posts: str, ok: bool = True) -> List[Any]:
    """Documented trace of one send: names are one letter each."""
    out: List[Any] = []
    seen = ""
    for name in pres:
        out.append(("pre", name, tid, seen))
        seen += name
    if not ok:
        return [*out, ("kick-fail", tid)]
    out.append(("kick", tid, seen))
    return out + [("post", name, tid, seen) for name in posts]


async def send(broker: AsyncBroker, tid: str, kicker: Any = None) -> List[Any]:
    del LOG[:]
    kicker = kicker or AsyncKicker("demo:task", broker, {})
    await kicker.with_task_id(tid).kiq(1, b=2)
    return list(LOG)


async def main() -> None:
    print("taskiq from", taskiq.__file__)
    a, b, c, d, e = SyncBoth("a"), AsyncBoth("b"), PreOnly("c"), PostOnly("d"), Nothing("e")
    broker = RecBroker().with_middlewares(a, e, b, c, d)

    # H1 repeated calls on an unchanged list (memo hits after the first).
    for n in range(3):
        expect(f"H1 repeat #{n} [a e b c d]", await send(broker, f"h1-{n}"),
               trace(f"h1-{n}", "abc", "abd"))

    # H2 failed send: SendTaskError, no post_send; next send is normal again.
    broker.fail = True
    del LOG[:]
    try:
        await AsyncKicker("demo:task", broker, {}).with_task_id("h2").kiq()
    except SendTaskError as exc:
        assert isinstance(exc.__cause__, RuntimeError)
    else:
        sys.exit("FAIL H2: no SendTaskError")
    expect("H2 failed send raises SendTaskError, no post_send", list(LOG),
           trace("h2", "abc", "", ok=False))
    broker.fail = False
    expect("H2 send after a failure", await send(broker, "h2b"), trace("h2b", "abc", "abd"))

    # H3 list changed between calls in every way.
    broker.middlewares.append(SyncBoth("f"))
    expect("H3 growth (append f)", await send(broker, "h3a"), trace("h3a", "abcf", "abdf"))
    broker.middlewares.reverse()
    expect("H3 reorder in place (reverse)", await send(broker, "h3b"), trace("h3b", "fcba", "fdba"))
    broker.middlewares[1] = PostOnly("g")  # same length, same slot, other object
    expect("H3 replacement in place (d -> g)", await send(broker, "h3c"), trace("h3c", "fcba", "fgba"))
    broker.middlewares = [b, a]  # re-assignment to a new list object
    expect("H3 re-assignment", await send(broker, "h3d"), trace("h3d", "ba", "ba"))
    broker.middlewares.pop()
    expect("H3 shrink", await send(broker, "h3e"), trace("h3e", "b", "b"))
    broker.middlewares.clear()
    expect("H3 empty", await send(broker, "h3f"), trace("h3f", "", ""))
    broker.middlewares.extend([a, a])  # one instance registered twice
    expect("H3 same instance twice runs once per registration", await send(broker, "h3g"),
           trace("h3g", "aa", "aa"))

    # H4 same names / same ids reused: replace the single middleware by a fresh
    # object of another class again and again, dropping the old one each time so
    # that CPython is free to hand out the same id.
    ids = set()
    reused = 0
    classes = [PreOnly, PostOnly, Nothing, SyncBoth]
    broker.middlewares = [PreOnly("x")]
    for n in range(40):
        cls = classes[n % 4]
        broker.middlewares[0] = None  # type: ignore
        gc.collect()
        broker.middlewares[0] = cls("x")  # same name every time
        reused += id(broker.middlewares[0]) in ids
        ids.add(id(broker.middlewares[0]))
        want = trace(f"h4-{n}", "x" if cls in (PreOnly, SyncBoth) else "",
                     "x" if cls in (PostOnly, SyncBoth) else "")
        got = await send(broker, f"h4-{n}")
        if got != want:
            expect(f"H4 step {n} ({cls.__name__})", got, want)
    expect(f"H4 40 replacements by same-named objects ({reused} with a recycled id)", [], [])

    # H5 class-level changes between calls with the very same list and objects.
    class Late(Named):
        pass

    late = Late("l")
    broker.middlewares = [a, late]
    expect("H5 before patching the class", await send(broker, "h5a"), trace("h5a", "a", "a"))
    Late.pre_send = _pre  # type: ignore
    expect("H5 class gained pre_send", await send(broker, "h5b"), trace("h5b", "al", "a"))
    Late.post_send = _post  # type: ignore
    expect("H5 class gained post_send", await send(broker, "h5c"), trace("h5c", "al", "al"))
    del Late.pre_send
    expect("H5 class lost pre_send", await send(broker, "h5d"), trace("h5d", "a", "al"))
    late.__class__ = Nothing
    expect("H5 __class__ re-assigned to one without hooks", await send(broker, "h5e"),
           trace("h5e", "a", "a"))
    late.__class__ = SyncBoth
    expect("H5 __class__ re-assigned to one with hooks", await send(broker, "h5f"),
           trace("h5f", "al", "al"))

    # H6 the list changes while a message is in flight.
    class Adder(Named):
        def pre_send(self, message: TaskiqMessage) -> TaskiqMessage:
            self.broker.middlewares.append(SyncBoth("n"))
            return _pre(self, message)

    adder = Adder("p")
    adder.set_broker(broker)
    broker.middlewares = [adder, a]
    expect("H6 pre_send registers n at the end: n joins this very message",
           await send(broker, "h6a"), trace("h6a", "pan", "an"))

    class Dropper(Named):
        def pre_send(self, message: TaskiqMessage) -> TaskiqMessage:
            self.broker.middlewares.remove(a)
            return _pre(self, message)

    broker.middlewares = [Dropper("q"), a, b]
    for m in broker.middlewares:
        m.set_broker(broker)
    expect("H6 pre_send unregisters a later middleware: it no longer runs",
           await send(broker, "h6b"), trace("h6b", "qb", "b"))

    class Swapper(Named):
        def pre_send(self, message: TaskiqMessage) -> TaskiqMessage:
            self.broker.middlewares = [SyncBoth("z")]  # new list object
            return _pre(self, message)

    broker.middlewares = [Swapper("s"), a]
    for m in broker.middlewares:
        m.set_broker(broker)
    expect("H6 pre_send re-assigns the list: pre loop finishes the old list, post uses the new",
           await send(broker, "h6c"), trace("h6c", "sa", "z"))

    # H7 concurrent messages; the list grows while both are suspended in w.pre_send.
    gate = asyncio.Event()

    class Gate(Named):
        async def pre_send(self, message: TaskiqMessage) -> TaskiqMessage:
            await gate.wait()
            return _pre(self, message)

    broker.middlewares = [Gate("w"), a]
    del LOG[:]
    t1 = asyncio.ensure_future(AsyncKicker("demo:task", broker, {}).with_task_id("m1").kiq())
    t2 = asyncio.ensure_future(AsyncKicker("demo:task", broker, {}).with_task_id("m2").kiq())
    await asyncio.sleep(0.01)
    broker.middlewares.append(PostOnly("y"))
    gate.set()
    await asyncio.gather(t1, t2)
    for tid in ("m1", "m2"):
        expect(f"H7 concurrent message {tid} (y registered mid-flight)",
               [ev for ev in LOG if tid in ev], trace(tid, "wa", "ay"))

    # H8 one kicker, two brokers sharing a middleware instance, alternating.
    other = RecBroker()
    other.middlewares = [c, a, d]
    broker.middlewares = [a, b]
    kicker = AsyncKicker("demo:task", broker, {})
    for n in range(2):
        expect(f"H8 round {n} broker one [a b]", await send(broker, f"h8x{n}", kicker.with_broker(broker)),
               trace(f"h8x{n}", "ab", "ab"))
        expect(f"H8 round {n} broker two [c a d]", await send(other, f"h8y{n}", kicker.with_broker(other)),
               trace(f"h8y{n}", "ca", "ad"))

    print(f"all {CHECKS} checks passed")


asyncio.run(main())
