"""property -> verification units, claims and stated assumptions (mirrors MANIFEST.json / DESIGN.md section 4)"""
PROPS = {
 'C13': dict(units=['u_delay'], design_ref='DESIGN.md 4 C13, A.1',
   explanation="VCs from the real AST of get_task_delay (cron branch): result, single matcher call with (task.cron, shifted now), single UTC clock read; all inputs, no bound.",
   assumptions=["pycron.is_now decides 'expression matches the minute of its datetime argument' and reads only minute-level fields (assumed; external)",
                "pytz tz database / astimezone yield the local wall time of the named zone (assumed; external)", "datetime theory D1-D5 (specs/u_delay.py TRUSTED)"],
   not_decided=["correctness of pycron's grammar/matcher and of the tz database (external dependencies)"]),
 'C14': dict(units=['u_delay'], design_ref='DESIGN.md 4 C14, A.1',
   explanation="VCs from the real AST of get_task_delay (time branch) + to_tz_aware inlined, over integer microseconds: the three clauses of the statement verbatim; all now/T, no bound.",
   assumptions=["datetime theory D1-D5 (specs/u_delay.py TRUSTED); int(timedelta.total_seconds()) exact for 0..61 s (range proved on the path)", "now within datetime's range"],
   not_decided=[]),
 'C01': dict(units=['u_callback', 'u_run_task', 'u_og'], design_ref='DESIGN.md 4 C01, A.2, A.3',
   explanation="Owicki-Gries proof over the coroutine segments of the real prefetcher/runner/task_cb (conservation taken = enqueued = dequeued = callback tasks, message identity, nothing stranded at exit, quota) "
               "+ sequential VCs on the real callback/run_task (skip paths do nothing and do not raise; exactly one awaited invocation otherwise). Unbounded in A, P, N, message count, timing.",
   assumptions=["asyncio/anyio model of specs/u_og.py TRUSTED (cooperative scheduling, Semaphore/Queue/Task/wait/add_done_callback contracts)",
                "broker contract: listen() yields each taken message once; a cancelled pending __anext__ takes no message",
                "C01 precondition: pre_execute hooks, parse_params and dependency resolution do not raise (otherwise the message is not executed, by design)",
                "CancelledError/StopAsyncIteration exits of prefetcher/runner (external cancellation, stream end) are not explored"],
   not_decided=["behaviour of a broker that loses a message when its pending fetch is cancelled (outside taskiq)"]),
 'C02': dict(units=['u_callback'], design_ref='DESIGN.md 4 C02, A.2',
   explanation="Ghost monitor on the real Receiver.callback: at every message.ack() event acks==0 and the configured point has been reached; at normal exit acks == 1 iff ackable. "
               "The assertion sits at the event, so it holds for every trace prefix (crash points). All three ack types, sync/async ack, every outcome incl. backend failure.",
   assumptions=["run_task contract (proved by u_run_task; used modularly)", "hooks/ack/backend are arbitrary user code that may raise any Exception", "raise_err=False (the worker's own call)"],
   not_decided=["what the broker's ack callable does"]),
 'C03': dict(units=['u_og', 'u_callback', 'u_run_task'], design_ref='DESIGN.md 4 C03, A.3',
   explanation="OG invariant: slots law sa = A - acquired + released-by-done-callbacks, hence live <= A and no leak after any history (done-callback fires for every way a callback task ends); "
               "task_cb attached before the next suspension; limit 1 => one at a time in FIFO order; stuck-freedom obligation; frame obligations on callback/run_task; __init__ builds Semaphore(max_async_tasks).",
   assumptions=["asyncio model (u_og TRUSTED): add_done_callback runs for every way a task ends"],
   not_decided=["'keeps making progress' as a fairness/liveness claim beyond stuck-freedom"]),
 'C04': dict(units=['u_og'], design_ref='DESIGN.md 4 C04, A.3',
   explanation="OG invariant implies [finished look-ahead] + queued + live <= A + P + 1 (the literal bound of the statement) for unbounded A, P, backlog, durations; __init__ builds Semaphore(max_prefetch); queue unbounded.",
   assumptions=["asyncio model (u_og TRUSTED)"], not_decided=[]),
 'C05': dict(units=['u_og'], design_ref='DESIGN.md 4 C05, A.3',
   explanation="OG invariant: after stop at most one further message; everything taken is enqueued before the sentinel; runner exits only via the sentinel after waiting for live callbacks or the timeout; "
               "quota N; stuck-state obligations turn 'then returns' into first-order enabledness checks.",
   assumptions=["asyncio model (u_og TRUSTED)"], not_decided=["'returns promptly' as a wall-clock latency bound (0.3 s polling)"]),
 'C06': dict(units=['u_run_task', 'u_callback'], design_ref='DESIGN.md 4 C06, A.2',
   explanation="Ownership VCs on the real run_task: the initial cache handed to the dependency resolver is fresh, maps Context to Context(this message, this broker) and is not written afterwards; "
               "the target is invoked with this message's args/kwargs; callback saves under the executed message's task id the result of this run_task.",
   assumptions=["taskiq_dependencies keeps a reference to the initial cache and reads it at later suspension points (read from its source) => requires fresh(cache)"],
   not_decided=["that taskiq_dependencies, given a private cache, resolves everything from it (external)"]),
 'C07': dict(units=['u_run_task', 'u_callback'], design_ref='DESIGN.md 4 C07, A.2',
   explanation="run_task postcondition (is_err/return_value/error/labels from the awaited invocation's outcome, any BaseException, wait_for applied iff timeout label); callback: exactly one set_result with "
               "(task_id, result) unless NoResultError; a backend Exception never escapes.",
   assumptions=["frame-preserving hooks (a middleware may legitimately rewrite the result)", "timeout label None or float-convertible"], not_decided=["that the backend stores what it is given"]),
 'C10': dict(units=['u_callback', 'u_run_task', 'u_kiq'], design_ref='DESIGN.md 4 C10, A.2',
   explanation="Worker side: loop invariants 'hooks with index < i fired iff overridden, none >= i' for pre_execute/post_execute/post_save/on_error on the real loops; order by monitor; sync and async hooks (token rule).",
   assumptions=["hooks that raise are exempt from 'exactly once' for the hooks after them (hook_failed)"], not_decided=[]),
 'C12': dict(units=['u_run_task'], design_ref='DESIGN.md 4 C12, A.2',
   explanation="Monitor on the real run_task: exactly one awaited dep_ctx.close per created context, after the invocation finished or resolution failed, before the result is built; exc_info passed iff found and propagate.",
   assumptions=["taskiq_dependencies.close() finalises every opened dependency once and throws exc_info[1] iff not None (external)", "timeout label None or float-convertible"],
   not_decided=["'in reverse order of opening': that order is produced inside taskiq_dependencies (external); not assumed"]),
 'C08': dict(units=['u_parse_params', 'u_kicker', 'u_formatters', 'u_run_task'], design_ref='DESIGN.md 4 C08, A.4',
   explanation="parse_params: quantified array postcondition 'argument j is converted by the hint of parameter j (the parameter the caller bound it to), keyword k by hint k unless bound positionally' with a loop "
               "invariant over the parameter position; _prepare_message/_prepare_arg keep positions and keys; formatter/serializer round trip as a rewriting lemma; run_task call site binds message.args / resolved+message kwargs.",
   assumptions=["pydantic conversion is an uninterpreted function conv(T, v) that returns or raises ValueError/RuntimeError", "no var-positional (*args) parameter in the task signature",
                "json/pickle/pydantic round-trip axioms on JSON-representable content (specs/u_formatters.py TRUSTED)"],
   not_decided=["what pydantic converts to what (conv is uninterpreted); value equality through json/pickle/pydantic (axioms)"]),
 'C09': dict(units=['u_labels', 'u_kicker', 'u_run_task'], design_ref='DESIGN.md 4 C09, A.6',
   explanation="Round trip parse_label(*prepare_label(v)) == v per primitive type through the real enum/table dispatch; parse_labels loop; _prepare_message prepares every label; requeue: what Context.requeue sends "
               "decodes to the current labels (real parse_label on the wire form, arbitrary key); ownership theorem: kicker()/with_labels()/with_task_id()/with_broker() never modify the task (heap frame, no aliasing).",
   assumptions=["str/int/float/base64 axioms (specs/u_labels.py TRUSTED)", "labels arrive parsed: a type tag, if present, is the tag of the label's type; bytes labels are always tagged"],
   not_decided=["float -> str -> float exactness and base64 are axioms; the retry re-send goes through _prepare_message (decided in C11's unit when built)"]),
 'C11': dict(units=['u_retry'], design_ref='DESIGN.md 4 C11, A.5',
   explanation="Contract of the real SimpleRetryMiddleware.on_error (re-send iff not NoResult, enabled, r+1 < m; same id/name/args/kwargs, labels with _retries = r+1; NoResultError iff re-sent and no_result_on_retry) "
               "+ attempt lemma by induction (base/step discharged by z3): attempt k carries _retries = k-1, total executions <= max(1, max_retries).",
   assumptions=["labels arrive parsed as ints/bools/strs (C09)", "AsyncKicker chain contract (u_kicker)", "save rule / on_error call rule of C07/C10 (units u_callback/u_run_task)"], not_decided=[]),
 'C15': dict(units=['u_sched_loop'], design_ref='DESIGN.md 4 C15',
   explanation="One iteration of the real run_scheduler_loop body: exactly the due schedules are spawned once each with their own (source, task, delay), ValueError isolation, nothing escapes, sleep argument; "
               "get_schedules/get_all_schedules/delayed_send contracts; history Lemma L (arithmetic over the contracts) under timing assumptions A1-A3.",
   assumptions=["A1-A3 (asyncio.sleep accuracy, iteration duration, no UTC-offset change between the two naive clock reads) are unchecked", "get_task_delay contract (C13/C14)"],
   not_decided=["whether A1-A3 hold on a real clock; removal of fired one-shot entries is the source's job (C16)"]),
 'C16': dict(units=['u_kiq', 'u_label_source'], design_ref='DESIGN.md 4 C16',
   explanation="on_ready monitor (pre_send first; cancel => nothing; else one kiq with the schedule's name/broker/labels+schedule_id/args/kwargs, then post_send; sync and async callbacks); "
               "LabelScheduleSource.get_schedules = exact ordered listing (soundness, no duplicates, completeness via ghost inverse map, copied fields); post_send removes the first entry with the fired time and nothing else.",
   assumptions=["dict/list views; Python == on times is an equivalence (py_eq)", "AsyncKicker chain contract (u_kicker)"], not_decided=[]),
 'C17': dict(units=['u_pm'], design_ref='DESIGN.md 4 C17, A.7',
   explanation="Loop invariants on the real ProcessManager.start (outer iteration: sleep -> drain loop cut -> end-of-tick scan; one arbitrary drain iteration with both handle() bodies inlined), FIFO queue view: "
               "slot count constant, every started un-joined process is its slot's current process (terminate <= join <= start in handle), every worker found dead by a scan is replaced when the next drain ends normally (two ticks), prepare_workers post.",
   assumptions=["multiprocessing/os model of specs/u_pm.py TRUSTED", "signal handlers only append Shutdown/ReloadAll actions between statements"],
   not_decided=["that a started process really runs (OS); termination of the drain loop under an endless stream of signals; 'two ticks' measured in seconds"]),
 'C18': dict(units=['u_pm'], design_ref='DESIGN.md 4 C18, A.7',
   explanation="Budget ghost counted by the queue contract (dequeued non-reload-all ReloadOne while max_fails >= 1): restarts == ghost and < max_fails while running, return -1 exactly when reached; ReloadAll appends ReloadOne(i, True) in order, "
               "each slot restarted at most once per tick; Shutdown: every worker alive when examined signalled exactly once, nobody twice, os.kill only on own un-reaped workers, nothing started, returns None; signal wiring.",
   assumptions=["multiprocessing/os model of specs/u_pm.py TRUSTED (os.kill requires an un-reaped own child)"], not_decided=[]),
 'C19': dict(units=['u_ser'], design_ref='DESIGN.md 4 C19, A.8',
   explanation="No Exception escapes any preparation function (user repr/str/constructors/coders may raise anything); cycle cut (recursive calls only while the current exception is in SEEN, callee returns None for an "
               "exception on the path, finally restores SEEN); link correspondence: ExceptionRepr built from the right fields and exception_to_python restores cause/context/suppress. Equality through json/pickle/pydantic is NOT "
               "decided deductively: bounded supplement (exception graphs up to depth 3) - labelled bounded, never counted as proved.",
   assumptions=["printable-exceptions assumption; attribute reads pure; id() injective", "json/pickle/pydantic behaviour is external: exercised only by the bounded supplement"],
   not_decided=["'original class with equal arguments whenever importable and representable': lives inside json/pickle/pydantic (bounded supplement only)", "second-order pathologies (an exception raised by __repr__ whose own __repr__ raises)"],
   supplements=[dict(name='exception-graphs', driver='ser', args={'parts': ['graphs']}, bound='exception graphs up to depth 3 over 9 classes x 15 argument kinds x cause/context/suppress/cycle shapes; JSON-text, JSON-dict and pickle round trips of TaskiqResult')]),
 'C20': dict(units=['u_gate'], design_ref='DESIGN.md 4 C20, A.8',
   explanation="Call-target safety: the two dynamic calls on the load path are reached only with isinstance(callee, type) and issubclass(callee, BaseException) proved (gate / create_exception_cls post); failing gate raises SecurityError; "
               "unresolvable types yield the synthetic class; syntactic frame: no import machinery, sys.modules lookup only, every callee accounted for; recursion re-enters the same contract.",
   assumptions=["attribute lookup is pure (property getters on planted instances are not decided)", "@validate_call passes declared types through"],
   not_decided=["side effects of getattr itself on planted instances"],
   supplements=[dict(name='gate-payloads', driver='ser', args={'parts': ['gate']}, bound='25 (module, dotted name) payloads incl. functions, builtins, non-exception classes, instances, modules, trap callables x 3 nesting levels x 3 argument tuples')]),
}
NOT_APPLICABLE = {}
