"""Native replay for unit `formatters` (C08): encode/decode round trip of messages with JSON-representable content through every bundled,
importable formatter/serializer pair.  Run with /venv/bin/python."""
import sys, json, logging
logging.disable(logging.CRITICAL)
def run(sc):
    from taskiq import InMemoryBroker
    from taskiq.message import TaskiqMessage
    from taskiq.formatters.json_formatter import JSONFormatter
    from taskiq.formatters.proxy_formatter import ProxyFormatter
    import taskiq.serializers as S
    msgs = [TaskiqMessage(task_id='i', task_name='t', labels={'a': '1', 'u': 'zé'}, labels_types={'a': 2}, args=[1, 'x', None, 1.5, [1, {'k': [True]}], {'n': {}}], kwargs={'k': 'v', 'z': [1, 2], 'e': ''}),
            TaskiqMessage(task_id='', task_name='t.u', labels={}, labels_types=None, args=[], kwargs={})]
    fails = []; n = 0
    fmts = [('JSONFormatter', lambda: JSONFormatter())]
    for name in ('JSONSerializer', 'PickleSerializer', 'ORJSONSerializer', 'MSGPackSerializer', 'CBORSerializer'):
        if not hasattr(S, name): continue
        try: ser = getattr(S, name)()
        except Exception: continue
        fmts.append((f'ProxyFormatter+{name}', (lambda ser=ser: ProxyFormatter(InMemoryBroker().with_serializer(ser)))))
    for fname, mk in fmts:
        f = mk()
        for m in msgs:
            n += 1
            try:
                bm = f.dumps(m); back = f.loads(bm.message)
                pr = []
                if back != m: pr.append(f"C08: {fname}: loads(dumps(m).message) = {back!r} != {m!r}")
                if (bm.task_id, bm.task_name, bm.labels) != (m.task_id, m.task_name, m.labels): pr.append(f"C08: {fname}: broker message header {bm.task_id, bm.task_name, bm.labels}")
            except Exception as e: pr = [f"C08: {fname}: round trip raised {type(e).__name__}: {e}"]
            if pr: fails.append({'key': fname, 'failed_clauses': pr})
    return {'reproduced': bool(fails), 'runs': n, 'n_failures': len(fails), 'failures': fails[:400]}
if __name__ == '__main__':
    sc = json.load(open(sys.argv[1])) if len(sys.argv) > 1 else {}
    print(json.dumps(run(sc.get('scenario', sc)), default=str))
