"""Unit `callback`: taskiq/receiver/receiver.py::Receiver.callback — C01 (skip paths, exactly one run_task), C02 (ack monitor),
C03 (frame: no access to the semaphores / hand-over queue; every exit is an exit of the callback task), C06/C07 (saved under the
task id of the executed message, the result of this execution; save rule; backend failure never escapes), C10 (hook order).

Ghost monitor of DESIGN Appendix A.2. Callee contracts (user code: hooks, ack, result backend, formatter) may raise any Exception;
hooks and ack may be sync or async (token rule: the effect of an async callee happens at the await).
`run_task` is used through its own contract (unit u_run_task proves it), never through its body."""
import ast
from z3 import *
from pyvc.core import *

PROPS = ['C01', 'C02', 'C03', 'C06', 'C07', 'C10']
REPLAY = {'driver': 'callback'}
REL = 'taskiq/receiver/receiver.py'
TRUSTED = [
    "broker.formatter.loads / TaskiqMessage.parse_labels: return or raise any Exception (never BaseException)",
    "middleware hooks, message.ack, result_backend.set_result are user code: may raise any Exception, sync or async (ack, hooks)",
    "Receiver.run_task contract (proved by unit u_run_task): awaited once => the task function was invoked and finished; returns a TaskiqResult or raises only from on_error hooks / dependency teardown",
    "maybe_awaitable(x) awaits x iff it is awaitable (real body is 5 lines; inlined as identity on tokens)",
    "isinstance(message, AckableMessage) is a fixed property of the message object",
]
KIND = {'pre_execute': 0, 'post_execute': 1, 'post_save': 2}
WHEN = {'WHEN_RECEIVED': 0, 'WHEN_EXECUTED': 1, 'WHEN_SAVED': 2}


def generate(src):
    fdef = src.func(REL, 'Receiver.callback')
    # ---- role binding: the locals the contract talks about are found by what they are assigned from, not by their names
    def assigned_from(callee):
        for n_ in ast.walk(fdef):
            if isinstance(n_, ast.Assign) and len(n_.targets) == 1 and isinstance(n_.targets[0], ast.Name):
                v_ = n_.value.value if isinstance(n_.value, ast.Await) else n_.value
                if isinstance(v_, ast.Call) and ast.unparse(v_.func) == callee: return n_.targets[0].id
        raise Unsupported(f"callback: no local is assigned from {callee}(...)")
    MSG = assigned_from('self.broker.formatter.loads'); TASK = assigned_from('self.broker.find_task'); RES = assigned_from('self.run_task')
    mws = {n_.target.id for n_ in ast.walk(fdef) if isinstance(n_, ast.For) and ast.unparse(n_.iter) == 'self.broker.middlewares' and isinstance(n_.target, ast.Name)}
    if len(mws) != 1: raise Unsupported("callback: the middleware loops do not share one loop variable")
    MW = mws.pop()
    for n, p in [('TaskiqError', 'Exception'), ('NoResultError', 'TaskiqError')]: CLS.add(n, p)
    ACK = Int('ack_time'); ackable, ack_async, raise_err = Bool('message_is_ackable'), Bool('ack_is_async'), Bool('raise_err')
    NMW = Int('n_middlewares'); over = Function('overridden', IntSort(), IntSort(), BoolSort()); isasync = Function('hook_is_async', IntSort(), IntSort(), BoolSort())
    j = Int('j')
    W = {'ack_time': ACK, 'ackable': ackable, 'ack_async': ack_async, 'n_middlewares': NMW}
    RP = {'driver': 'callback'}
    def ob(st, name, goal, **kw):
        g = G(st)
        w = {'noresult': g['noresult'], 'hook_failed': g['hook_failed'], 'ack_failed': g['ack_failed'], 'run_task_failed': g['run_task_failed'], 'save_failed': g['save_failed'],
             'save_base_exc': g['save_base_exc'], 'skipped_by': STR.get(str(g['skipped_by']))}
        oblige(st, name, goal, witness=w, replay=RP, **kw)
    def h_loads(ex, st, e, recv, args, kw, k, K):
        ok = st.fork(); m = fresh('taskiq_msg'); ok.pc.append(Val.is_ref(m)); k(ok, m)
        f = st.fork(); setG(f, skipped_by='loads raised'); K['exc'](f, raise_any(f, 'Exception'))
    def h_parse_labels(ex, st, e, recv, args, kw, k, K):
        ok = st.fork(); k(ok, None)
        f = st.fork(); setG(f, skipped_by='parse_labels raised'); K['exc'](f, raise_any(f, 'Exception'))
    def h_find_task(ex, st, e, recv, args, kw, k, K):
        t = fresh('task'); st.pc.append(Or(t == Val.none, Val.is_ref(t)))
        ob(st, "callback/find_task: looked up by the decoded message's task name  [C01]", BoolVal(ast.unparse(e.args[0]) == MSG + '.task_name') if e.args else BoolVal(False))
        setG(st, task=t, lookup_done=True); return k(st, t)
    def h_hook(kind):
        def h(ex, st, e, recv, args, kw, k, K):
            i = G(st).get('__i'); kk = KIND[kind]
            if i is None: raise Unsupported(f"middleware.{kind} called outside a loop over self.broker.middlewares")
            a0 = to_val(args[0]) if args else Val.none
            def eff(s, k2, K2):
                g = G(s)
                ob(s, f"callback/{kind}: hook is overridden  [C10]", over(kk, i))
                ob(s, f"callback/{kind}: receives the current message  [C10]", a0 == to_val(s.env[MSG]))
                if kind == 'pre_execute': ob(s, "callback/pre_execute: before the task function  [C10]", Not(g['exec_started']))
                if kind == 'post_execute':
                    ob(s, "callback/post_execute: after execution, before saving  [C10]", And(g['exec_finished'], g['saves'] == 0))
                    ob(s, "callback/post_execute: receives this execution's result  [C10]", And(len(args) > 1, to_val(args[1]) == Val.ref(g['result'])) if len(args) > 1 else BoolVal(False))
                if kind == 'post_save':
                    ob(s, "callback/post_save: only after the result was stored  [C10]", And(g['saves'] == 1, g['save_returned']))
                    ob(s, "callback/post_save: receives this execution's result  [C10]", And(len(args) > 1, to_val(args[1]) == Val.ref(g['result'])) if len(args) > 1 else BoolVal(False))
                ob(s, f"callback/{kind}: each hook at most once per message  [C10]", Not(g['fired'][kk][i]))
                setG(s, fired={**g['fired'], kk: Store(g['fired'][kk], i, True)})
                ok = s.fork(); r = fresh('hookret'); ok.pc.append(Val.is_ref(r)); k2(ok, r)
                f = s.fork(); setG(f, hook_failed=BoolVal(True)); K2['exc'](f, raise_any(f, 'Exception'))
            return sync_or_async(ex, st, isasync(kk, i), eff, k, K)
        return h
    def h_ack(ex, st, e, recv, args, kw, k, K):
        def eff(s, k2, K2):
            g = G(s)
            # a REJECTED message (it could not be decoded, or names no known task) has no task function and no result: the statement's three points do
            # not exist for it, so acknowledging it (e.g. an opt-in "ack unprocessable messages" switch) is constrained only by "at most once"
            rejected = BoolVal(True) if g['skipped_by'] is not None else (g['task'] == Val.none if g.get('lookup_done') else BoolVal(False))
            ob(s, "callback/ack: at most once  [C02]", g['acks'] == 0)
            ob(s, "callback/ack: when_received => before the task function starts  [C02]", Implies(ACK == 0, Not(g['exec_started'])))
            ob(s, "callback/ack: when_executed => only after the task function finished  [C02]", Implies(And(ACK == 1, Not(rejected)), g['exec_finished']))
            ob(s, "callback/ack: when_saved => only after the save attempt completed or was skipped  [C02]", Implies(And(ACK == 2, Not(rejected)), Or(g['saves'] >= 1, And(g['noresult'], g['exec_finished'], g['post_execute_done']))))          # semantic: control is past a set_result call (it returned, or raised and was caught), or the outcome is no-result and the point where saving would start has been reached
            ob(s, "callback/ack: only on messages delivered with an acknowledge callback  [C02]", ackable)
            setG(s, acks=g['acks'] + 1)
            ok = s.fork(); k2(ok, None)
            f = s.fork(); setG(f, ack_failed=BoolVal(True)); K2['exc'](f, raise_any(f, 'Exception'))
        return sync_or_async(ex, st, ack_async, eff, k, K)
    def h_run_task(ex, st, e, recv, args, kw, k, K):
        if 'message' not in kw or 'target' not in kw: raise Unsupported("self.run_task must be called with target= and message=")
        msg = to_val(kw['message']); tgt = to_val(kw['target'])
        def eff(s, k2, K2):
            g = G(s)
            ob(s, "callback/run_task: at most once  [C01]", Not(g['exec_started']))
            ob(s, "callback/run_task: executes the (possibly middleware-replaced) decoded message  [C01/C06]", msg == to_val(s.env[MSG]))
            ob(s, "callback/run_task: with the function registered for that task  [C01/C06]", And(Val.is_ref(g['task']), tgt == s.heap.field('original_func')[Val.a(g['task'])]))
            setG(s, exec_started=BoolVal(True), exec_finished=BoolVal(True), ran_msg=msg)
            ok = s.fork(); r = alloc(ok); setG(ok, result=r, noresult=fresh('result_error_is_NoResultError', BoolSort())); k2(ok, PyObj(r, 'result'))
            f = s.fork(); setG(f, run_task_failed=BoolVal(True)); K2['exc'](f, raise_any(f, 'Exception'))
        return k(st, Tok(eff))
    def h_set_result(ex, st, e, recv, args, kw, k, K):
        if len(args) != 2: raise Unsupported("set_result call shape")
        tid, res = to_val(args[0]), to_val(args[1])
        def eff(s, k2, K2):
            g = G(s)
            ob(s, "callback/save: at most once  [C07]", g['saves'] == 0)
            ob(s, "callback/save: under the task id of the executed message, the result of this execution  [C06/C07]",
               And(Val.is_ref(g['ran_msg']), tid == s.heap.field('task_id')[Val.a(g['ran_msg'])], res == Val.ref(g['result'])))
            ob(s, "callback/save: never for the no-result outcome  [C07]", Not(g['noresult']))
            ob(s, "callback/save: after the task function finished and after every post_execute hook  [C07/C10]", And(g['exec_finished'], g['post_execute_done']))
            setG(s, saves=g['saves'] + 1)
            ok = s.fork(); setG(ok, save_returned=BoolVal(True)); k2(ok, None)
            f = s.fork(); setG(f, save_failed=BoolVal(True)); K2['exc'](f, raise_any(f, 'Exception'))
            b = s.fork(); x = raise_any(b, 'BaseException'); b.pc.append(Not(CLS.sub_expr(b.heap.cls_of[Val.a(x)], 'Exception'))); setG(b, save_base_exc=BoolVal(True)); K2['exc'](b, x)
        return k(st, Tok(eff))
    def h_isinstance(ex, st, e, recv, args, kw, k, K):
        what = ast.unparse(e.args[1]); subj = args[0]
        if what == 'AckableMessage' and is_expr(subj) and subj.eq(MESSAGE): return k(st, PyBool(ackable))          # value-based: the delivered message, under whatever name
        if what == 'NoResultError' and isinstance(subj, str) and subj == 'RESULT_ERROR': return k(st, PyBool(G(st)['noresult']))
        raise Unsupported(f"isinstance({ast.unparse(e.args[0])}, {what})")
    def h_for(ex, s, st, k, K):
        if ast.unparse(s.iter) != 'self.broker.middlewares': raise Unsupported("loop over " + ast.unparse(s.iter))
        kinds = [n.func.attr for n in ast.walk(s) if isinstance(n, ast.Call) and isinstance(n.func, ast.Attribute) and n.func.attr in KIND]
        if len(kinds) != 1: raise Unsupported("middleware loop must call exactly one hook")
        kind = kinds[0]; kk = KIND[kind]
        def inv(sx, ix): return ForAll([j], G(sx)['fired'][kk][j] == And(0 <= j, j < ix, over(kk, j)))
        ob(st, f"callback/{kind}-loop/inv-entry: no {kind} hook has fired before its loop  [C10]", inv(st, IntVal(0)))
        def havoc(sx):
            setG(sx, fired={**G(sx)['fired'], kk: fresh('fired', I2B)})
            if kind == 'pre_execute':
                m = fresh('taskiq_msg'); sx.pc.append(Val.is_ref(m)); sx.env = dict(sx.env); sx.env[MSG] = m      # pre_execute may replace the message
        it = st.fork(); havoc(it); i = fresh('i', IntSort()); it.pc += [i >= 0, i < NMW]; it.facts.append(inv(it, i)); setG(it, __i=i); it.env = dict(it.env); it.env[MW] = PyObj(fresh('mw', IntSort()), 'middleware')
        def back(s3): ob(s3, f"callback/{kind}-loop/inv-preserved: overridden hooks fire in registration order, each once  [C10]", inv(s3, i + 1))
        K2 = dict(K); K2['cont'] = back
        K2['brk'] = lambda s3: ob(s3, f"callback/{kind}-loop: no early exit from the hook loop  [C10]", BoolVal(False))
        ex.block(s.body, it, back, K2)
        out = st.fork(); havoc(out); out.facts.append(inv(out, NMW)); setG(out, __i=None)
        if kind == 'post_execute': setG(out, post_execute_done=BoolVal(True))
        return k(out)

    class Ex(Exec):
        def ev_Attribute(self, e, st, k, K):
            p = ast.unparse(e)
            if p.startswith('AcknowledgeType.') and e.attr in WHEN: return k(st, PyInt(IntVal(WHEN[e.attr])))
            if p.startswith('self.sem') or 'queue' in p:
                ob(st, "callback/frame: no access to the receiver's semaphores or hand-over queue  [C03]", BoolVal(False))
                return k(st, fresh('forbidden'))
            if e.attr == 'error' and isinstance(e.value, ast.Name) and isinstance(st.env.get(e.value.id), PyObj) and st.env[e.value.id].kind == 'result': return k(st, 'RESULT_ERROR')
            if p == 'self.ack_time': return k(st, PyInt(ACK))
            return super().ev_Attribute(e, st, k, K)          # everything else: a pure read of the heap field of the value the name denotes
        def ev_Compare(self, e, st, k, K):
            u = ast.unparse(e)
            for kind, kk in KIND.items():
                if u == f'{MW}.__class__.{kind} != TaskiqMiddleware.{kind}': return k(st, PyBool(over(kk, G(st)['__i'])))
                if u == f'{MW}.__class__.{kind} == TaskiqMiddleware.{kind}': return k(st, PyBool(Not(over(kk, G(st)['__i']))))
            return super().ev_Compare(e, st, k, K)
    H = {'logger.*': noop, 'self.broker.formatter.loads': h_loads, MSG + '.parse_labels': h_parse_labels, 'self.broker.find_task': h_find_task, 'maybe_awaitable': h_maybe_awaitable,
         MW + '.pre_execute': h_hook('pre_execute'), MW + '.post_execute': h_hook('post_execute'), MW + '.post_save': h_hook('post_save'), '*.ack': h_ack,
         'self.run_task': h_run_task, 'self.broker.result_backend.set_result': h_set_result, 'isinstance': h_isinstance, '@for': h_for}
    ex = Ex(H); ex.inline_scope = (src, REL, 'Receiver')
    st = State(); MESSAGE = fresh('message'); st.env = {'self': PyObj(Int('self_a')), 'message': MESSAGE, 'raise_err': PyBool(raise_err)}
    st.pc += [ACK >= 0, ACK <= 2, NMW >= 0, Not(raise_err), st.heap.next > 0]
    st.ghost = dict(__i=None, acks=IntVal(0), saves=IntVal(0), exec_started=BoolVal(False), exec_finished=BoolVal(False), save_done=BoolVal(False), save_returned=BoolVal(False), hook_failed=BoolVal(False),
                    ack_failed=BoolVal(False), run_task_failed=BoolVal(False), save_failed=BoolVal(False), save_base_exc=BoolVal(False), noresult=BoolVal(False), result=IntVal(-1), ran_msg=Val.none,
                    task=Val.none, post_execute_done=BoolVal(False), skipped_by=None, fired={kk: K(IntSort(), False) for kk in KIND.values()}, __witness=W)
    exits = collections.Counter()
    def on_ret(s, v):
        g = G(s)
        if is_false(simplify(g['exec_started'])):
            exits['skip'] += 1
            rejected = BoolVal(True) if g['skipped_by'] is not None else g['task'] == Val.none
            ob(s, "callback/skip: a message that is not executed => nothing saved, no exception; a malformed or unknown-task message reaches no hook  [C01]",
               And(g['saves'] == 0, Not(g['exec_started']), Implies(rejected, ForAll([j], Not(g['fired'][0][j])))))
            ob(s, "callback/skip: only when decoding failed, the task is unknown, or user code that runs before the task function (the acknowledge callable, a pre_execute hook) raised - the C01 precondition  [C01]",
               Or(BoolVal(g['skipped_by'] is not None), g['task'] == Val.none, g['ack_failed'], g['hook_failed']))
            ob(s, "callback/skip: acked at most once  [C02]", g['acks'] <= 1)
            reach(s, f"callback/reach@skip#{exits['skip']}")
            return
        exits['normal'] += 1
        ob(s, "callback/post: executed exactly once  [C01]", g['exec_finished'])
        ob(s, "callback/post: acked exactly once iff delivered with an acknowledge callback  [C02]", g['acks'] == If(ackable, 1, 0))
        ob(s, "callback/post: exactly one result stored unless no-result  [C07]", g['saves'] == If(g['noresult'], 0, 1))
        ob(s, "callback/post: a failing result backend does not prevent the message from completing: the when_saved acknowledgement still happens  [C07]",
           Implies(And(g['save_failed'], ackable, ACK == 2), g['acks'] == 1))
        for kind, kk in KIND.items():
            want = And(0 <= j, j < NMW, over(kk, j)) if kind != 'post_save' else And(0 <= j, j < NMW, over(kk, j), g['saves'] == 1, g['save_returned'])
            ob(s, f"callback/post: every overridden {kind} fired exactly once, in order  [C10]", Implies(Not(g['hook_failed']), ForAll([j], g['fired'][kk][j] == want)))
        if exits['normal'] <= 40: reach(s, f"callback/reach@return#{exits['normal']}")
    def on_exc(s, x):
        exits['raise'] += 1; g = G(s)
        ob(s, "callback/raises: only from a hook, the ack callable, run_task, or a non-Exception from the backend (a backend Exception never escapes)  [C07/C03]",
           Or(g['hook_failed'], g['ack_failed'], g['run_task_failed'], g['save_base_exc']))
        ob(s, "callback/raises: acked at most once  [C02]", g['acks'] <= 1)
    ex.run(fdef, st, on_ret, on_exc)
    src.note_paths('::Receiver.callback', sum(exits.values()))
    return {'exits': dict(exits)}
