"""Unit `kiq`: taskiq/kicker.py::AsyncKicker.kiq (C10 send side) and taskiq/scheduler/scheduler.py::TaskiqScheduler.on_ready (C16).

kiq: every overridden pre_send runs in registration order, each seeing its predecessor's message, before formatter.dumps of the LAST
message and exactly one broker.kick; post_send hooks only after a successful kick, with the sent message; an Exception from dumps/kick
surfaces as SendTaskError with the cause set and no post_send.  Sync and async hooks (token rule).
on_ready: source.pre_send first; ScheduledTaskCancelledError => nothing sent, no post_send, returns normally; any other exception
propagates with nothing sent; otherwise exactly one kiq(*task.args, **task.kwargs) on a kicker with the schedule's task name, this broker,
the schedule's labels plus schedule_id, then source.post_send."""
import ast
from z3 import *
from pyvc.core import *

PROPS = ['C10', 'C16']
REPLAY = {'driver': 'sched'}
TRUSTED = [
    "middleware.pre_send/post_send, source.pre_send/post_send are user code: any Exception, sync or async",
    "formatter.dumps and broker.kick may raise any Exception",
    "_prepare_message contract (unit u_kicker); AsyncKicker(...).with_labels(...).kiq(...) contract used by on_ready (units u_kicker/u_kiq)",
]


def generate(src):
    KIQ = src.func('taskiq/kicker.py', 'AsyncKicker.kiq'); ON_READY = src.func('taskiq/scheduler/scheduler.py', 'TaskiqScheduler.on_ready')
    for n, p in [('TaskiqError', 'Exception'), ('BrokerError', 'TaskiqError'), ('SendTaskError', 'BrokerError'), ('ScheduledTaskCancelledError', 'TaskiqError')]: CLS.add(n, p)
    over = Function('overridden', IntSort(), IntSort(), BoolSort()); isasync = Function('is_async', IntSort(), IntSort(), BoolSort()); NMW = Int('n_mw')
    PRE, POST = 0, 1; j = Int('j')
    # ------------------------------------------------------------------ kiq
    def h_prepare_message(ex, st, e, recv, args, kw, k, K): m0 = fresh('msg0'); setG(st, cur_msg=m0); return k(st, m0)
    def h_hook(kind):
        def h(ex, st, e, recv, args, kw, k, K):
            i = st.env['__i']; arg = to_val(args[0])
            def eff(s, k2, K2):
                g = s.ghost
                oblige(s, f"kiq/{'pre' if kind == PRE else 'post'}_send: hook is overridden  [C10]", over(kind, i))
                if kind == PRE:
                    oblige(s, "kiq/pre_send: before the broker receives the message  [C10]", g['kicks'] == 0)
                    oblige(s, "kiq/pre_send: sees its predecessor's message  [C10]", arg == g['cur_msg'])
                else:
                    oblige(s, "kiq/post_send: only after a successful kick  [C10]", And(g['kicks'] == 1, g['kick_ok']))
                    oblige(s, "kiq/post_send: sees the message that was sent  [C10]", arg == g['sent_msg'])
                setG(s, fired={**g['fired'], kind: Store(g['fired'][kind], i, True)})
                ok = s.fork(); r = fresh('hookret')
                if kind == PRE: setG(ok, cur_msg=r)
                k2(ok, r)
                f = s.fork(); setG(f, hook_failed=BoolVal(True)); K2['exc'](f, raise_any(f, 'Exception'))
            return sync_or_async(ex, st, isasync(kind, i), eff, k, K)
        return h
    def h_dumps(ex, st, e, recv, args, kw, k, K):
        setG(st, dumped_msg=to_val(args[0]))
        ok = st.fork(); k(ok, fresh('broker_message'))
        f = st.fork(); K['exc'](f, raise_any(f, 'Exception'))
    def h_kick(ex, st, e, recv, args, kw, k, K):
        def eff(s, k2, K2):
            g = s.ghost
            oblige(s, "kiq/kick: exactly once  [C10]", g['kicks'] == 0)
            oblige(s, "kiq/kick: sends the message returned by the last pre_send  [C10]", g['dumped_msg'] == g['cur_msg'])
            oblige(s, "kiq/kick: after every overridden pre_send  [C10]", Or(g['hook_failed'], ForAll([j], g['fired'][PRE][j] == And(0 <= j, j < NMW, over(PRE, j)))))
            setG(s, kicks=g['kicks'] + 1, sent_msg=g['dumped_msg'])
            ok = s.fork(); setG(ok, kick_ok=BoolVal(True)); k2(ok, None)
            f = s.fork(); x = raise_any(f, 'Exception'); setG(f, kick_exc=x); K2['exc'](f, x)
        return k(st, Tok(eff))
    def h_SendTaskError(ex, st, e, recv, args, kw, k, K): return k(st, new_exc(st, 'SendTaskError'))
    def h_AsyncTaskiqTask(ex, st, e, recv, args, kw, k, K): return k(st, fresh('task_handle'))
    def h_for(ex, s, st, k, K):
        # the loop contract below is the contract of a walk over the broker's middleware list itself; any other iterable (a helper, a memo, a filtered copy)
        # has no contract here: UNDECIDED, the bounded send-side histories decide
        if ast.unparse(s.iter) not in ('self.broker.middlewares', 'list(self.broker.middlewares)', 'tuple(self.broker.middlewares)') or not (isinstance(s.target, ast.Name) and s.target.id == 'middleware') or s.orelse:
            raise Unsupported("loop over " + ast.unparse(s.iter) + " (target " + ast.unparse(s.target) + "): only a walk over self.broker.middlewares has a contract")
        kind = PRE if 'pre_send' in ast.unparse(s) else POST
        def inv(sx, ix): return ForAll([j], sx.ghost['fired'][kind][j] == And(0 <= j, j < ix, over(kind, j)))
        oblige(st, "kiq/loop/inv-entry  [C10]", inv(st, IntVal(0)))
        it = st.fork(); i = fresh('i', IntSort()); g = it.ghost
        setG(it, fired={**g['fired'], kind: fresh('fired', ArraySort(IntSort(), BoolSort()))}, cur_msg=fresh('cur_msg') if kind == PRE else g['cur_msg'])
        it.pc += [i >= 0, i < NMW]; it.facts.append(inv(it, i)); it.env = dict(it.env); it.env['__i'] = i; it.env['middleware'] = PyObj(fresh('mw', IntSort()))
        if kind == PRE: it.env['message'] = it.ghost['cur_msg']
        ex.block(s.body, it, lambda s3: (oblige(s3, "kiq/loop/inv-preserved: overridden hooks fire in registration order, each once  [C10]", inv(s3, i + 1)), oblige(s3, "kiq/loop: each pre_send result becomes the current message  [C10]", to_val(s3.env['message']) == s3.ghost['cur_msg']) if kind == PRE else None), K)
        out = st.fork(); g = out.ghost
        setG(out, fired={**g['fired'], kind: fresh('fired', ArraySort(IntSort(), BoolSort()))}, cur_msg=fresh('cur_msg') if kind == PRE else g['cur_msg'])
        out.facts.append(inv(out, NMW)); out.env = dict(out.env)
        if kind == PRE: out.env['message'] = out.ghost['cur_msg']
        return k(out)
    class Ex(Exec):
        def ev_Attribute(self, e, st, k, K):
            p = ast.unparse(e)
            if p.startswith('middleware.__class__.') or p.startswith('TaskiqMiddleware.') or p in ('self.broker.middlewares', 'self.task_name', 'self.broker.result_backend', 'self.return_type', 'message.task_id', 'task.task_name', 'self.broker', 'task.labels', 'task.schedule_id', 'task.args', 'task.kwargs'): return k(st, fresh(p.replace('.', '_')))
            return super().ev_Attribute(e, st, k, K)
        def ev_Compare(self, e, st, k, K):
            u = ast.unparse(e)
            if u.startswith('middleware.__class__.pre_send !='): return k(st, PyBool(over(PRE, st.env['__i'])))
            if u.startswith('middleware.__class__.post_send !='): return k(st, PyBool(over(POST, st.env['__i'])))
            return super().ev_Compare(e, st, k, K)
        def ev_Starred(self, e, st, k, K): return self.ev(e.value, st, k, K)
        def ev_Call(self, e, st, k, K):
            if any(x.arg is None for x in e.keywords):
                star = [x for x in e.keywords if x.arg is None][0]
                e = ast.Call(func=e.func, args=e.args, keywords=[ast.keyword(arg='**', value=star.value)] + [x for x in e.keywords if x.arg is not None])
            return super().ev_Call(e, st, k, K)
        def st_Raise(self, s, st, k, K):
            if s.cause is not None:
                def got(st2, v):
                    x = to_val(v); setG(st2, raised_cause=to_val(st2.env[s.cause.id])); return K['exc'](st2, x if is_expr(x) else x)
                if isinstance(s.exc, ast.Name) and s.exc.id == 'SendTaskError': return got(st, new_exc(st, 'SendTaskError'))
                return self.ev(s.exc, st, got, K)
            return super().st_Raise(s, st, k, K)
    ex = Ex({'logger.*': noop, 'self._prepare_message': h_prepare_message, 'middleware.pre_send': h_hook(PRE), 'middleware.post_send': h_hook(POST), 'maybe_awaitable': h_maybe_awaitable,
             'self.broker.formatter.dumps': h_dumps, 'self.broker.kick': h_kick, 'SendTaskError': h_SendTaskError, 'AsyncTaskiqTask': h_AsyncTaskiqTask, '@for': h_for})
    st = State(); st.env = {'self': PyObj(Int('self_a')), 'args': fresh('args'), 'kwargs': fresh('kwargs')}
    st.pc.append(NMW >= 0)
    st.ghost = dict(kicks=IntVal(0), kick_ok=BoolVal(False), hook_failed=BoolVal(False), fired={PRE: K(IntSort(), False), POST: K(IntSort(), False)}, cur_msg=Val.none, sent_msg=Val.none, dumped_msg=Val.none, kick_exc=Val.none, raised_cause=Val.none)
    exits = collections.Counter()
    def kiq_ret(s, v):
        exits['kiq:return'] += 1; g = s.ghost
        if exits['kiq:return'] <= 5: reach(s, f"kiq/reach@return#{exits['kiq:return']}")
        oblige(s, "kiq/post: exactly one successful kick  [C10]", And(g['kicks'] == 1, g['kick_ok']))
        oblige(s, "kiq/post: every overridden post_send fired once, in order  [C10]", Or(g['hook_failed'], ForAll([j], g['fired'][POST][j] == And(0 <= j, j < NMW, over(POST, j)))))
    def kiq_exc(s, x):
        exits['kiq:raise'] += 1; g = s.ghost; cid = s.heap.cls_of[Val.a(x)]
        oblige(s, "kiq/raises: a failed dumps/kick surfaces as SendTaskError with the cause set  [C10]", Implies(And(Not(g['hook_failed'])), And(CLS.sub_expr(cid, 'SendTaskError'), g['raised_cause'] != Val.none)))
        oblige(s, "kiq/raises: no post_send after a failed send  [C10]", Implies(Not(g['kick_ok']), ForAll([j], Not(g['fired'][POST][j]))))
    ex.run(KIQ, st, kiq_ret, kiq_exc)
    # ------------------------------------------------------------------ on_ready
    pre_async, post_async = Bool('pre_send_async'), Bool('post_send_async')
    def h_src_pre(ex, st, e, recv, args, kw, k, K):
        def eff(s, k2, K2):
            oblige(s, "on_ready/pre_send: first event  [C16]", And(s.ghost['r_pre'] == 0, s.ghost['r_kiq'] == 0, s.ghost['r_post'] == 0)); setG(s, r_pre=s.ghost['r_pre'] + 1)
            ok = s.fork(); k2(ok, None)
            c = s.fork(); setG(c, cancelled=BoolVal(True)); K2['exc'](c, new_exc(c, 'ScheduledTaskCancelledError'))
            f = s.fork(); x = raise_any(f, 'Exception'); f.pc.append(Not(CLS.sub_expr(f.heap.cls_of[Val.a(x)], 'ScheduledTaskCancelledError'))); setG(f, pre_failed=BoolVal(True)); K2['exc'](f, x)
        return sync_or_async(ex, st, pre_async, eff, k, K)
    def h_src_post(ex, st, e, recv, args, kw, k, K):
        def eff(s, k2, K2):
            oblige(s, "on_ready/post_send: after exactly one successful send, never after a cancel  [C16]", And(s.ghost['r_kiq'] == 1, s.ghost['r_kiq_ok'], Not(s.ghost['cancelled']))); setG(s, r_post=s.ghost['r_post'] + 1); return k2(s, None)
        return sync_or_async(ex, st, post_async, eff, k, K)
    class Kk:
        def __init__(s, name, broker, labels): s.name, s.broker, s.labels, s.extra = name, broker, labels, {}
    def h_AsyncKicker(ex, st, e, recv, args, kw, k, K): return k(st, Kk(to_val(args[0]), to_val(args[1]), to_val(args[2])))
    def h_with_labels(ex, st, e, recv, args, kw, k, K): recv.extra = {kk: to_val(v) for kk, v in kw.items()}; return k(st, recv)
    def h_kk_kiq(ex, st, e, recv, args, kw, k, K):
        def eff(s, k2, K2):
            g = s.ghost
            oblige(s, "on_ready/kiq: at most once, after pre_send, not after a cancel  [C16]", And(g['r_kiq'] == 0, g['r_pre'] == 1, Not(g['cancelled'])))
            oblige(s, "on_ready/kiq: schedule's task name, broker, labels + schedule_id, args, kwargs  [C16]", And(recv.name == s.env_v('task.task_name'), recv.broker == s.env_v('self.broker'), recv.labels == s.env_v('task.labels'),
                   BoolVal(set(recv.extra) == {'schedule_id'}), recv.extra.get('schedule_id', Val.none) == s.env_v('task.schedule_id'), to_val(args[0]) == s.env_v('task.args'), to_val(kw['**']) == s.env_v('task.kwargs')))
            setG(s, r_kiq=g['r_kiq'] + 1)
            ok = s.fork(); setG(ok, r_kiq_ok=BoolVal(True)); k2(ok, fresh('handle'))
            f = s.fork(); K2['exc'](f, new_exc(f, 'SendTaskError'))
        return k(st, Tok(eff))
    FIX = {}
    State.env_v = lambda s, path: FIX.setdefault(path, fresh(path.replace('.', '_')))
    class Ex2(Ex):
        def ev_Attribute(self, e, st, k, K):
            p = ast.unparse(e)
            if p in ('task.task_name', 'self.broker', 'task.labels', 'task.schedule_id', 'task.args', 'task.kwargs'): return k(st, st.env_v(p))
            return super().ev_Attribute(e, st, k, K)
        def find_handler(self, name, recv=None):
            if isinstance(recv, Kk): return {'with_labels': h_with_labels, 'kiq': h_kk_kiq}[name.split('.')[-1]]
            return super().find_handler(name, recv)
    ex2 = Ex2({'logger.*': noop, 'source.pre_send': h_src_pre, 'source.post_send': h_src_post, 'maybe_awaitable': h_maybe_awaitable, 'AsyncKicker': h_AsyncKicker})
    st = State(); st.env = {'self': PyObj(Int('self_a')), 'source': PyObj(Int('src_a')), 'task': PyObj(Int('task_a'))}
    st.ghost = dict(r_pre=IntVal(0), r_kiq=IntVal(0), r_post=IntVal(0), r_kiq_ok=BoolVal(False), cancelled=BoolVal(False), pre_failed=BoolVal(False))
    def or_ret(s, v):
        exits['on_ready:return'] += 1; g = s.ghost
        if exits['on_ready:return'] <= 5: reach(s, f"on_ready/reach@return#{exits['on_ready:return']}")
        oblige(s, "on_ready/post: cancelled => nothing sent, no post_send; else one send then one post_send (the source learns that the schedule fired: a one-shot is removed, so it is sent exactly once)  [C16/C15]", If(g['cancelled'], And(g['r_kiq'] == 0, g['r_post'] == 0), And(g['r_pre'] == 1, g['r_kiq'] == 1, g['r_kiq_ok'], g['r_post'] == 1)))
    def or_exc(s, x):
        exits['on_ready:raise'] += 1; g = s.ghost
        oblige(s, "on_ready/raises: never after a cancel; nothing sent if pre_send failed  [C16]", And(Not(g['cancelled']), Implies(g['pre_failed'], g['r_kiq'] == 0), g['r_post'] == 0))
    ex2.run(ON_READY, st, or_ret, or_exc)
    src.note_paths('::AsyncKicker.kiq', exits['kiq:return'] + exits['kiq:raise']); src.note_paths('::TaskiqScheduler.on_ready', exits['on_ready:return'] + exits['on_ready:raise'])
    return {'exits': dict(exits)}
