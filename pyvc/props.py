"""property -> verification units, claims and stated assumptions (mirrors MANIFEST.json / DESIGN.md section 4)"""
PROPS = {
 'C13': dict(units=['u_delay'], design_ref='DESIGN.md 4 C13, A.1',
   explanation="VCs from the real AST of get_task_delay (cron branch): result, single matcher call with (task.cron, shifted now), single UTC clock read; all inputs, no bound.",
   assumptions=["pycron.is_now decides 'expression matches the minute of its datetime argument' and reads only minute-level fields (assumed; external)",
                "pytz tz database / astimezone yield the local wall time of the named zone (assumed; external)", "datetime theory D1-D5 (specs/u_delay.py TRUSTED)"],
   not_decided=["correctness of pycron's grammar/matcher and of the tz database (external dependencies)"]),
 'C14': dict(units=['u_delay'], design_ref='DESIGN.md 4 C14, A.1',
   explanation="VCs from the real AST of get_task_delay (time branch) + to_tz_aware inlined, over integer microseconds: the three clauses of the statement verbatim; all now/T, no bound.",
   assumptions=["datetime theory D1-D5 (specs/u_delay.py TRUSTED); int(timedelta.total_seconds()) exact for 0..61 s (range proved on the path)", "now within datetime's range"],
   not_decided=[]),
}
NOT_APPLICABLE = {}
